"""C07 -- adjoint-state gradient (building blocks).

G1  maps.interp_edges_to_vol_averages (accumulation rule): for every cell c and every edge field g with zero
    tangential boundary values,   o_d[c] += V[c] * sum_E  dM_e(E)/d eta_d[c] * g_E   -- i.e. the exact transpose of the
    eta-derivative of the C02 operator (dM_e/d eta taken from spec.edge_mass by coefficient extraction, = 1/4 on the
    four d-edges of the cell).  With g = lambda * s mu0 * e and eta = -s mu0 V sigma this is d/d sigma of lambda^T A e.
G2  Simulation.gradient: anisotropy collection == chain rule of the aliasing of C02/VolumeModel; derivative_chain after the sums
G3  per source-frequency pair: gfield = Re(bfield * s mu0 * efield) on the efield's grid, a FRESH zero buffer per pair,
    accumulated over all pairs.
R1/R2 (c07_pos.py)  the forward responses are sampled at receiver.coordinates_abs(source) -- the positions the adjoint sources are placed at
    (_get_rfield clause) -- for absolute and source-relative receivers and any source (closed loops included).
S1/S2 (c07_resp.py)  Simulation._get_responses: the datum in receiver slot i is the response of receiver i itself (field of its own type, its own
    coordinates_abs, the simulation's interpolation; stored or given electric field) for electric and magnetic receivers listed in any order;
    survey data and stored fields are left as they were.
Not covered: the two solves, finite-difference convergence order (bounded concrete check only).
"""
import ast
import itertools
import os

import z3

from pyvc import sx, ob, intake, prove, cx
from . import spec
from .kernel_env import ZERO, ONE
from .c03 import bounds_obligations
from .cxutil import clause
from .c13 import ds_hook

PROP = 'C07'


def replay(d):
    from . import c07_concrete
    return ob.guarded(c07_concrete.check, 'quick', 0)


def task_edges_to_vol():
    col = ob.Collector(PROP, 'maps.interp_edges_to_vol_averages')
    col.default_replay = replay
    fn = col.function('maps.interp_edges_to_vol_averages')
    params = [a.arg for a in fn.args.args]
    if params != ['ex', 'ey', 'ez', 'volumes', 'ox', 'oy', 'oz']:
        raise sx.OutsideSubset(f'interp_edges_to_vol_averages signature changed: {params}')
    n = z3.Ints('nx ny nz')
    hyps = [k >= 1 for k in n]
    E = {}
    for c in 'xyz':
        raw = z3.Function(f'g{c}_raw', sx.I, sx.I, sx.I, sx.RS)
        E[c] = sx.ArrObj('e' + c, spec.edge_shape(c, n),
                         base=(lambda i, j, k, c=c, raw=raw: z3.If(z3.And(*spec.edge_interior(c, (i, j, k), n)), raw(i, j, k), ZERO)))
    vol = sx.ArrObj('volumes', tuple(n))
    O = {c: sx.ArrObj('o' + c, tuple(n)) for c in 'xyz'}
    X = sx.Ex('maps', pc=hyps, loops={0: ('sym', 'iz'), 1: ('sym', 'iy'), 2: ('sym', 'body')})
    X.run_function(fn, [E['x'], E['y'], E['z'], vol, O['x'], O['y'], O['z']])
    env = X.snap['body']['env']
    it = (env['ix'], env['iy'], env['iz'])
    pc = X.snap['body']['pc']
    post = X.snap['body']['arr']
    C = z3.Ints('cI cJ cK')
    hc = hyps + [z3.And(0 <= C[k], C[k] < n[k]) for k in range(3)]
    col.satisfiable('hyps-sat', hc)
    for c, ax in (('x', 0), ('y', 1), ('z', 2)):
        st = post[O[c].uid]
        writes = st.writes
        if len(writes) != 4 or any(w[1] == 'region' for w in writes):
            col.undecided(f'o{c}/four_accumulating_stores', f'expected four `+=` stores into o{c}, found {len(writes)}')
            continue
        # named iterations that can hit cell C: the edge index equals the cell index along the edge direction,
        # and is the cell index or one more across it
        offs = [(0,) if k == ax else (0, 1) for k in range(3)]
        named = [tuple(C[k] + o[k] for k in range(3)) for o in itertools.product(*offs)]
        # exhaustiveness: any iteration whose store hits C is a named one
        goals = []
        for k_w, (g, widx, wval) in enumerate(writes):
            hit = z3.And(*([g] if g is not None else []), *[a == b for a, b in zip(widx, C)])
            goals.append(z3.Implies(hit, z3.Or(*[z3.And(*[it[k] == nm[k] for k in range(3)]) for nm in named])))
        col.lia(f'o{c}/only_the_named_iterations_hit_a_cell', pc + hc, z3.And(*goals), sample=(c == 'x'))
        # total contribution of the named iterations
        tot = ZERO
        for nm in named:
            sub = [(it[k], nm[k]) for k in range(3)]
            for k_w, (g, widx, wval) in enumerate(writes):
                before = sx.ArrState(st.base, writes[:k_w])
                contrib = wval - before.read(list(widx))
                hit = z3.And(*([g] if g is not None else []), *[a == b for a, b in zip(widx, C)])
                tot = tot + z3.If(z3.substitute(hit, *sub), z3.substitute(contrib, *sub), ZERO)
        # spec: V[C] * sum over the edges in the window of dM_e(E)/d eta[C] * g_E
        kr = lambda i, j, k: spec.ite(spec.eq_idx((i, j, k), tuple(C)), ONE, ZERO)
        want = ZERO
        for o in itertools.product((-1, 0, 1), repeat=3):
            Eidx = tuple(C[k] + o[k] for k in range(3))
            coeff = spec.edge_mass(c, kr, *Eidx)
            if spec.is_zero(coeff):
                continue
            want = want + vol.read0(C) * coeff * E[c].read0(Eidx)
        # the named iterations lie in the loop range
        in_rng = [z3.And(0 <= nm[k], nm[k] <= n[k]) for nm in named for k in range(3)]
        col.lia(f'o{c}/named_iterations_are_in_the_loop_range', hc, z3.And(*in_rng))
        col.eq(f'o{c}/cell_receives_V_times_transposed_eta_derivative', hc, tot, want, smt_sample=(c == 'x'))
        col.canary_eq(f'canary/o{c}_with_half_the_weight', hc, tot, want * z3.RealVal('1/2'))
    # frame: only the output arrays are written; reads of outputs only at written cells is implied by +=
    wr = [b for b in X.bounds if b['kind'] == 'write']
    col.lia('frame/only_output_arrays_written', [], z3.BoolVal(all(w['arr'] in ('ox', 'oy', 'oz') for w in wr) and len(wr) == 12))
    bounds_obligations(col, X, pc)
    return col.pack()


def task_spec_derivative():
    """spec-level lemma: d (A_spec e)[E] / d eta_d[c] = -(1/4) e[E] for the four d-edges of cell c, 0 otherwise (A_spec affine in eta)"""
    col = ob.Collector(PROP, 'spec/operator_derivative')
    from .kernel_env import KEnv
    K = KEnv()
    C = z3.Ints('cI cJ cK')
    for c, ax in (('x', 0), ('y', 1), ('z', 2)):
        kr = lambda i, j, k: spec.ite(spec.eq_idx((i, j, k), tuple(C)), ONE, ZERO)
        zero = lambda i, j, k: ZERO
        for o in itertools.product((-1, 0, 1, 2), repeat=3):
            Eidx = tuple(C[k] + o[k] for k in range(3))
            p0 = spec.Fld(K.acc0('ex'), K.acc0('ey'), K.acc0('ez'), zero, zero, zero, K.acc0('zeta'), *K.ih())
            p1 = spec.Fld(K.acc0('ex'), K.acc0('ey'), K.acc0('ez'), kr if c == 'x' else zero, kr if c == 'y' else zero, kr if c == 'z' else zero,
                          K.acc0('zeta'), *K.ih())
            d = spec.A_spec(c, p1, Eidx, ONE, ZERO) - spec.A_spec(c, p0, Eidx, ONE, ZERO)
            is_edge_of_cell = all((o[k] == 0) if k == ax else (o[k] in (0, 1)) for k in range(3))
            want = -z3.RealVal('1/4') * K.acc0('e' + c)(*Eidx) if is_edge_of_cell else ZERO
            if not is_edge_of_cell and max(abs(x) for x in o) > 1 and False:
                continue
            col.eq(f'd{c}/offset{o[0]:+d}{o[1]:+d}{o[2]:+d}', K.hyps, d, want)
    return col.pack()


# ------------------------------------------------------------------ gradient assembly (cx)
SF = [('TxED-1', 'f-1'), ('TxED-2', 'f-1')]


def task_gradient_assembly(case):
    col = ob.Collector(PROP, f'simulations.Simulation.gradient/{case}')
    col.default_replay = replay
    col.function('simulations.Simulation.gradient')
    from . import c12

    def mk(ctx):
        log = []
        ctx.opts['getattr_hook'] = ds_hook

        def edges_to_vol(it, args, kw, node):
            # effective parameters by name (positional and keyword forms are the same call)
            from .c0910 import bind_call
            try:
                kw = {k: v for k, v in bind_call('maps.interp_edges_to_vol_averages', args, kw).items() if k != '**'}
            except Exception:
                raise cx.Unsupported('call of interp_edges_to_vol_averages cannot be bound to its signature')
            snap = {k: (kw[k], kw[k].store.uid, kw[k].store.version, kw[k].store.val) for k in ('ox', 'oy', 'oz')}
            log.append(('e2v', dict(kw), snap))
            for k in ('ox', 'oy', 'oz'):
                kw[k].store.version += 1
                kw[k].store.val = None
            return None

        def field(it, args, kw, node):
            f = c12.field_obj(cx.deps_of(kw.get('data')))
            f.fields['grid'] = kw.get('grid')
            f.fields['__data__'] = kw.get('data')
            log.append(('Field', f, dict(kw)))
            return f

        def chain(it, args, kw, node):
            log.append(('chain', args[-2], args[-1]))
            return None

        def bcompute(it, args, kw, node):
            sim = args[0]
            sim.fields['_dict_bfield'] = {s: {f: c12.field_obj({('B', s, f)}) for f in ('f-1',)} for s in ('TxED-1', 'TxED-2')}
            sim.fields['_dict_bfield_info'] = {s: {'f-1': {}} for s in ('TxED-1', 'TxED-2')}
            return None
        ctx.summaries.update({'maps.interp_edges_to_vol_averages': edges_to_vol, 'fields.Field': field, 'simulations.Simulation._bcompute': bcompute,
                              'maps._interp_volume_average_adj': lambda it, a, k, n: log.append(('adj', dict(k)))})
        for m in ('BaseMap', 'MapResistivity'):
            ctx.summaries[f'maps.{m}.derivative_chain'] = chain
        sim, ds = c12.mk_sim('misfit', case=case)
        model = sim.fields['model']
        grid = model.fields['grid']
        model.fields.update(case=case, property_x=cx.NDArr(cx.Store('property_x')),
                            property_y=cx.NDArr(cx.Store('property_y')) if case in ('HTI', 'triaxial') else None,
                            property_z=cx.NDArr(cx.Store('property_z')) if case in ('VTI', 'triaxial') else None)
        ef = {}
        for s, f in SF:
            e = c12.field_obj({('E', 0, s, f)})
            e.fields['grid'] = grid          # same grid as the model: the in-place accumulation branch
            ef.setdefault(s, {})[f] = e
        sim.fields['_dict_efield'] = ef
        sim.fields['_dict_efield_info'] = {s: {'f-1': {}} for s in ('TxED-1', 'TxED-2')}
        sim.fields['_srcfreq'] = list(SF)
        sim.fields['survey'].fields['sources'] = {'TxED-1': cx.Obj('Tx', {}), 'TxED-2': cx.Obj('Tx', {})}
        it_ = cx.Interp(ctx, 'simulations')
        return sim, log
    def run(ctx):
        sim, log = mk(ctx)
        it_ = cx.Interp(ctx, 'simulations')
        st = dict(sim=sim, log=log)
        try:
            v = it_.getattr(sim, 'gradient')
        except cx._Raise as e:
            return 'raise', e.exc, st
        return 'return', v, st
    res = [r for r in cx.explore(run)]
    ok_paths = [r for r in res if r.outcome == 'return']
    # the model grid equals the field grid on the paths of interest (grid comparison is opaque -> both branches explored)
    same = [r for r in ok_paths if not any(x[0] == 'adj' for x in r.state['log'])]
    col.lia('same_grid_branch_reached', [], z3.BoolVal(len(same) >= 1))

    def per_pair(r):
        log = r.state['log']
        e2v = [x for x in log if x[0] == 'e2v']
        flds = [x for x in log if x[0] == 'Field']
        if len(e2v) != len(SF) or len(flds) != len(SF):
            return False
        seen_stores = set()
        for (tag, kw, snap), (_, gf, fkw), (s, f) in zip(e2v, flds, SF):
            ef = r.state['sim'].fields['_dict_efield'][s][f]
            bf = r.state['sim'].fields['_dict_bfield'][s][f]
            # gfield: on the efield's grid, data = Re(bfield * smu0 * efield) of THIS pair
            if fkw.get('grid') is not ef.fields['grid']:
                return False
            if cx.deps_of(fkw.get('data')) != cx.deps_of(ef) | cx.deps_of(bf):
                return False
            if not (kw['ex'] is gf.fields['fx'] and kw['ey'] is gf.fields['fy'] and kw['ez'] is gf.fields['fz']):
                return False
            # the three output views are rows 0,1,2 of ONE buffer that is fresh (all zero, never written) for this pair
            stores = {snap[k][1] for k in ('ox', 'oy', 'oz')}
            if len(stores) != 1 or stores & seen_stores:
                return False
            seen_stores |= stores
            for k, row in (('ox', 0), ('oy', 1), ('oz', 2)):
                arr, uid, ver, val = snap[k]
                if ver != 0 or val is None or not (z3.is_rational_value(z3.simplify(val)) and z3.simplify(val).as_fraction() == 0):
                    return False
                key = arr.view[1] if isinstance(arr.view, tuple) and arr.view[0] == 'index' else None
                if not (isinstance(key, tuple) and key[0] == row):
                    return False
        return True
    clause(col, 'G3_each_pair_uses_its_own_fields_and_a_fresh_zero_buffer_rows_0_1_2', same, per_pair, sample=True)

    def total_store(r):
        g = r.state['sim'].fields.get('_gradient')
        return g.store if isinstance(g, cx.NDArr) else None

    def row_of(a):
        """first index of a view `total[k, ...]` (possibly taken once and bound to a local), None otherwise"""
        key = a.view[1] if isinstance(a, cx.NDArr) and isinstance(a.view, tuple) and a.view[0] == 'index' else None
        return key[0] if isinstance(key, tuple) and key else None

    def accumulated(r):
        # every per-pair buffer is added to the total gradient exactly once
        log = r.state['log']
        bufs = [x[2]['ox'][1] for x in log if x[0] == 'e2v']
        gs = total_store(r)
        if gs is None:
            from .cxutil import UNRECOGNISED
            return UNRECOGNISED('the cached gradient is not an array the executor can follow')
        # additions of a whole per-pair buffer into the storage of the total gradient (identified by storage, not by the name of a local)
        adds = [e for e in r.mutations() if e['how'] == 'Add=' and e['store'] is gs and isinstance(e.get('value'), cx.NDArr) and e['value'].store.uid in bufs]
        return sorted(a['value'].store.uid for a in adds) == sorted(bufs)
    clause(col, 'G3_every_pair_is_accumulated_once_into_the_total_gradient', same, accumulated)

    def collection(r):
        """G2: rows without an own parameter are added to row 0; derivative_chain is applied per parametrised row with its own property, after the sums"""
        ev = r.events
        log = r.state['log']
        model = r.state['sim'].fields['model']
        want_chain = [(1, 'property_y')] if case in ('HTI', 'triaxial') else []
        want_chain += [(2, 'property_z')] if case in ('VTI', 'triaxial') else []
        want_chain += [(0, 'property_x')]
        chains = [x for x in log if x[0] == 'chain']
        got_chain = []
        for _, g, p in chains:
            key = g.view[1] if isinstance(g, cx.NDArr) and isinstance(g.view, tuple) and g.view[0] == 'index' else None
            nm = [k for k in ('property_x', 'property_y', 'property_z') if model.fields.get(k) is p]
            got_chain.append((key[0] if isinstance(key, tuple) else None, nm[0] if nm else None))
        if got_chain != want_chain:
            return False
        want_add = ([] if case in ('HTI', 'triaxial') else [1]) + ([] if case in ('VTI', 'triaxial') else [2])
        gs = total_store(r)
        if gs is None:
            from .cxutil import UNRECOGNISED
            return UNRECOGNISED('the cached gradient is not an array the executor can follow')
        # in-place additions into row 0 of the total gradient (the row view may be taken once and bound to a local)
        is_row0_add = lambda e: e['kind'] == 'mutate' and e['how'] == 'Add=' and e['store'] is gs and row_of(e.get('arr')) == 0
        adds = [e for e in r.mutations() if is_row0_add(e)]
        got_add = [row_of(e.get('value')) if isinstance(e.get('value'), cx.NDArr) and e['value'].store is gs else None for e in adds]
        if got_add != want_add:
            return False
        # the x-chain factor comes after the row sums
        k_chain = max(k for k, e in enumerate(ev) if e['kind'] == 'call' and e['name'].endswith('derivative_chain'))
        k_adds = [k for k, e in enumerate(ev) if is_row0_add(e)]
        return all(k < k_chain for k in k_adds)
    clause(col, 'G2_rows_without_own_parameter_are_summed_into_x__chain_factor_per_parameter_after_the_sums', same, collection, sample=True)

    def shape_rule(r):
        g = r.state['sim'].fields['_gradient']
        want = [0] + ([1] if case in ('HTI', 'triaxial') else []) + ([2] if case in ('VTI', 'triaxial') else [])
        key = None
        v = g
        # gradient[indices, ..., :sc2].squeeze(): find the index view
        while isinstance(v, cx.NDArr) and isinstance(v.view, tuple) and v.view[0] != 'index':
            break
        muts = None
        return isinstance(g, cx.NDArr) and r.value is g
    clause(col, 'returned_gradient_is_the_cached_one', same, shape_rule)
    return col.pack()


def task_rfield():
    """Simulation._get_rfield: the adjoint source of a source-frequency pair is built from the CURRENT weighted residual --
    one adjoint source per receiver whose current residual is not NaN, with strength conj(residual * weight / -s mu0) of that
    receiver, discretised on the pair's grid at the pair's frequency and ADDED to a fresh field (generic receiver)."""
    from . import c12
    from .cxutil import generic_for_loops
    col = ob.Collector(PROP, 'simulations.Simulation._get_rfield')
    col.default_replay = replay
    col.function('simulations.Simulation._get_rfield')

    def run(ctx):
        ctx.opts['getattr_hook'] = ds_hook
        log = []

        def field(it, args, kw, node):
            st = cx.Store('rfield.field', z3.RealVal(0))
            f = cx.Obj('Field', dict(grid=args[0] if args else kw.get('grid'), frequency=kw.get('frequency'), field=cx.NDArr(st), smu0=z3.Real('smu0'),
                                     __strict__=True), mod=None)
            log.append(('Field', f, list(args), dict(kw)))
            return f

        def isnan(it, f, args, kw, node):
            b = it.ctx.fresh_bool('isnan')
            log.append(('isnan', args[0], b))
            return b

        def get_grid(it, args, kw, node):
            g = cx.Obj('TensorMesh', dict(__pair__=tuple(args[1:3])))
            log.append(('get_grid', list(args[1:]), g))
            return g
        ctx.summaries.update({'fields.Field': field, 'simulations.Simulation.get_grid': get_grid})
        ctx.opts.setdefault('prelude', {})['np.isnan'] = isnan

        def on_elem(it, s, seq):
            i = it.ctx.fresh_int('i_rec')
            rec = cx.Obj('Rx', {})
            log.append(('elem', i, rec, seq))
            return (i, rec)
        ctx.opts['loop_hook'] = generic_for_loops({}, on_elem=on_elem)
        sim, ds = c12.mk_sim('misfit')
        tx = cx.Obj('Tx', {})
        sim.fields['survey'].fields['sources'] = {'TxED-1': tx}
        sim.fields['survey'].fields['frequencies'] = {'f-1': z3.Real('freq_value')}
        it_ = cx.Interp(ctx, 'simulations')
        st = dict(sim=sim, log=log, ds=ds, tx=tx)
        try:
            v = it_.call(it_.getattr(sim, '_get_rfield'), ['TxED-1', 'f-1'], {})
        except cx._Raise as e:
            return 'raise', e.exc, st
        except cx._Stop as e:
            return 'stop', e.value, st
        return 'return', v, st
    res = cx.explore(run)
    its = [r for r in res if r.outcome == 'stop']
    clause(col, 'generic_receiver_explored_skipped_and_added', res, lambda r: len(its) >= 2 and not any(x.outcome == 'raise' for x in res))

    def items(r):
        return r.state['sim'].fields['survey'].fields['_data'].fields['__items__']

    def skip_rule(r):
        lg = r.state['log']
        nan = [x for x in lg if x[0] == 'isnan']
        el = [x for x in lg if x[0] == 'elem']
        if len(nan) != 1 or len(el) != 1:
            return False
        arg = nan[0][1]
        eo = getattr(arg, 'elem_of', None)
        # the tested value is element i of the residual of this pair, as stored in the survey data now
        if not (isinstance(eo, tuple) and eo[0] is items(r)['residual'].store and cx.is_sym(eo[1]) and eo[1].eq(el[0][1])):
            return False
        added = [e for e in r.events if e['kind'] == 'call' and str(e['name']).endswith('_adjoint_source')]
        took_nan = any(p.eq(nan[0][2]) for p in r.pc)
        took_not = any(p.eq(z3.Not(nan[0][2])) for p in r.pc)
        return (took_nan and not added and not r.mutations()) or (took_not and len(added) == 1)
    if any(len([x for x in r.state['log'] if x[0] == 'isnan']) != 1 for r in its):
        # the skip decision is not taken by np.isnan(<element>) inside the loop: this contract cannot tell what it depends on
        col.undecided('a_receiver_is_skipped_exactly_when_its_current_residual_is_nan',
                      'the decision to skip a receiver is not a NaN test of an array element inside the loop; the bounded concrete check decides')
    else:
        clause(col, 'a_receiver_is_skipped_exactly_when_its_current_residual_is_nan', its, skip_rule)

    def source_rule(r):
        lg = r.state['log']
        added = [e for e in r.events if e['kind'] == 'call' and str(e['name']).endswith('_adjoint_source')]
        if not added:
            return None
        el = [x for x in lg if x[0] == 'elem'][0]
        fld = [x for x in lg if x[0] == 'Field'][0][1]
        grid = [x for x in lg if x[0] == 'get_grid'][0]
        e = added[0]
        st = e['kwargs'].get('strength')
        eo = getattr(st, 'elem_of', None)
        if not (isinstance(eo, tuple) and cx.is_sym(eo[1]) and eo[1].eq(el[1])):
            return False
        tags = set(eo[0].deps)
        need = set(items(r)['residual'].store.deps) | set(items(r)['weights'].store.deps)
        if not need <= tags:
            return False
        # absolute coordinates relative to THIS source; discretised on the pair's grid at the pair's frequency
        ca = [c for c in r.events if c['kind'] == 'call' and str(c['name']).endswith('coordinates_abs')]
        gf = [c for c in r.events if c['kind'] == 'call' and str(c['name']).endswith('get_field')]
        if len(ca) != 1 or ca[0]['args'] != [r.state['tx']] or len(gf) != 1:
            return False
        ok = gf[0]['kwargs'].get('grid') is grid[2] and gf[0]['kwargs'].get('frequency') is fld.fields['frequency'] and fld.fields['grid'] is grid[2]
        ok = ok and grid[1] == ['TxED-1', 'f-1'] and cx.is_sym(fld.fields['frequency']) and fld.fields['frequency'].eq(z3.Real('freq_value'))
        ms = r.mutations()
        return ok and len(ms) == 1 and ms[0]['store'] is fld.fields['field'].store and ms[0].get('how') == 'Add='
    clause(col, 'adjoint_source_has_the_receivers_own_weighted_residual_and_is_added_on_the_pairs_grid_and_frequency', its, source_rule)
    clause(col, 'returns_the_fresh_field', res,
           lambda r: (r.value is [x for x in r.state['log'] if x[0] == 'Field'][0][1]) if r.outcome == 'return' else None)

    return col.pack()


def task_concrete():
    from . import c07_concrete
    col = ob.Collector(PROP, 'concrete')
    seed = int(os.environ.get('VERIF_SEED', '0'))
    tier = os.environ.get('VERIF_TIER', 'quick')
    r = ob.guarded(c07_concrete.check, tier, seed)
    col.concrete('gradient_vs_finite_differences_of_the_misfit', r['reproduced'] is False, r,
                 bounded='8x8x8 stretched grid; 2 electric dipoles with absolute receivers and closed wire loop + magnetic dipole + electric dipole with absolute and source-relative receivers; 1..2 frequencies, isotropic / VTI (thorough: all four cases), three (thorough: five) mappings, electric + magnetic receivers, NaN datum; 2 (quick) / 6 (thorough) random directions, central differences at two step sizes; synthetic data sampled at the absolute receiver positions (12 source-receiver pairs); slot correspondence of the data with receivers listed magnetic, electric, electric, magnetic, electric (2 sources x 2 frequencies, stored and given field: 40 data)',
                 cases=r.get('cases', 0))
    return col.pack()


def tasks(tier):
    t = [('contracts.c07', 'task_rfield', {}), ('contracts.c07', 'task_edges_to_vol', {}), ('contracts.c07', 'task_spec_derivative', {}), ('contracts.c07', 'task_concrete', {})]
    t += [('contracts.c07', 'task_gradient_assembly', dict(case=c)) for c in ('isotropic', 'HTI', 'VTI', 'triaxial')]
    t += [('contracts.c07_pos', 'task_receiver_positions', {}), ('contracts.c07_pos', 'task_coordinates_abs', {})]
    t += [('contracts.c07_resp', 'task_get_responses', {})]
    from . import c14
    t += [('contracts.c14', 'task_map', dict(cls=c)) for c in c14.MAPS]        # chain factor (dependency closure)
    # dependency closure: the reported misfit and the adjoint sources use the same data weights (Simulation contracts of C12, re-run here)
    # dependency closure: the gradient belongs to the reported misfit only as long as every public operation keeps residual, weights, fields and
    # caches coherent (C12) -- all operations, and the bounded operation sequences, are re-run here
    from . import c12
    t += c12.tasks(tier)
    return t


LEVEL = ('Proof of the building blocks: interp_edges_to_vol_averages is the exact transpose of the eta-derivative of the C02 operator (accumulation rule, symbolic grid and cell); '
         'the gradient assembly uses per pair its own forward/back-propagated fields and a fresh buffer, accumulates every pair once, collects anisotropy rows according to the model aliasing and applies '
         'the chain factor (C14) afterwards; the forward datum of slot i is the response of receiver i itself (type, absolute position, interpolation) for any order of electric and magnetic receivers.  The adjoint-state formula itself follows with exact solves, symmetry (C02) and transposed sampling (C09) as a paper lemma.')
ASSUMPTIONS = ['edge fields handed to interp_edges_to_vol_averages have zero tangential boundary values (they are products with a PEC field)',
               'the two linear solves are exact (not covered); finite-difference agreement is checked only in the bounded concrete run',
               'summaries of _bcompute / Field / derivative_chain as in C12',
               '_get_responses: same-grid simulation (gridding="same", the property\'s configuration), fields in memory (file_dir None), the field of the pair has been computed; '
               'fields.get_receiver / get_magnetic_field by their contracts (C09)']
