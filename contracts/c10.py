"""C10 -- sources inject exactly their nominal moment in their nominal direction.

  point source: the eight hat weights of a component sum to one (all branches), non-negative          (c0910)
  rotation == (cos az cos el, sin az cos el, sin el), unit norm                                        (c0910, sympy)
  _dipole_vector cell body: four weights per component sum to the clipped length fraction, >= 0,
        only the 12 edges of that cell, nothing if the guard fails                                     (c0910)
  _dipole_vector wire branch: every consecutive electrode pair contributes                              (cx)
  get_source_field: vector * strength * (-s mu0) (no factor when frequency is None); dispatch on type  (cx)
  conversions dipole <-> point, square loop: bounded concrete only
"""
import os

import z3

from pyvc import cx, ob
from .cxutil import clause, canary
from . import c0910

PROP = 'C10'
VEC = z3.Real('vector_element')


def replay(d):
    from . import c0910_concrete
    return ob.guarded(c0910_concrete.check_sources, 'quick', 0)


def vec_field(tag):
    st = cx.Store(tag, VEC)
    return cx.Obj('Field', dict(_field=cx.NDArr(st), field=cx.NDArr(st)), mod='fields')


def task_get_source_field():
    col = ob.Collector(PROP, 'fields.get_source_field')
    col.default_replay = replay
    col.function('fields.get_source_field')
    kinds = {'TxElectricPoint': ('TxElectricPoint', 'Point', 'Source'), 'TxMagneticPoint': ('TxMagneticPoint', 'Point', 'Source'),
             'TxElectricDipole': ('TxElectricDipole', 'Dipole', 'Source'), 'TxElectricWire': ('TxElectricWire', 'Wire', 'Source'),
             'TxMagneticDipole': ('TxMagneticDipole', 'Dipole', 'Source')}
    res = []
    for kind, bases in kinds.items():
        for has_freq in (True, False):
            def mk(ctx, kind=kind, bases=bases, has_freq=has_freq):
                log = []

                def vecfn(name):
                    def f(it, args, kw, node):
                        log.append((name, list(args), dict(kw)))
                        return vec_field('vfield')
                    return f

                def field(it, args, kw, node):
                    data = kw.get('data')
                    f = cx.Obj('Field', dict(smu0=z3.Real('smu0')), mod='fields')
                    # np.asarray(data, dtype): same storage if the dtype already matches, else a converted copy with equal values
                    st = cx.Store('sfield', data.store.val) if kw.get('frequency') is not None else data.store
                    f.fields['_field'] = cx.NDArr(st)
                    f.fields['field'] = cx.NDArr(st)
                    f.fields['__kw__'] = dict(kw)
                    log.append(('Field', f))
                    return f
                ctx.summaries.update({'fields._point_vector': vecfn('point'), 'fields._point_vector_magnetic': vecfn('point_magnetic'),
                                      'fields._dipole_vector': vecfn('dipole'), 'fields.Field': field})
                src = cx.Obj(kind, dict(coordinates=cx.Opaque('coordinates'), points=cx.Opaque('points'), strength=z3.Real('strength'),
                                        __bases__=bases), mod='electrodes')
                grid = cx.Obj('TensorMesh', {})
                fr = z3.Real('frequency') if has_freq else None
                return [grid, src, fr], {}, dict(src=src, grid=grid, log=log, kind=kind, freq=fr)
            res += cx.run_function('fields.get_source_field', mk, summaries={}, opts={})
    clause(col, 'returns_normally', res, lambda r: r.outcome == 'return')

    def dispatch(r):
        calls = [x for x in r.state['log'] if x[0] != 'Field']
        if len(calls) != 1:
            return False
        name, a, kw = calls[0]
        want = {'TxElectricPoint': 'point', 'TxMagneticPoint': 'point_magnetic'}.get(r.state['kind'], 'dipole')
        arg = r.state['src'].fields['coordinates'] if want != 'dipole' else r.state['src'].fields['points']
        ok = name == want and a[0] is r.state['grid'] and a[1] is arg
        if want == 'point_magnetic':
            ok = ok and (a[2] is r.state['freq'] or (cx.is_sym(a[2]) and a[2].eq(r.state['freq'])))
        return ok
    clause(col, 'vector_function_chosen_by_source_type_with_its_coordinates_or_points', res, dispatch)

    def scaling(r):
        if r.outcome != 'return' or not isinstance(r.value, cx.Obj):
            return False
        v = r.value.fields['_field'].store.val
        if v is None:
            return False
        want = VEC * z3.Real('strength') * (-z3.Real('smu0')) if r.state['freq'] is not None else VEC * z3.Real('strength')
        return v == want
    clause(col, 'source_field_is_vector_times_strength_times_minus_s_mu0__no_factor_without_frequency', res, scaling, sample=True)
    return col.pack()


def task_wire_branch():
    col = ob.Collector(PROP, 'fields._dipole_vector/wire')
    col.default_replay = replay
    col.function('fields._dipole_vector')

    def mk(ctx):
        log = []

        def rec(it, args, kw, node):
            log.append(('segment', kw.get('points'), kw.get('nodes')))
            return vec_field('segment-field')

        def field(it, args, kw, node):
            f = vec_field('vfield')
            f.fields['_field'].store.val = z3.RealVal(0)
            log.append(('Field', f))
            return f

        def r_(it, f, args, kw, node):
            return cx.Opaque('stacked')
        ctx.summaries.update({'fields._dipole_vector': rec, 'fields.Field': field})
        grid = cx.Obj('TensorMesh', dict(nodes_x=cx.NDArr(cx.Store('nx')), nodes_y=cx.NDArr(cx.Store('ny')), nodes_z=cx.NDArr(cx.Store('nz'))))
        pts = cx.NDArr(cx.Store('points'))
        return [grid, pts], {}, dict(log=log, pts=pts)
    res = cx.run_function('fields._dipole_vector', mk, summaries={}, opts={})
    wire = [r for r in res if any(x[0] == 'segment' for x in r.state['log']) or r.outcome == 'return' and any(x[0] == 'Field' for x in r.state['log'])]
    multi = [r for r in res if r.outcome == 'return' and isinstance(r.value, cx.Obj) and r.value.cls == 'Field' and
             not any(e['kind'] == 'libcall' and 'norm' in e['name'] for e in r.events)]
    col.lia('wire_branch_reached', [], z3.BoolVal(len(multi) >= 1))

    def every_pair(r):
        segs = [x for x in r.state['log'] if x[0] == 'segment']
        fl = [x for x in r.state['log'] if x[0] == 'Field']
        if len(fl) != 1 or r.value is not fl[0][1]:
            return False
        # one representative consecutive pair (the loop runs over all pairs of rows): it must reach a recursive call
        acc = [e for e in r.mutations() if e['store'] is fl[0][1].fields['_field'].store and e['how'] == 'Add=']
        return len(segs) == 1 and len(acc) == 1 and segs[0][2] is not None
    clause(col, 'every_consecutive_electrode_pair_is_discretised_and_accumulated_into_the_returned_field', multi, every_pair, sample=True)
    return col.pack()


def task_concrete():
    from . import c0910_concrete
    col = ob.Collector(PROP, 'concrete')
    seed = int(os.environ.get('VERIF_SEED', '0'))
    tier = os.environ.get('VERIF_TIER', 'quick')
    r = ob.guarded(c0910_concrete.check_sources, tier, seed)
    col.concrete('source_sums_scaling_touched_cells_conversions_square_loop', r['reproduced'] is False, r,
                 bounded='two stretched grids (local and UTM-like coordinates), random wires with 2..8 electrodes + axis-aligned / on-node cases, 4 strength/frequency modes; 40 conversion / loop cases',
                 cases=r.get('cases', 0))
    return col.pack()


# ------------------------------------------------------------------ magnetic dipole as a square loop
class Mat(cx.Ext):
    """(n, 3) array as a list of rows (np.stack of 3-vectors); only what point_to_square_loop needs"""

    def __init__(self, rows):
        self.rows = [list(r) for r in rows]

    def cx_binop(self, it, op, other, reflected):
        import ast as _ast
        if isinstance(other, (cx.Vec, list)) and len(other) == 3 and isinstance(op, (_ast.Add, _ast.Sub)):
            f = (lambda a, b: a + b) if isinstance(op, _ast.Add) else ((lambda a, b: b - a) if reflected else (lambda a, b: a - b))
            return Mat([[f(cx.R(x), cx.R(o)) for x, o in zip(r, other)] for r in self.rows])
        return NotImplemented


def task_square_loop():
    """electrodes.point_to_square_loop(source, area): five points, closed, a planar square of the given area centred on the dipole whose
    right-handed normal (p1-p0) x (p2-p1) is area times the dipole direction rotation(azimuth, elevation) -- for every azimuth and elevation
    (trigonometric functions as symbols with cos^2 + sin^2 = 1; quarter-turn shifts reduced exactly)."""
    col = ob.Collector(PROP, 'electrodes.point_to_square_loop')
    col.default_replay = replay
    col.function('electrodes.point_to_square_loop')
    AZ, EL, AREA, H = z3.Reals('azimuth elevation area half_diag')
    CA, SA, CE, SE = z3.Reals('cos_az sin_az cos_el sin_el')
    X0 = z3.Reals('x0 y0 z0')
    trig = {'azimuth': (CA, SA), 'elevation': (CE, SE)}

    def cs(expr):
        """(cos, sin) of base + k*90 degrees"""
        expr = cx.R(expr)
        for base, (c, s_) in ((AZ, trig['azimuth']), (EL, trig['elevation']), (z3.RealVal(0), (z3.RealVal(1), z3.RealVal(0)))):
            d = z3.simplify(expr - base)
            if z3.is_rational_value(d):
                q = d.as_fraction() / 90
                if q.denominator == 1:
                    k = int(q) % 4
                    return [(c, s_), (-s_, c), (-c, -s_), (s_, -c)][k]
        raise cx.Unsupported('rotation() called with an angle that is not azimuth/elevation plus a multiple of 90 degrees')

    def rotation(it, args, kw, node):
        (ca, sa), (ce, se) = cs(args[0]), cs(args[1])
        return cx.Vec([ca * ce, sa * ce, se])

    def sqrt(it, f, args, kw, node):
        it.ctx.event('sqrt', arg=args[0])
        return H

    def stack(it, f, args, kw, node):
        return Mat(args[0])

    def mk(ctx):
        ctx.opts.setdefault('prelude', {}).update({'np.sqrt': sqrt, 'np.stack': stack})
        return [cx.Vec(list(X0) + [AZ, EL]), AREA], {}, {}
    res = cx.run_function('electrodes.point_to_square_loop', mk, pc0=[AREA > 0], summaries={'electrodes.rotation': rotation}, opts={})
    ax = [CA * CA + SA * SA == 1, CE * CE + SE * SE == 1, H * H == AREA / 2, H >= 0, AREA > 0]
    clause(col, 'returns_five_points', res, lambda r: r.outcome == 'return' and isinstance(r.value, Mat) and len(r.value.rows) == 5 and
           [str(z3.simplify(cx.R(e['arg']) - AREA / 2)) for e in r.events if e['kind'] == 'sqrt'] == ['0'])

    def rel(r):
        return [[cx.R(p[k]) - X0[k] for k in range(3)] for p in r.value.rows]

    def cross(a, b):
        return [a[1] * b[2] - a[2] * b[1], a[2] * b[0] - a[0] * b[2], a[0] * b[1] - a[1] * b[0]]

    def closed(r):
        P = rel(r)
        return z3.And(*[P[4][k] == P[0][k] for k in range(3)] + [P[2][k] == -P[0][k] for k in range(3)] + [P[3][k] == -P[1][k] for k in range(3)])
    clause(col, 'loop_is_closed_and_centred_on_the_dipole', res, closed, ax)

    def square(r):
        P = rel(r)
        a = [P[1][k] - P[0][k] for k in range(3)]
        b = [P[2][k] - P[1][k] for k in range(3)]
        return z3.And(sum(x * x for x in a) == AREA, sum(x * x for x in b) == AREA, sum(x * y for x, y in zip(a, b)) == 0)
    clause(col, 'sides_have_length_sqrt_area_and_are_perpendicular', res, square, ax)

    def normal(r):
        P = rel(r)
        a = [P[1][k] - P[0][k] for k in range(3)]
        b = [P[2][k] - P[1][k] for k in range(3)]
        n = cross(a, b)
        d = [CA * CE, SA * CE, SE]
        return z3.And(*[n[k] == AREA * d[k] for k in range(3)])
    clause(col, 'right_handed_normal_is_area_times_the_dipole_direction', res, normal, ax, sample=True)
    canary(col, 'canary/normal_opposite_to_the_dipole', res,
           lambda r: z3.And(*[x == -AREA * y for x, y in zip(cross([rel(r)[1][k] - rel(r)[0][k] for k in range(3)], [rel(r)[2][k] - rel(r)[1][k] for k in range(3)]),
                                                            [CA * CE, SA * CE, SE])]), ax)
    return col.pack()


def tasks(tier):
    return [('contracts.c0910', 'task_point_source', dict(prop='C10')), ('contracts.c0910', 'task_rotation', dict(prop='C10')),
            ('contracts.c0910', 'task_dipole_cell', {}), ('contracts.c10', 'task_get_source_field', {}), ('contracts.c10', 'task_wire_branch', {}),
            ('contracts.c10', 'task_square_loop', {}), ('contracts.c10', 'task_concrete', {})]


LEVEL = ('Proof over the real source: point-source weights sum to one in every branch; the per-cell contribution of a dipole segment distributes exactly the '
         'clipped length fraction over the edges of that cell with non-negative weights; every segment of a wire is discretised; the source field is the vector '
         'times strength times -s mu0; rotation is the documented unit direction.')
ASSUMPTIONS = ['the sum over cells of the clipped length fractions of a segment equals one (geometric partition; the code enforces it only by renormalisation) -- not proved',
               'dipole <-> point conversions and the square loop are covered by the bounded concrete check only (trigonometric round trip)',
               'np.asarray(data, dtype) keeps the storage when the dtype matches and converts to a copy with equal values otherwise']
