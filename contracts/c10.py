"""C10 -- sources inject exactly their nominal moment in their nominal direction.

  point source: the eight hat weights of a component sum to one (all branches), non-negative          (c0910)
  rotation == (cos az cos el, sin az cos el, sin el), unit norm                                        (c0910, sympy)
  _dipole_vector cell body: four weights per component sum to the clipped length fraction, >= 0,
        only the 12 edges of that cell, nothing if the guard fails                                     (c0910)
  _dipole_vector wire branch: every consecutive electrode pair contributes                              (cx)
  get_source_field: vector * strength * (-s mu0) (no factor when frequency is None); dispatch on type  (cx)
  get_source_field from coordinates (tuple / list / ndarray + strength, length, electric): one instance of the documented class with
        the given coordinates, strength and -- five-element format -- length, by the class's current signature  (cx)
  conversions dipole <-> point, square loop: bounded concrete only
"""
import os

import z3

from pyvc import cx, ob
from .cxutil import clause, canary
from . import c0910

PROP = 'C10'
VEC = z3.Real('vector_element')


def replay(d):
    from . import c0910_concrete
    r = ob.guarded(c0910_concrete.check_sources, 'quick', 0)
    if not r['reproduced']:
        r = ob.guarded(c0910_concrete.check_sources_from_coordinates, 0)
    return r


def vec_field(tag):
    st = cx.Store(tag, VEC)
    return cx.Obj('Field', dict(_field=cx.NDArr(st), field=cx.NDArr(st)), mod='fields')


def task_get_source_field():
    col = ob.Collector(PROP, 'fields.get_source_field')
    col.default_replay = replay
    col.function('fields.get_source_field')
    kinds = {'TxElectricPoint': ('TxElectricPoint', 'Point', 'Source'), 'TxMagneticPoint': ('TxMagneticPoint', 'Point', 'Source'),
             'TxElectricDipole': ('TxElectricDipole', 'Dipole', 'Source'), 'TxElectricWire': ('TxElectricWire', 'Wire', 'Source'),
             'TxMagneticDipole': ('TxMagneticDipole', 'Dipole', 'Source')}
    res = []
    for kind, bases in kinds.items():
        for has_freq in (True, False):
            def mk(ctx, kind=kind, bases=bases, has_freq=has_freq):
                log = []

                def vecfn(name):
                    def f(it, args, kw, node):
                        log.append((name, list(args), dict(kw)))
                        return vec_field('vfield')
                    return f

                def field(it, args, kw, node):
                    data = kw.get('data')
                    f = cx.Obj('Field', dict(smu0=z3.Real('smu0')), mod='fields')
                    # np.asarray(data, dtype): same storage if the dtype already matches, else a converted copy with equal values
                    st = cx.Store('sfield', data.store.val) if kw.get('frequency') is not None else data.store
                    f.fields['_field'] = cx.NDArr(st)
                    f.fields['field'] = cx.NDArr(st)
                    f.fields['__kw__'] = dict(kw)
                    log.append(('Field', f))
                    return f
                ctx.summaries.update({'fields._point_vector': vecfn('point'), 'fields._point_vector_magnetic': vecfn('point_magnetic'),
                                      'fields._dipole_vector': vecfn('dipole'), 'fields.Field': field})
                src = cx.Obj(kind, dict(coordinates=cx.Opaque('coordinates'), points=cx.Opaque('points'), strength=z3.Real('strength'),
                                        __bases__=bases), mod='electrodes')
                grid = cx.Obj('TensorMesh', {})
                fr = z3.Real('frequency') if has_freq else None
                return [grid, src, fr], {}, dict(src=src, grid=grid, log=log, kind=kind, freq=fr)
            res += cx.run_function('fields.get_source_field', mk, summaries={}, opts={})
    clause(col, 'returns_normally', res, lambda r: r.outcome == 'return')

    def dispatch(r):
        calls = [x for x in r.state['log'] if x[0] != 'Field']
        if len(calls) != 1:
            return False
        name, a, kw = calls[0]
        want = {'TxElectricPoint': 'point', 'TxMagneticPoint': 'point_magnetic'}.get(r.state['kind'], 'dipole')
        arg = r.state['src'].fields['coordinates'] if want != 'dipole' else r.state['src'].fields['points']
        ok = name == want and a[0] is r.state['grid'] and a[1] is arg
        if want == 'point_magnetic':
            ok = ok and (a[2] is r.state['freq'] or (cx.is_sym(a[2]) and a[2].eq(r.state['freq'])))
        return ok
    clause(col, 'vector_function_chosen_by_source_type_with_its_coordinates_or_points', res, dispatch)

    def scaling(r):
        if r.outcome != 'return' or not isinstance(r.value, cx.Obj):
            return False
        v = r.value.fields['_field'].store.val
        if v is None:
            return False
        want = VEC * z3.Real('strength') * (-z3.Real('smu0')) if r.state['freq'] is not None else VEC * z3.Real('strength')
        return v == want
    clause(col, 'source_field_is_vector_times_strength_times_minus_s_mu0__no_factor_without_frequency', res, scaling, sample=True)
    return col.pack()


# ------------------------------------------------------------------ Tx*.get_field: the method form of get_source_field
def task_source_get_field():
    """electrodes.Source.get_field(grid, frequency) -- the form in which simulations obtain source fields: for every source class, with and without
    frequency, the field handed back is the vector of THIS source on THIS grid times its strength times -s mu0 (no factor without frequency),
    whatever an earlier call on the same source object left behind (see cxutil.explore_with_history)."""
    from .cxutil import explore_with_history, UNRECOGNISED
    from .c0910 import bind_call
    col = ob.Collector(PROP, 'electrodes.Source.get_field')
    col.default_replay = lambda d: ob.guarded(__import__('contracts.c0910_concrete', fromlist=['x']).check_source_get_field, 0)
    col.function('electrodes.Source.get_field')
    S, SMU = z3.Real('strength'), z3.Real('smu0')
    res = []
    for kind, bases in TX_BASES.items():
        for has_freq in (True, False):
            def mk(ctx, left=(), kind=kind, bases=bases, has_freq=has_freq):
                log = []
                src = cx.Obj(kind, dict(coordinates=cx.Opaque('coordinates'), points=cx.Opaque('points'), strength=S, __bases__=bases), mod='electrodes')
                grid = cx.Obj('TensorMesh', {})
                fr = z3.Real('frequency') if has_freq else None
                for who, attr, value in left:
                    dict(src=src, grid=grid)[who].fields[attr] = value

                def gsf(it, args, kw, node):
                    f = cx.Obj('Field', dict(smu0=SMU), mod='fields')
                    b = bind_call('fields.get_source_field', list(args), dict(kw))
                    st = cx.Store('source-field', VEC * S * (-SMU) if b.get('frequency') is not None else VEC * S)
                    f.fields['_field'] = f.fields['field'] = cx.NDArr(st)
                    log.append(('get_source_field', b, f))
                    return f

                def vecfn(name):
                    def f(it, args, kw, node):
                        log.append((name, list(args), dict(kw)))
                        v = vec_field('vfield')
                        v.fields['grid'] = args[0]
                        return v
                    return f

                def field(it, args, kw, node):
                    b = bind_call('fields.Field', list(args), dict(kw))
                    data = b.get('data')
                    f = cx.Obj('Field', dict(smu0=SMU, grid=b.get('grid')), mod='fields')
                    if isinstance(data, cx.NDArr):
                        # np.asarray(data, dtype): the SAME storage if the dtype already matches (real data and no or a Laplace frequency), else a copy
                        if b.get('frequency') is None or it.ctx.branch(it.ctx.fresh_bool('dtype_of_data_matches'), 'asarray'):
                            st = data.store
                        else:
                            st = cx.Store('converted-copy', data.store.val)
                    else:
                        st = cx.Store('fresh-field', z3.RealVal(0))
                    f.fields['_field'] = f.fields['field'] = cx.NDArr(st)
                    return f
                ctx.summaries.update({'fields.get_source_field': gsf, 'fields._point_vector': vecfn('point'), 'fields._point_vector_magnetic': vecfn('point_magnetic'),
                                      'fields._dipole_vector': vecfn('dipole'), 'fields.Field': field})
                return [grid, fr], {}, dict(__self__=src, src=src, grid=grid, log=log, kind=kind, freq=fr)
            a, b = explore_with_history('electrodes.Source.get_field', mk, lambda st: dict(src=st['src'], grid=st['grid']))
            res += a + b
    clause(col, 'returns_normally', res, lambda r: r.outcome == 'return')

    def moment(r):
        if r.outcome != 'return':
            return None
        calls = [x for x in r.state['log'] if x[0] == 'get_source_field']
        for _, b, f in calls:
            if b.get('grid') is not r.state['grid'] or b.get('source') is not r.state['src'] or b.get('frequency') is not r.state['freq'] \
                    or any(v is not None for k, v in b.items() if k not in ('grid', 'source', 'frequency', '**')) or b.get('**'):
                return False
        v = r.value
        if not isinstance(v, cx.Obj) or not isinstance(v.fields.get('_field'), cx.NDArr):
            return UNRECOGNISED('what get_field returns is not a field object')
        val = v.fields['_field'].store.val
        if val is None:
            return False
        return val == (VEC * S * (-SMU) if r.state['freq'] is not None else VEC * S)
    clause(col, 'field_is_the_vector_of_this_source_on_this_grid_times_strength_times_minus_s_mu0__no_factor_without_frequency__whatever_an_earlier_call_left_behind',
           res, moment, sample=True)
    canary(col, 'canary/frequency_free_field_carries_the_factor_s_mu0', [r for r in res if r.state['freq'] is None],
           lambda r: r.value.fields['_field'].store.val == VEC * S * (-SMU))
    return col.pack()


# ------------------------------------------------------------------ TxElectricWire: the electrodes of the source are the electrodes given
def task_wire_constructor():
    """electrodes.TxElectricWire(coordinates, strength) -- executed through the whole cooperative constructor chain (TxElectricWire -> Source -> Wire):
    the source holds the given strength and, as its points, an array with exactly the contents of the given coordinates (nothing removed, merged or
    re-ordered: a wire may pass a place twice, a closed loop ends where it starts)."""
    from .cxutil import UNRECOGNISED
    col = ob.Collector(PROP, 'electrodes.TxElectricWire')
    col.default_replay = replay
    for q in ('electrodes.TxElectricWire', 'electrodes.Source.__init__', 'electrodes.Wire.__init__'):
        col.function(q)
    C, S = z3.Real('coordinate_element'), z3.Real('strength')

    def run(ctx):
        it = cx.Interp(ctx, 'electrodes')
        co = cx.NDArr(cx.Store('coordinates', C))
        st = dict(co=co)
        try:
            o = it.call(cx.ClassRef('electrodes', 'TxElectricWire'), [co], dict(strength=S))
        except cx._Raise as e:
            return 'raise', e.exc, st
        return 'return', o, st
    res = cx.explore(run)
    clause(col, 'some_path_constructs_the_source', res, lambda r: True, select=lambda r: r.outcome == 'return')

    def points(r):
        if r.outcome != 'return':
            return None
        p = r.value.fields.get('_points')
        if not isinstance(p, cx.NDArr):
            return UNRECOGNISED('the source does not hold its points as an array')
        if p.store.val is None:
            return UNRECOGNISED('the contents of the points are not known to the executor (computed by something outside its model)')
        s_ = r.value.fields.get('_strength')
        return z3.And(p.store.val == C, (s_ == S) if cx.is_sym(s_) else z3.BoolVal(s_ is S))
    clause(col, 'points_hold_exactly_the_given_coordinates_and_the_strength_is_the_given_one', res, points, sample=True)
    return col.pack()


# ------------------------------------------------------------------ get_source_field, source given by its coordinates
class Coords(cx.Ext, cx.NDArr):
    """an ndarray of source coordinates of which only the number of elements is known (a symbolic integer)"""

    def __init__(self, size):
        cx.NDArr.__init__(self, cx.Store('source-coordinates'))
        self.nelem = size

    def cx_getattr(self, it, attr):
        if attr == 'size':
            return self.nelem
        if attr in ('shape', 'ndim', 'dtype'):
            return cx.Opaque('coordinates.' + attr)
        return NotImplemented


TX_BASES = {'TxElectricDipole': ('TxElectricDipole', 'Dipole', 'Source'), 'TxElectricWire': ('TxElectricWire', 'Wire', 'Source'),
            'TxMagneticDipole': ('TxMagneticDipole', 'Dipole', 'Source'), 'TxElectricPoint': ('TxElectricPoint', 'Point', 'Source'),
            'TxMagneticPoint': ('TxMagneticPoint', 'Point', 'Source')}


def task_get_source_field_from_coordinates():
    """fields.get_source_field(grid, <tuple | list | ndarray of coordinates>, frequency, strength=, length=, electric=): the nominal moment
    of the injected source is the caller's.  Exactly one source instance is made from the coordinates -- a wire for more than two electrodes,
    else an electric dipole, or (electric=False) a magnetic dipole -- and, by the parameters of that class as its CURRENT signature binds them,
    it gets the given coordinates, the given strength (1 A if none is given) and, in the (x, y, z, azimuth, elevation) format, whose extent
    is not fixed by the coordinates, the given length (1 m if none): dipole length, resp. loop area of the magnetic dipole.  The field
    returned is the vector of that instance's points times its strength times -s mu0."""
    from .cxutil import UNRECOGNISED
    from .c0910 import bind_call, NoBinding
    col = ob.Collector(PROP, 'fields.get_source_field/from_coordinates')
    col.default_replay = lambda d: ob.guarded(__import__('contracts.c0910_concrete', fromlist=['x']).check_sources_from_coordinates, 0)
    col.function('fields.get_source_field')
    for c in ('TxElectricDipole', 'TxMagneticDipole', 'TxElectricWire'):
        col.function('electrodes.' + c)
    S_KW, L_KW, E_KW, N = z3.Real('strength_given'), z3.Real('length_given'), z3.Bool('electric_given'), z3.Int('number_of_coordinates')
    P5 = z3.Reals('x y z azimuth elevation')
    P6 = z3.Reals('x0 x1 y0 y1 z0 z1')
    forms = {'tuple5': lambda: tuple(P5), 'list5': lambda: list(P5), 'tuple6': lambda: tuple(P6), 'ndarray': lambda: Coords(N)}
    res = []
    for form, has_s, has_l, has_e, has_freq in __import__('itertools').product(forms, (False, True), (False, True), (False, True), (True, False)):
        def mk(ctx, form=form, has_s=has_s, has_l=has_l, has_e=has_e, has_freq=has_freq):
            log = []

            def vecfn(name):
                def f(it, args, kw, node):
                    log.append((name, list(args), dict(kw)))
                    return vec_field('vfield')
                return f

            def field(it, args, kw, node):
                data = kw.get('data')
                f = cx.Obj('Field', dict(smu0=z3.Real('smu0')), mod='fields')
                st = cx.Store('sfield', data.store.val) if kw.get('frequency') is not None else data.store
                f.fields['_field'] = cx.NDArr(st)
                f.fields['field'] = cx.NDArr(st)
                f.fields['__kw__'] = dict(kw)
                log.append(('Field', f))
                return f

            def txclass(name):
                def f(it, args, kw, node):
                    try:
                        b = bind_call('electrodes.' + name, args, kw)
                    except NoBinding as e:
                        raise cx._Raise(cx.ExcVal('TypeError', (str(e),)))
                    o = cx.Obj(name, dict(coordinates=cx.Opaque('coordinates'), points=cx.Opaque('points'), strength=b.get('strength'),
                                          __bases__=TX_BASES[name]), mod='electrodes')
                    log.append(('new', name, b, o))
                    return o
                return f
            ctx.summaries.update({'fields._point_vector': vecfn('point'), 'fields._point_vector_magnetic': vecfn('point_magnetic'),
                                  'fields._dipole_vector': vecfn('dipole'), 'fields.Field': field})
            ctx.summaries.update({'electrodes.' + c: txclass(c) for c in TX_BASES})
            src = forms[form]()
            kw = {}
            if has_s:
                kw['strength'] = S_KW
            if has_l:
                kw['length'] = L_KW
            if has_e:
                kw['electric'] = E_KW
            grid = cx.Obj('TensorMesh', {})
            fr = z3.Real('frequency') if has_freq else None
            return [grid, src, fr], kw, dict(src=src, grid=grid, log=log, form=form, freq=fr, given=dict(kw))
        res += cx.run_function('fields.get_source_field', mk, pc0=[N >= 2], summaries={}, opts={})
    clause(col, 'returns_normally', res, lambda r: r.outcome == 'return')

    def size_is(r, pred):
        """pred(number of coordinates) as a z3 formula / bool"""
        n = {'tuple5': 5, 'list5': 5, 'tuple6': 6}.get(r.state['form'], N)
        return pred(n)

    def made(r):
        return [x for x in r.state['log'] if x[0] == 'new']

    def same(v, want):
        if z3.is_expr(want):
            return z3.is_expr(v) and v.eq(want)
        return isinstance(v, (int, float)) and not isinstance(v, bool) and v == want

    def one_instance(r):
        if r.outcome != 'return':
            return None
        m = made(r)
        if not m:
            return UNRECOGNISED('no Tx* instance is made from the coordinates')
        if len(m) != 1:
            return False
        cls = m[0][1]
        elec = r.state['given'].get('electric', z3.BoolVal(True))
        wire = size_is(r, lambda n: z3.BoolVal(n > 6) if isinstance(n, int) else n > 6)
        return z3.And(z3.Implies(wire, z3.BoolVal(cls == 'TxElectricWire')),
                      z3.Implies(z3.And(z3.Not(wire), elec), z3.BoolVal(cls == 'TxElectricDipole')),
                      z3.Implies(z3.And(z3.Not(wire), z3.Not(elec)), z3.BoolVal(cls == 'TxMagneticDipole')))
    clause(col, 'one_source_instance__wire_for_more_than_two_electrodes_else_electric_dipole_or_magnetic_dipole_if_not_electric', res, one_instance, [N >= 2])
    col.lia('all_three_classes_are_reached', [], z3.BoolVal({m[1] for r in res for m in made(r)} >= {'TxElectricWire', 'TxElectricDipole', 'TxMagneticDipole'}))

    def coords_strength(r):
        if r.outcome != 'return':
            return None
        m = made(r)
        if len(m) != 1:
            return UNRECOGNISED('not exactly one Tx* instance')
        b, src = m[0][2], r.state['src']
        c = b.get('coordinates')
        if isinstance(c, cx.Opaque) or (isinstance(c, cx.NDArr) and c is not src):
            return UNRECOGNISED('the coordinates handed to the class are computed from the given ones in a way the executor cannot follow')
        if isinstance(src, Coords):
            okc = c is src
        else:
            okc = isinstance(c, (list, tuple)) and len(c) == len(src) and all(z3.is_expr(p) and p.eq(q) for p, q in zip(c, src))
        return okc and 'strength' in b and same(b['strength'], r.state['given'].get('strength', 1.0))
    clause(col, 'the_instance_gets_the_given_coordinates_and_the_given_strength__one_ampere_if_none', res, coords_strength)

    def length(want_of):
        def post(r):
            if r.outcome != 'return':
                return None
            m = made(r)
            if len(m) != 1:
                return UNRECOGNISED('not exactly one Tx* instance')
            b = m[0][2]
            five = size_is(r, lambda n: z3.BoolVal(n == 5) if isinstance(n, int) else n == 5)
            return z3.Implies(five, z3.BoolVal('length' in b and same(b['length'], want_of(r))))
        return post
    clause(col, 'in_the_five_element_format_the_instance_gets_the_given_length__one_metre_if_none', res, length(lambda r: r.state['given'].get('length', 1.0)),
           [N >= 2], sample=True)
    canary(col, 'canary/the_given_length_is_ignored', res, length(lambda r: 1.0), [N >= 2])

    def field_of_instance(r):
        if r.outcome != 'return' or not isinstance(r.value, cx.Obj):
            return None
        m = made(r)
        if len(m) != 1:
            return UNRECOGNISED('not exactly one Tx* instance')
        calls = [x for x in r.state['log'] if x[0] in ('point', 'point_magnetic', 'dipole')]
        if len(calls) != 1 or calls[0][0] != 'dipole':
            return False
        try:
            b = bind_call('fields._dipole_vector', calls[0][1], calls[0][2])
        except NoBinding:
            return False
        if not (b['grid'] is r.state['grid'] and b['points'] is m[0][3].fields['points']):
            return False
        v = r.value.fields['_field'].store.val
        if v is None:
            return UNRECOGNISED('the returned field is not built by element-wise arithmetic the executor can follow')
        s_ = cx.R(r.state['given'].get('strength', 1.0))
        want = VEC * s_ * (-z3.Real('smu0')) if r.state['freq'] is not None else VEC * s_
        return v == want
    clause(col, 'the_field_is_the_vector_of_that_instances_points_times_the_given_strength_times_minus_s_mu0__no_factor_without_frequency', res, field_of_instance)
    return col.pack()


def task_wire_branch():
    col = ob.Collector(PROP, 'fields._dipole_vector/wire')
    col.default_replay = replay
    col.function('fields._dipole_vector')

    def mk(ctx):
        log = []

        def rec(it, args, kw, node):
            # effective parameters of the recursive call (positional and keyword forms are the same call)
            from .c0910 import bind_call
            try:
                b = bind_call('fields._dipole_vector', args, kw)
            except Exception:
                raise cx.Unsupported('recursive call of _dipole_vector cannot be bound to its signature')
            log.append(('segment', b.get('points'), b.get('nodes')))
            return vec_field('segment-field')

        def field(it, args, kw, node):
            f = vec_field('vfield')
            f.fields['_field'].store.val = z3.RealVal(0)
            log.append(('Field', f))
            return f

        def r_(it, f, args, kw, node):
            return cx.Opaque('stacked')
        ctx.summaries.update({'fields._dipole_vector': rec, 'fields.Field': field})
        grid = cx.Obj('TensorMesh', dict(nodes_x=cx.NDArr(cx.Store('nx')), nodes_y=cx.NDArr(cx.Store('ny')), nodes_z=cx.NDArr(cx.Store('nz'))))
        pts = cx.NDArr(cx.Store('points'))
        return [grid, pts], {}, dict(log=log, pts=pts)
    res = cx.run_function('fields._dipole_vector', mk, summaries={}, opts={})
    wire = [r for r in res if any(x[0] == 'segment' for x in r.state['log']) or r.outcome == 'return' and any(x[0] == 'Field' for x in r.state['log'])]
    multi = [r for r in res if r.outcome == 'return' and isinstance(r.value, cx.Obj) and r.value.cls == 'Field' and
             not any(e['kind'] == 'libcall' and 'norm' in e['name'] for e in r.events)]
    col.lia('wire_branch_reached', [], z3.BoolVal(len(multi) >= 1))

    def every_pair(r):
        segs = [x for x in r.state['log'] if x[0] == 'segment']
        fl = [x for x in r.state['log'] if x[0] == 'Field']
        if len(fl) != 1 or r.value is not fl[0][1]:
            return False
        # one representative consecutive pair (the loop runs over all pairs of rows): it must reach a recursive call
        acc = [e for e in r.mutations() if e['store'] is fl[0][1].fields['_field'].store and e['how'] == 'Add=']
        return len(segs) == 1 and len(acc) == 1 and segs[0][2] is not None
    clause(col, 'every_consecutive_electrode_pair_is_discretised_and_accumulated_into_the_returned_field', multi, every_pair, sample=True)
    return col.pack()


def task_concrete():
    from . import c0910_concrete
    col = ob.Collector(PROP, 'concrete')
    seed = int(os.environ.get('VERIF_SEED', '0'))
    tier = os.environ.get('VERIF_TIER', 'quick')
    r = ob.guarded(c0910_concrete.check_sources, tier, seed)
    col.concrete('source_sums_scaling_touched_cells_conversions_square_loop', r['reproduced'] is False, r,
                 bounded='two stretched grids (local and UTM-like coordinates), random wires with 2..8 electrodes + axis-aligned / on-node cases, 4 strength/frequency modes; 40 conversion / loop cases',
                 cases=r.get('cases', 0))
    r = ob.guarded(c0910_concrete.check_source_get_field, seed)
    col.concrete('Tx_get_field_on_a_source_used_before_equals_get_source_field_of_a_new_equal_source_and_carries_the_nominal_moment', r['reproduced'] is False, r,
                 bounded='stretched 6x5x4 grid; electric dipole, 4-electrode wire, electric point, magnetic dipole, magnetic point; one object each, seven calls '
                         '(Laplace, frequency-free, frequency domain, repeated)', cases=r.get('cases', 0))
    r = ob.guarded(c0910_concrete.check_sources_from_coordinates, seed)
    col.concrete('source_given_by_coordinates_injects_the_given_strength_times_length_along_its_direction__magnetic_loop_area_vector', r['reproduced'] is False, r,
                 bounded='stretched 6x5x4 grid; 8 positions / orientations x 4 strength-frequency modes x length given or not x electric given, True, False or not '
                         'x tuple / list / ndarray; two-electrode and wire coordinates with and without strength', cases=r.get('cases', 0))
    return col.pack()


# ------------------------------------------------------------------ magnetic dipole as a square loop
class Mat(cx.Ext):
    """(n, 3) array as a list of rows (np.stack of 3-vectors); only what point_to_square_loop needs"""

    def __init__(self, rows):
        self.rows = [list(r) for r in rows]

    def cx_binop(self, it, op, other, reflected):
        import ast as _ast
        if isinstance(other, (cx.Vec, list)) and len(other) == 3 and isinstance(op, (_ast.Add, _ast.Sub)):
            f = (lambda a, b: a + b) if isinstance(op, _ast.Add) else ((lambda a, b: b - a) if reflected else (lambda a, b: a - b))
            return Mat([[f(cx.R(x), cx.R(o)) for x, o in zip(r, other)] for r in self.rows])
        return NotImplemented


def task_square_loop():
    """electrodes.point_to_square_loop(source, area): five points, closed, a planar square of the given area centred on the dipole whose
    right-handed normal (p1-p0) x (p2-p1) is area times the dipole direction rotation(azimuth, elevation) -- for every azimuth and elevation
    (trigonometric functions as symbols with cos^2 + sin^2 = 1; quarter-turn shifts reduced exactly)."""
    col = ob.Collector(PROP, 'electrodes.point_to_square_loop')
    col.default_replay = replay
    col.function('electrodes.point_to_square_loop')
    AZ, EL, AREA, H = z3.Reals('azimuth elevation area half_diag')
    CA, SA, CE, SE = z3.Reals('cos_az sin_az cos_el sin_el')
    X0 = z3.Reals('x0 y0 z0')
    trig = {'azimuth': (CA, SA), 'elevation': (CE, SE)}

    def cs(expr):
        """(cos, sin) of base + k*90 degrees"""
        expr = cx.R(expr)
        for base, (c, s_) in ((AZ, trig['azimuth']), (EL, trig['elevation']), (z3.RealVal(0), (z3.RealVal(1), z3.RealVal(0)))):
            d = z3.simplify(expr - base)
            if z3.is_rational_value(d):
                q = d.as_fraction() / 90
                if q.denominator == 1:
                    k = int(q) % 4
                    return [(c, s_), (-s_, c), (-c, -s_), (s_, -c)][k]
        raise cx.Unsupported('rotation() called with an angle that is not azimuth/elevation plus a multiple of 90 degrees')

    def rotation(it, args, kw, node):
        (ca, sa), (ce, se) = cs(args[0]), cs(args[1])
        return cx.Vec([ca * ce, sa * ce, se])

    def sqrt(it, f, args, kw, node):
        it.ctx.event('sqrt', arg=args[0])
        return H

    def stack(it, f, args, kw, node):
        return Mat(args[0])

    def mk(ctx):
        ctx.opts.setdefault('prelude', {}).update({'np.sqrt': sqrt, 'np.stack': stack})
        return [cx.Vec(list(X0) + [AZ, EL]), AREA], {}, {}
    res = cx.run_function('electrodes.point_to_square_loop', mk, pc0=[AREA > 0], summaries={'electrodes.rotation': rotation}, opts={})
    ax = [CA * CA + SA * SA == 1, CE * CE + SE * SE == 1, H * H == AREA / 2, H >= 0, AREA > 0]
    clause(col, 'returns_five_points', res, lambda r: r.outcome == 'return' and isinstance(r.value, Mat) and len(r.value.rows) == 5 and
           [str(z3.simplify(cx.R(e['arg']) - AREA / 2)) for e in r.events if e['kind'] == 'sqrt'] == ['0'])

    def rel(r):
        return [[cx.R(p[k]) - X0[k] for k in range(3)] for p in r.value.rows]

    def cross(a, b):
        return [a[1] * b[2] - a[2] * b[1], a[2] * b[0] - a[0] * b[2], a[0] * b[1] - a[1] * b[0]]

    def closed(r):
        P = rel(r)
        return z3.And(*[P[4][k] == P[0][k] for k in range(3)] + [P[2][k] == -P[0][k] for k in range(3)] + [P[3][k] == -P[1][k] for k in range(3)])
    clause(col, 'loop_is_closed_and_centred_on_the_dipole', res, closed, ax)

    def square(r):
        P = rel(r)
        a = [P[1][k] - P[0][k] for k in range(3)]
        b = [P[2][k] - P[1][k] for k in range(3)]
        return z3.And(sum(x * x for x in a) == AREA, sum(x * x for x in b) == AREA, sum(x * y for x, y in zip(a, b)) == 0)
    clause(col, 'sides_have_length_sqrt_area_and_are_perpendicular', res, square, ax)

    def normal(r):
        P = rel(r)
        a = [P[1][k] - P[0][k] for k in range(3)]
        b = [P[2][k] - P[1][k] for k in range(3)]
        n = cross(a, b)
        d = [CA * CE, SA * CE, SE]
        return z3.And(*[n[k] == AREA * d[k] for k in range(3)])
    clause(col, 'right_handed_normal_is_area_times_the_dipole_direction', res, normal, ax, sample=True)
    canary(col, 'canary/normal_opposite_to_the_dipole', res,
           lambda r: z3.And(*[x == -AREA * y for x, y in zip(cross([rel(r)[1][k] - rel(r)[0][k] for k in range(3)], [rel(r)[2][k] - rel(r)[1][k] for k in range(3)]),
                                                            [CA * CE, SA * CE, SE])]), ax)
    return col.pack()


# ------------------------------------------------------------------ dipole <-> point conversions
class Cplx(cx.Ext):
    """re + i im with real z3 parts (only what dipole_to_point needs)"""

    def __init__(self, re, im):
        self.re, self.im = re, im

    def cx_binop(self, it, op, other, reflected):
        import ast as _ast
        if isinstance(op, _ast.Add) and (cx.is_sym(other) or isinstance(other, (int, float))):
            return Cplx(self.re + cx.R(other), self.im)
        return NotImplemented


class Electrodes(cx.Ext):
    """(2, 3) array of the two electrodes: .T, np.diff(.T).squeeze() == second - first"""

    def __init__(self, e0, e1, transposed=False):
        self.e0, self.e1, self.transposed = e0, e1, transposed

    def cx_getattr(self, it, attr):
        if attr == 'T':
            return Electrodes(self.e0, self.e1, not self.transposed)
        return NotImplemented


def task_conversions():
    """electrodes.point_to_dipole / dipole_to_point and the round trip (lemma over the two contracts and the contract of np.angle / np.linalg.norm):
       point_to_dipole(c, az, el, L)   = c -/+ (L/2) rotation(az, el)
       dipole_to_point(e0, e1)         = (angle(dx + i dy), angle(sqrt(dx^2+dy^2) + i dz), |(dx, dy, dz)|),  (dx, dy, dz) = e1 - e0
       round trip: electrodes -> (centre, az, el, L) -> electrodes gives the same electrodes."""
    from .cxutil import UNRECOGNISED
    col = ob.Collector(PROP, 'electrodes.conversions')
    col.default_replay = replay
    col.function('electrodes.point_to_dipole')
    col.function('electrodes.dipole_to_point')
    AZ, EL, LEN = z3.Reals('azimuth elevation length')
    CA, SA, CE, SE = z3.Reals('cos_az sin_az cos_el sin_el')
    C = z3.Reals('cx cy cz')
    E0, E1 = z3.Reals('e0x e0y e0z'), z3.Reals('e1x e1y e1z')

    def rotation(it, args, kw, node):
        if not (cx.is_sym(args[0]) and args[0].eq(AZ) and cx.is_sym(args[1]) and args[1].eq(EL)):
            raise cx.Unsupported('rotation() not called with the point\'s azimuth and elevation')
        it.ctx.event('rotation', kwargs=dict(kw))
        return cx.Vec([CA * CE, SA * CE, SE])

    def nparray(it, f, args, kw, node):
        v = args[0]
        if isinstance(v, (list, tuple)) and len(v) == 2 and all(isinstance(x, cx.Vec) for x in v):
            from_rows = Mat(v)
            return from_rows
        raise cx.Unsupported('np.array form')

    def mk(ctx):
        ctx.opts.setdefault('prelude', {}).update({'np.array': nparray})
        return [cx.Vec(list(C) + [AZ, EL]), LEN], {}, {}
    res = cx.run_function('electrodes.point_to_dipole', mk, pc0=[], summaries={'electrodes.rotation': rotation}, opts={})

    def p2d(r):
        if r.outcome != 'return' or not isinstance(r.value, Mat) or len(r.value.rows) != 2:
            return UNRECOGNISED('point_to_dipole does not return a (2, 3) array built from two 3-vectors')
        d = [CA * CE, SA * CE, SE]
        return z3.And(*[cx.R(r.value.rows[0][k]) == C[k] - LEN / 2 * d[k] for k in range(3)] + [cx.R(r.value.rows[1][k]) == C[k] + LEN / 2 * d[k] for k in range(3)])
    clause(col, 'point_to_dipole_puts_half_the_length_on_each_side_of_the_centre_along_the_direction', res, p2d, sample=True)

    # dipole_to_point
    log = []

    def diff(it, f, args, kw, node):
        v = args[0]
        if isinstance(v, Electrodes) and v.transposed:
            o = cx.Obj('DiffResult', dict(vec=cx.Vec([v.e1[k] - v.e0[k] for k in range(3)])))
            return o
        raise cx.Unsupported('np.diff form')

    def norm(it, f, args, kw, node):
        log.append(('norm', list(args[0])))
        return z3.Real('NORM')

    def sqrt(it, f, args, kw, node):
        log.append(('sqrt', args[0]))
        return z3.Real('RXY')

    def angle(it, f, args, kw, node):
        z = args[0]
        if not isinstance(z, Cplx):
            raise cx.Unsupported('np.angle of something that is not re + 1j*im')
        k = sum(1 for x in log if x[0] == 'angle')
        log.append(('angle', z.re, z.im, dict(kw)))
        return z3.Real(f'ANGLE{k}')

    def mk2(ctx):
        del log[:]
        ctx.opts.setdefault('prelude', {}).update({'np.diff': diff, 'np.linalg.norm': norm, 'np.sqrt': sqrt, 'np.angle': angle})
        return [Electrodes(list(E0), list(E1))], {}, {}
    orig_binop, orig_call = cx.Interp.binop, cx.Interp.call

    def binop(self, op, a, b, node=None):
        import ast as _ast
        if isinstance(a, complex) and a.real == 0 and cx.is_sym(b) and isinstance(op, _ast.Mult):
            return Cplx(z3.RealVal(0), a.imag * b if a.imag != 1 else b)
        return orig_binop(self, op, a, b, node)

    def call(self, f, args, kwargs, node=None):
        if isinstance(f, cx.Opaque) and f.tag.endswith('.squeeze'):
            pass
        return orig_call(self, f, args, kwargs, node)

    def getattr_hook(it, v, attr):
        if v.cls == 'DiffResult' and attr == 'squeeze':
            return cx.LibFn('diffresult.squeeze', bound=v)
        return NotImplemented
    cx.Interp.binop = binop
    try:
        res2 = cx.run_function('electrodes.dipole_to_point', mk2, pc0=[], summaries={},
                               opts=dict(getattr_hook=getattr_hook, prelude={'diffresult.squeeze': lambda it, f, a, k, n: f.bound.fields['vec']}))
        log2 = list(log)
    finally:
        cx.Interp.binop = orig_binop
    d = [E1[k] - E0[k] for k in range(3)]

    def d2p(r):
        if r.outcome != 'return' or not (isinstance(r.value, tuple) and len(r.value) == 3):
            return UNRECOGNISED('dipole_to_point does not return (azimuth, elevation, length)')
        ang = [x for x in log2 if x[0] == 'angle']
        nrm = [x for x in log2 if x[0] == 'norm']
        sq = [x for x in log2 if x[0] == 'sqrt']
        if len(ang) != 2 or len(nrm) != 1 or len(sq) != 1:
            return UNRECOGNISED('angles are not obtained by two np.angle calls, the length by one np.linalg.norm call')
        az, el, ln = r.value
        ok = cx.is_sym(az) and az.eq(z3.Real('ANGLE0')) and cx.is_sym(el) and el.eq(z3.Real('ANGLE1')) and cx.is_sym(ln) and ln.eq(z3.Real('NORM'))
        if not ok or len(nrm[0][1]) != 3:
            return False
        return z3.And(ang[0][1] == d[0], ang[0][2] == d[1], ang[1][1] == z3.Real('RXY'), ang[1][2] == d[2], cx.R(sq[0][1]) == d[0] * d[0] + d[1] * d[1],
                      *[cx.R(nrm[0][1][k]) == d[k] for k in range(3)])
    clause(col, 'dipole_to_point_is_angle_of_dx_dy__angle_of_rxy_dz__norm_of_the_electrode_difference', res2, d2p, sample=True)
    # round trip: dependency contracts  sqrt: RXY >= 0, RXY^2 = dx^2+dy^2;  norm: L >= 0, L^2 = dx^2+dy^2+dz^2;
    #             angle(re + i im): cos * r = re, sin * r = im with r = |re + i im|  (also for r = 0, where the angle is 0)
    RXY, L = z3.Reals('RXY NORM')
    contracts = [RXY >= 0, RXY * RXY == d[0] * d[0] + d[1] * d[1], L >= 0, L * L == RXY * RXY + d[2] * d[2],
                 CA * RXY == d[0], SA * RXY == d[1], CE * L == RXY, SE * L == d[2]]
    mid = [(E0[k] + E1[k]) / 2 for k in range(3)]
    dirn = [CA * CE, SA * CE, SE]
    col.lia('round_trip_electrodes_to_point_form_and_back_returns_the_same_electrodes', contracts,
            z3.And(*[mid[k] - L / 2 * dirn[k] == E0[k] for k in range(3)] + [mid[k] + L / 2 * dirn[k] == E1[k] for k in range(3)]), sample=True)
    col.canary_lia('canary/round_trip_with_swapped_electrodes', contracts + [d[0] != 0],
                   z3.And(*[mid[k] + L / 2 * dirn[k] == E0[k] for k in range(3)]))
    col.satisfiable('angle_norm_contracts_satisfiable', contracts + [d[0] == 3, d[1] == 4, d[2] == 12])
    return col.pack()


def tasks(tier):
    return [('contracts.c0910', 'task_point_source', dict(prop='C10')), ('contracts.c0910', 'task_rotation', dict(prop='C10')),
            ('contracts.c0910', 'task_dipole_cell', {}), ('contracts.c10', 'task_get_source_field', {}), ('contracts.c10', 'task_source_get_field', {}), ('contracts.c10', 'task_wire_constructor', {}),
            ('contracts.c10', 'task_get_source_field_from_coordinates', {}),
            ('contracts.c10', 'task_wire_branch', {}),
            ('contracts.c10', 'task_square_loop', {}), ('contracts.c10', 'task_conversions', {}), ('contracts.c10', 'task_concrete', {})]


LEVEL = ('Proof over the real source: point-source weights sum to one in every branch; the per-cell contribution of a dipole segment distributes exactly the '
         'clipped length fraction over the edges of that cell with non-negative weights; every segment of a wire is discretised; the source field is the vector '
         'times strength times -s mu0, also when the source is given by its coordinates (one instance of the documented class with the given coordinates, strength and length); '
         'rotation is the documented unit direction.')
ASSUMPTIONS = ['the sum over cells of the clipped length fractions of a segment equals one (geometric partition; the code enforces it only by renormalisation) -- not proved',
               'dipole <-> point conversions and the square loop are covered by the bounded concrete check only (trigonometric round trip)',
               'np.asarray(data, dtype) keeps the storage when the dtype matches and converts to a copy with equal values otherwise']
