"""C10 -- sources inject exactly their nominal moment in their nominal direction.

  point source: the eight hat weights of a component sum to one (all branches), non-negative          (c0910)
  rotation == (cos az cos el, sin az cos el, sin el), unit norm                                        (c0910, sympy)
  _dipole_vector cell body: four weights per component sum to the clipped length fraction, >= 0,
        only the 12 edges of that cell, nothing if the guard fails                                     (c0910)
  _dipole_vector wire branch: every consecutive electrode pair contributes                              (cx)
  get_source_field: vector * strength * (-s mu0) (no factor when frequency is None); dispatch on type  (cx)
  conversions dipole <-> point, square loop: bounded concrete only
"""
import os

import z3

from pyvc import cx, ob
from .cxutil import clause
from . import c0910

PROP = 'C10'
VEC = z3.Real('vector_element')


def replay(d):
    from . import c0910_concrete
    return ob.guarded(c0910_concrete.check_sources, 'quick', 0)


def vec_field(tag):
    st = cx.Store(tag, VEC)
    return cx.Obj('Field', dict(_field=cx.NDArr(st), field=cx.NDArr(st)), mod='fields')


def task_get_source_field():
    col = ob.Collector(PROP, 'fields.get_source_field')
    col.default_replay = replay
    col.function('fields.get_source_field')
    kinds = {'TxElectricPoint': ('TxElectricPoint', 'Point', 'Source'), 'TxMagneticPoint': ('TxMagneticPoint', 'Point', 'Source'),
             'TxElectricDipole': ('TxElectricDipole', 'Dipole', 'Source'), 'TxElectricWire': ('TxElectricWire', 'Wire', 'Source'),
             'TxMagneticDipole': ('TxMagneticDipole', 'Dipole', 'Source')}
    res = []
    for kind, bases in kinds.items():
        for has_freq in (True, False):
            def mk(ctx, kind=kind, bases=bases, has_freq=has_freq):
                log = []

                def vecfn(name):
                    def f(it, args, kw, node):
                        log.append((name, list(args), dict(kw)))
                        return vec_field('vfield')
                    return f

                def field(it, args, kw, node):
                    data = kw.get('data')
                    f = cx.Obj('Field', dict(smu0=z3.Real('smu0')), mod='fields')
                    # np.asarray(data, dtype): same storage if the dtype already matches, else a converted copy with equal values
                    st = cx.Store('sfield', data.store.val) if kw.get('frequency') is not None else data.store
                    f.fields['_field'] = cx.NDArr(st)
                    f.fields['field'] = cx.NDArr(st)
                    f.fields['__kw__'] = dict(kw)
                    log.append(('Field', f))
                    return f
                ctx.summaries.update({'fields._point_vector': vecfn('point'), 'fields._point_vector_magnetic': vecfn('point_magnetic'),
                                      'fields._dipole_vector': vecfn('dipole'), 'fields.Field': field})
                src = cx.Obj(kind, dict(coordinates=cx.Opaque('coordinates'), points=cx.Opaque('points'), strength=z3.Real('strength'),
                                        __bases__=bases), mod='electrodes')
                grid = cx.Obj('TensorMesh', {})
                fr = z3.Real('frequency') if has_freq else None
                return [grid, src, fr], {}, dict(src=src, grid=grid, log=log, kind=kind, freq=fr)
            res += cx.run_function('fields.get_source_field', mk, summaries={}, opts={})
    clause(col, 'returns_normally', res, lambda r: r.outcome == 'return')

    def dispatch(r):
        calls = [x for x in r.state['log'] if x[0] != 'Field']
        if len(calls) != 1:
            return False
        name, a, kw = calls[0]
        want = {'TxElectricPoint': 'point', 'TxMagneticPoint': 'point_magnetic'}.get(r.state['kind'], 'dipole')
        arg = r.state['src'].fields['coordinates'] if want != 'dipole' else r.state['src'].fields['points']
        ok = name == want and a[0] is r.state['grid'] and a[1] is arg
        if want == 'point_magnetic':
            ok = ok and (a[2] is r.state['freq'] or (cx.is_sym(a[2]) and a[2].eq(r.state['freq'])))
        return ok
    clause(col, 'vector_function_chosen_by_source_type_with_its_coordinates_or_points', res, dispatch)

    def scaling(r):
        if r.outcome != 'return' or not isinstance(r.value, cx.Obj):
            return False
        v = r.value.fields['_field'].store.val
        if v is None:
            return False
        want = VEC * z3.Real('strength') * (-z3.Real('smu0')) if r.state['freq'] is not None else VEC * z3.Real('strength')
        return v == want
    clause(col, 'source_field_is_vector_times_strength_times_minus_s_mu0__no_factor_without_frequency', res, scaling, sample=True)
    return col.pack()


def task_wire_branch():
    col = ob.Collector(PROP, 'fields._dipole_vector/wire')
    col.default_replay = replay
    col.function('fields._dipole_vector')

    def mk(ctx):
        log = []

        def rec(it, args, kw, node):
            log.append(('segment', kw.get('points'), kw.get('nodes')))
            return vec_field('segment-field')

        def field(it, args, kw, node):
            f = vec_field('vfield')
            f.fields['_field'].store.val = z3.RealVal(0)
            log.append(('Field', f))
            return f

        def r_(it, f, args, kw, node):
            return cx.Opaque('stacked')
        ctx.summaries.update({'fields._dipole_vector': rec, 'fields.Field': field})
        grid = cx.Obj('TensorMesh', dict(nodes_x=cx.NDArr(cx.Store('nx')), nodes_y=cx.NDArr(cx.Store('ny')), nodes_z=cx.NDArr(cx.Store('nz'))))
        pts = cx.NDArr(cx.Store('points'))
        return [grid, pts], {}, dict(log=log, pts=pts)
    res = cx.run_function('fields._dipole_vector', mk, summaries={}, opts={})
    wire = [r for r in res if any(x[0] == 'segment' for x in r.state['log']) or r.outcome == 'return' and any(x[0] == 'Field' for x in r.state['log'])]
    multi = [r for r in res if r.outcome == 'return' and isinstance(r.value, cx.Obj) and r.value.cls == 'Field' and
             not any(e['kind'] == 'libcall' and 'norm' in e['name'] for e in r.events)]
    col.lia('wire_branch_reached', [], z3.BoolVal(len(multi) >= 1))

    def every_pair(r):
        segs = [x for x in r.state['log'] if x[0] == 'segment']
        fl = [x for x in r.state['log'] if x[0] == 'Field']
        if len(fl) != 1 or r.value is not fl[0][1]:
            return False
        # one representative consecutive pair (the loop runs over all pairs of rows): it must reach a recursive call
        acc = [e for e in r.mutations() if e['store'] is fl[0][1].fields['_field'].store and e['how'] == 'Add=']
        return len(segs) == 1 and len(acc) == 1 and segs[0][2] is not None
    clause(col, 'every_consecutive_electrode_pair_is_discretised_and_accumulated_into_the_returned_field', multi, every_pair, sample=True)
    return col.pack()


def task_concrete():
    from . import c0910_concrete
    col = ob.Collector(PROP, 'concrete')
    seed = int(os.environ.get('VERIF_SEED', '0'))
    tier = os.environ.get('VERIF_TIER', 'quick')
    r = ob.guarded(c0910_concrete.check_sources, tier, seed)
    col.concrete('source_sums_scaling_touched_cells_conversions_square_loop', r['reproduced'] is False, r,
                 bounded='two stretched grids (local and UTM-like coordinates), random wires with 2..8 electrodes + axis-aligned / on-node cases, 4 strength/frequency modes; 40 conversion / loop cases',
                 cases=r.get('cases', 0))
    return col.pack()


def tasks(tier):
    return [('contracts.c0910', 'task_point_source', dict(prop='C10')), ('contracts.c0910', 'task_rotation', dict(prop='C10')),
            ('contracts.c0910', 'task_dipole_cell', {}), ('contracts.c10', 'task_get_source_field', {}), ('contracts.c10', 'task_wire_branch', {}),
            ('contracts.c10', 'task_concrete', {})]


LEVEL = ('Proof over the real source: point-source weights sum to one in every branch; the per-cell contribution of a dipole segment distributes exactly the '
         'clipped length fraction over the edges of that cell with non-negative weights; every segment of a wire is discretised; the source field is the vector '
         'times strength times -s mu0; rotation is the documented unit direction.')
ASSUMPTIONS = ['the sum over cells of the clipped length fractions of a segment equals one (geometric partition; the code enforces it only by renormalisation) -- not proved',
               'dipole <-> point conversions and the square loop are covered by the bounded concrete check only (trigonometric round trip)',
               'np.asarray(data, dtype) keeps the storage when the dtype matches and converts to a copy with equal values otherwise']
