"""Bounded stand-in / replay for C16 on the real emg3d.meshes functions: every postcondition of the statement is evaluated
on a lattice of inputs, with the required buffer computed independently of the code (own skin-depth formula, own mapping)."""
import itertools
import warnings

import numpy as np

MU0 = 4e-7 * np.pi * 1.00000000055      # CODATA 2018 value used by SciPy; only compared with a relative tolerance of 1e-6


def conductivity(mapping, p):
    p = np.asarray(p, dtype=float)
    return {'Resistivity': lambda: 1 / p, 'Conductivity': lambda: p, 'LgResistivity': lambda: 10 ** -p, 'LgConductivity': lambda: 10 ** p,
            'LnResistivity': lambda: np.exp(-p), 'LnConductivity': lambda: np.exp(p)}[mapping]()


def to_property(mapping, cond):
    cond = np.asarray(cond, dtype=float)
    return {'Resistivity': lambda: 1 / cond, 'Conductivity': lambda: cond, 'LgResistivity': lambda: -np.log10(cond), 'LgConductivity': lambda: np.log10(cond),
            'LnResistivity': lambda: -np.log(cond), 'LnConductivity': lambda: np.log(cond)}[mapping]()


def skin(freq, cond):
    d = 1 / np.sqrt(np.pi * abs(freq) * cond * MU0)
    return d / np.sqrt(2 * np.pi) if freq < 0 else d


def required_domain(freq, cond3, center, domain, lambda_factor, max_buffer, lambda_from_center):
    wl = lambda_factor * 2 * np.pi * np.array([skin(freq, cond3[1]), skin(freq, cond3[2])])
    if not lambda_from_center:
        b = np.minimum(wl, max_buffer)
        return np.array([domain[0] - b[0], domain[1] + b[1]])
    ind = np.abs(np.array(domain) - center)
    b = np.maximum(0, (2 * wl - ind) / 2)
    return np.array([max(domain[0] - b[0], center - max_buffer), min(domain[1] + b[1], center + max_buffer)])


def expand(cond):
    cond = list(cond)
    n = len(cond)
    return [cond[0], cond[min(n - 1, 1)], cond[min(n - 1, 2)]]


def postconditions(x0, hx, *, freq, cond3, center, domain, vector, seasurface, stretching, lambda_factor, max_buffer, lambda_from_center,
                   cell_numbers, center_on_edge, warned):
    """returns None or the violated clause"""
    hx = np.asarray(hx, dtype=float)
    nodes = x0 + np.r_[0.0, np.cumsum(hx)]
    scale = max(abs(nodes[0]), abs(nodes[-1]), 1.0)
    tol = 1e-9 * scale
    if hx.size not in set(np.unique(cell_numbers).tolist()):
        return f'cell count {hx.size} is not one of the permitted numbers'
    if not np.all(hx > 0):
        return 'non-positive width'
    dom = np.array(domain, dtype=float)
    if seasurface is not None:
        dom[1] = max(dom[1], seasurface)
    if nodes[0] > dom[0] + tol or nodes[-1] < dom[1] - tol:
        return f'mesh [{nodes[0]}, {nodes[-1]}] does not cover the survey domain {dom.tolist()}'
    req = required_domain(freq, cond3, center, dom, lambda_factor, max_buffer, lambda_from_center)
    rtol = 1e-6 * scale
    if nodes[0] > req[0] + rtol or nodes[-1] < req[1] - rtol:
        return f'mesh [{nodes[0]}, {nodes[-1]}] does not cover domain plus capped wavelength buffer {req.tolist()}'
    # growth away from the centre, outside a user-provided vector
    smax = max(stretching)
    allow = smax * (1.25 if seasurface is not None else 1.0) * (1 + 1e-9)
    mid = 0.5 * (nodes[:-1] + nodes[1:])
    for k in range(hx.size - 1):
        if vector is not None and nodes[k] >= vector.min() - tol and nodes[k + 2] <= vector.max() + tol:
            continue
        if mid[k] >= center:          # both cells right of the centre: growth to the right
            g = hx[k + 1] / hx[k]
        elif mid[k + 1] <= center:    # both left: growth to the left
            g = hx[k] / hx[k + 1]
        else:
            g = max(hx[k + 1] / hx[k], hx[k] / hx[k + 1])
            if seasurface is not None:
                continue
        if g > allow:
            return f'widths grow by {g} > {allow} between cells {k} and {k + 1}'
    if vector is None and seasurface is None:
        if center_on_edge:
            if np.min(np.abs(nodes - center)) > tol:
                return 'centre is not a node although center_on_edge'
        else:
            if np.min(np.abs(mid - center)) > tol:
                return 'centre is not a cell centre although center_on_edge=False'
    if vector is not None:
        inside = vector[(vector >= dom[0]) & (vector <= dom[1])]
        if len(vector[(vector > dom[0]) & (vector < dom[1])]) >= 1 and len(inside) >= 3:
            for v in inside:
                if np.min(np.abs(nodes - v)) > tol:
                    return f'vector node {v} inside the domain is not a node of the mesh'
    if seasurface is not None:
        if not np.isclose(0.0, np.min(np.abs(nodes - seasurface))) and not warned:
            return 'sea surface is not a node and no warning was given'
    return None


def cases(tier, rng):
    freqs = [1.0, 0.1, -3.0] if tier == 'quick' else [1.0, 0.01, 0.3, 7.0, -0.5, -3.0]
    conds = [[1.0], [1.0, 0.1], [3.3, 1e-8, 0.5]] if tier == 'quick' else [[1.0], [0.3, 1.0], [1.0, 0.1], [3.3, 1e-8, 0.5], [1.0, 1e-4, 1e-4], [0.02, 0.02, 5.0]]
    mappings = ['Resistivity', 'Conductivity', 'LgResistivity', 'LgConductivity', 'LnResistivity', 'LnConductivity']
    doms = [('domain', (-200.0, 1300.0)), ('distance', (500.0, 700.0)), ('domain', (10.0, 5000.0))]
    strs = [(1.0, 1.5), (1.1, 1.3), (1.0, 1.0001)] if tier == 'quick' else [(1.0, 1.5), (1.1, 1.3), (1.0, 1.0001), (1.02, 2.0), (1.2, 1.2)]
    bufs = [dict(), dict(lambda_factor=0.5), dict(lambda_factor=0.6, max_buffer=20000.0), dict(lambda_from_center=True),
            dict(lambda_from_center=True, lambda_factor=2.0, max_buffer=30000.0), dict(lambda_factor=3.0, max_buffer=5000.0),
            dict(max_buffer=1.0), dict(lambda_from_center=True, lambda_factor=0.001)]          # (practically) no buffer to add
    coes = [True, False]
    lims = [None, 17.0, (5.0, 40.0)]
    k = 0
    for f, c, d, s, b, coe in itertools.product(freqs, conds, doms, strs, bufs, coes):
        k += 1
        if tier == 'quick' and k % 3 != 0:
            continue
        m = mappings[k % 6]
        lim = lims[k % 3]
        pps = [3, 5][k % 2]
        yield dict(freq=f, cond=c, mapping=m, dom=d, stretching=s, buf=b, coe=coe, limits=lim, pps=pps, vector=None, seasurface=None, center=(k % 5) * 37.0 - 50.0)
    # very low frequencies with a very resistive buffer medium (air), also as exactly zero conductivity: the wavelength is astronomically
    # large, the required buffer is the cap max_buffer
    for f, c, b in itertools.product([2e-3, -1e-2], [[1.0, 1.0, 1e-8], [0.5, 1e-9, 1e-9]], [dict(max_buffer=20000.0), dict(lambda_factor=0.5, max_buffer=30000.0)]):
        yield dict(freq=f, cond=c, mapping='Conductivity', dom=('domain', (-500.0, 800.0)), stretching=(1.0, 1.5), buf=b, coe=True, limits=(10.0, 200.0), pps=3,
                   vector=None, seasurface=None, center=0.0)
    # vectors and sea surfaces
    vecs = [np.array([-100.0, -40.0, 0.0, 30.0, 90.0, 200.0]), np.linspace(-500, 500, 11), np.array([0.0, 50.0, 100.0])]
    for f, c, v, b, dd in itertools.product(freqs[:2], conds, vecs, bufs[:3], [None, (-250.0, 260.0), (-30.0, 95.0)]):
        yield dict(freq=f, cond=c, mapping='Conductivity', dom=('domain', dd) if dd else ('vector', None), stretching=(1.0, 1.5), buf=b, coe='notset', limits=None,
                   pps=3, vector=v, seasurface=None, center=0.0)
    # a non-uniform user vector (coarse at depth, fine on top) below a sea surface
    zvecs = [np.array([-2000.0, -1700.0, -1450.0, -1250.0, -1100.0, -1000.0, -950.0]), np.array([-1500.0, -1400.0, -1320.0, -1260.0, -1220.0]),
             np.array([-1300.0, -1250.0, -1200.0, -1150.0])]
    for f, c, v, sea in itertools.product(freqs[:2], conds[:2], zvecs, [-600.0, 0.0, -875.0]):
        yield dict(freq=f, cond=c, mapping='Conductivity', dom=('vector', None), stretching=(1.0, 1.5), buf={}, coe='notset', limits=None, pps=3,
                   vector=v, seasurface=sea, center=float(v[-2]))
    for f, c, sea, b, coe in itertools.product(freqs[:2], conds, [0.0, 133.0, 420.0, 1000.0], bufs[:4], coes):
        yield dict(freq=f, cond=c, mapping='Resistivity', dom=('domain', (-2500.0, -800.0)), stretching=(1.0, 1.5), buf=b, coe=coe, limits=None, pps=3, vector=None,
                   seasurface=sea, center=-1000.0)


def run_case(mod, cs, cell_numbers=None):
    cond = cs['cond']
    props = to_property(cs['mapping'], cond).tolist()
    kw = dict(stretching=list(cs['stretching']), mapping=cs['mapping'], min_width_pps=cs['pps'])
    kw.update(cs['buf'])
    if cs['limits'] is not None:
        kw['min_width_limits'] = cs['limits']
    if cs['coe'] != 'notset':
        kw['center_on_edge'] = cs['coe']
    kind, val = cs['dom']
    if kind == 'domain':
        kw['domain'] = list(val)
        domain = list(val)
    elif kind == 'distance':
        kw['distance'] = list(val)
        domain = [cs['center'] - abs(val[0]), cs['center'] + abs(val[1])]
    else:
        domain = [cs['vector'].min(), cs['vector'].max()]
    if cs['vector'] is not None:
        kw['vector'] = cs['vector'].copy()
    if cs['seasurface'] is not None:
        kw['seasurface'] = cs['seasurface']
    if cell_numbers is not None:
        kw['cell_numbers'] = cell_numbers
    with warnings.catch_warnings(record=True) as wl:
        warnings.simplefilter('always')
        try:
            x0, hx = mod.origin_and_widths(cs['freq'], props, cs['center'], **kw)
        except Exception as e:       # loud failure: permitted by the statement
            return 'raised', f'{type(e).__name__}: {e}'
    warned = any('Seasurface' in str(w.message) for w in wl)
    if x0 is None or hx is None:
        return 'violated', 'returned None although raise_error is True'
    cn = cell_numbers if cell_numbers is not None else mod.good_mg_cell_nr()
    bad = postconditions(x0, hx, freq=cs['freq'], cond3=expand(cond), center=cs['center'], domain=domain, vector=cs['vector'], seasurface=cs['seasurface'],
                         stretching=cs['stretching'], lambda_factor=cs['buf'].get('lambda_factor', 1.0), max_buffer=cs['buf'].get('max_buffer', 100000),
                         lambda_from_center=cs['buf'].get('lambda_from_center', False), cell_numbers=cn,
                         center_on_edge=True if cs['coe'] == 'notset' else cs['coe'], warned=warned)
    if bad:
        return 'violated', bad
    return 'ok', None


def check(tier='quick', seed=0, part=0, of=1):
    import emg3d
    mod = emg3d.meshes
    rng = np.random.default_rng(seed)
    n = ok = raised = 0

    def fail(**kw):
        kw.update(reproduced=True, cases=n, how='contracts.c16_concrete.check on the real emg3d.meshes.origin_and_widths / construct_mesh')
        return kw
    for idx, cs in enumerate(cases(tier, rng)):
        if idx % of != part:
            continue
        n += 1
        st, why = run_case(mod, cs)
        if st == 'violated':
            return fail(clause=why, case={k: (v.tolist() if isinstance(v, np.ndarray) else v) for k, v in cs.items()})
        ok += st == 'ok'
        raised += st == 'raised'
    if ok < 0.5 * n:
        return fail(clause=f'only {ok} of {n} parameter sets produced a mesh; the others raised', case=None)
    if part != 0:
        return dict(reproduced=False, cases=n, meshes=ok, raised=raised)
    # a cell-number list that cannot work must fail loudly
    n += 1
    cs = dict(freq=1.0, cond=[1.0], mapping='Conductivity', dom=('domain', (-1000.0, 1000.0)), stretching=(1.0, 1.2), buf={}, coe=True, limits=None, pps=3,
              vector=None, seasurface=None, center=0.0)
    st, why = run_case(mod, cs, cell_numbers=[4, 8])
    if st != 'raised' or 'RuntimeError' not in why:
        return fail(clause='impossible cell numbers did not raise RuntimeError', got=str((st, why)))
    # construct_mesh: three directions, per-direction routing, loud failure
    r = construct(mod)
    if r is not None:
        return fail(clause=r)
    n += 3
    r = option_formats(mod)
    if r['reproduced']:
        r['cases'] += n
        return r
    n += r['cases']
    r = good_numbers(mod)
    if r is not None:
        return fail(clause=r)
    return dict(reproduced=False, cases=n, meshes=ok, raised=raised)


def construct(mod):
    import emg3d
    with warnings.catch_warnings():
        warnings.simplefilter('ignore')
        for props, L in (([0.3, 1e8, 1.0], 3), ([1.0, 2.0, 1e8, 0.5], 4), ([1.0, 2.0, 3.0, 4.0, 5.0, 1e6, 0.7], 7), (2.0, 1), ([1.0, 30.0], 2)):
            center = (10.0, -20.0, -300.0)
            dom = ([-500.0, 700.0], [-300.0, 300.0], [-1200.0, -100.0])
            kw = dict(frequency=0.7, properties=props, center=center, domain=dom, center_on_edge={'x': True, 'y': False, 'z': True},
                      lambda_factor=0.7, max_buffer=50000.0, stretching=[1.0, 1.4])
            try:
                mesh = mod.construct_mesh(**kw)
            except RuntimeError:
                continue
            P = [props] if L == 1 else list(props)
            for d in range(3):
                if L == 1:
                    tri = [P[0]] * 3
                elif L == 2:
                    tri = [P[0], P[1], P[1]]
                elif L == 3:
                    tri = [P[0], P[1], P[2]] if d == 2 else [P[0], P[2], P[2]]
                elif L == 4:
                    tri = [P[0], P[2], P[3]] if d == 2 else [P[0], P[1], P[1]]
                else:
                    tri = [P[0], P[1 + 2 * d], P[2 + 2 * d]]
                bad = postconditions(mesh.origin[d], mesh.h[d], freq=0.7, cond3=(1 / np.array(tri)).tolist(), center=center[d], domain=dom[d], vector=None, seasurface=None,
                                     stretching=(1.0, 1.4), lambda_factor=0.7, max_buffer=50000.0, lambda_from_center=False, cell_numbers=mod.good_mg_cell_nr(),
                                     center_on_edge=[True, False, True][d], warned=False)
                if bad:
                    return f'construct_mesh properties={props} direction {"xyz"[d]}: {bad}'
        try:
            mod.construct_mesh(frequency=1.0, properties=1.0, center=(0, 0, 0), domain=[-1000, 1000], cell_numbers=[4, 8], center_on_edge=True)
            return 'construct_mesh with impossible cell numbers did not raise'
        except RuntimeError:
            pass
    return None


def option_formats(mod):
    """the centre switch in every documented format (bool, 3-tuple, 3-list, x/y/z dict; both values in every position) and scalar / common forms of
    the other direction-specific options: every direction of the mesh construct_mesh returns meets the postconditions for what was requested in
    THAT direction -- judged from the returned origin and widths only"""
    n = 0

    def fail(**kw):
        kw.update(reproduced=True, cases=n, how='contracts.c16_concrete.option_formats on the real emg3d.meshes.construct_mesh')
        return kw
    sets = [dict(frequency=1.0, properties=[1.0, 2.0, 0.5], center=(0.0, 15.0, -40.0), domain=([-1000.0, 1000.0], [-600.0, 700.0], [-900.0, 300.0]),
                 stretching=[1.0, 1.5], lambda_factor=1.0, max_buffer=100000.0),
            dict(frequency=-2.0, properties=0.5, center=(10.0, 20.0, 30.0), domain=[-400.0, 900.0], stretching=[1.1, 1.3], lambda_factor=0.7, max_buffer=4000.0)]
    triples = [(True, True, True), (False, False, False), (True, False, True), (False, True, False), (False, False, True)]
    forms = []
    for t in triples:
        if len(set(t)) == 1:
            forms.append(('bool', t[0], t))
        forms.append(('tuple', tuple(t), t))
        forms.append(('dict', dict(zip('xyz', t)), t))
    forms.append(('list', [False, True, True], (False, True, True)))
    forms.append(('tuple with None', (False, None, True), (False, None, True)))
    extras = [dict(), dict(min_width_pps=5), dict(min_width_limits=35.0), dict(min_width_pps=(3, 4, 5), min_width_limits={'x': [20.0, 60.0], 'y': None, 'z': 25.0})]
    with warnings.catch_warnings():
        warnings.simplefilter('ignore')
        for k, (ps, (fname, fval, want)) in enumerate(itertools.product(sets, forms)):
            extra = extras[k % len(extras)]
            n += 1
            try:
                mesh = mod.construct_mesh(center_on_edge=fval, **ps, **extra)
            except RuntimeError:
                continue            # loud failure: permitted
            props = ps['properties']
            P = [props] * 3 if not isinstance(props, list) else props
            for d in range(3):
                if want[d] is None:
                    continue
                tri = [P[0], P[1], P[2]] if d == 2 else [P[0], P[2], P[2]]
                dom = ps['domain'][d] if isinstance(ps['domain'], tuple) else ps['domain']
                bad = postconditions(mesh.origin[d], mesh.h[d], freq=ps['frequency'], cond3=(1 / np.array(tri)).tolist(), center=ps['center'][d], domain=dom,
                                     vector=None, seasurface=None, stretching=tuple(ps['stretching']), lambda_factor=ps['lambda_factor'],
                                     max_buffer=ps['max_buffer'], lambda_from_center=False, cell_numbers=mod.good_mg_cell_nr(), center_on_edge=want[d], warned=False)
                if bad is None and not want[d]:
                    nodes = mesh.origin[d] + np.r_[0.0, np.cumsum(mesh.h[d])]
                    if np.min(np.abs(nodes - ps['center'][d])) <= 1e-9 * max(abs(nodes[0]), abs(nodes[-1]), 1.0):
                        bad = 'centre is a node although a cell centre was requested'
                if bad:
                    return fail(clause=f'construct_mesh direction {"xyz"[d]}: {bad}', case=dict(center_on_edge=repr(fval), format=fname, requested=list(want),
                                                                                                 **{a: repr(b) for a, b in {**ps, **extra}.items()}))
    return dict(reproduced=False, cases=n)


def good_numbers(mod):
    for max_nr, max_lowest, min_div in itertools.product((64, 1024, 5000), (2, 3, 5, 7, 19), (1, 3, 5)):
        nums = mod.good_mg_cell_nr(max_nr, max_lowest, min_div)
        want = sorted({p * 2 ** n for p in (2, 3, 5, 7, 9, 11, 13, 15, 17, 19) if p <= max_lowest for n in range(min_div, 30) if p * 2 ** n <= max_nr})
        if list(nums) != want:
            return f'good_mg_cell_nr({max_nr}, {max_lowest}, {min_div}) is not the sorted set of p*2^n'
    return None


def vector_nodes(tier='quick'):
    return check(tier, 0)


def estimate_opts(tier='quick', seed=0):
    """emg3d.meshes.estimate_gridding_opts on real models / surveys, only what the statement needs: provided options are handed on unchanged
    (3-sequences as x/y/z dicts) so that the requested buffer / stretching / cell numbers are the ones used, the estimated survey domain contains
    every source and receiver, and the mesh construct_mesh builds from the estimate covers the survey.  (How frequency, centre and buffer
    properties are estimated is documented behaviour, not part of the statement, and is not checked.)"""
    import emg3d
    rng = np.random.default_rng(seed)
    n = 0

    def fail(**kw):
        kw.update(reproduced=True, cases=n, how='contracts.c16_concrete.estimate_opts on the real emg3d.meshes.estimate_gridding_opts')
        return kw
    for k in range(6 if tier == 'quick' else 30):
        n += 1
        shape = [int(x) for x in rng.integers(4, 9, 3)]
        h = [rng.uniform(80, 250, m) for m in shape]
        grid = emg3d.TensorMesh(h, origin=(-sum(h[0]) / 2, -sum(h[1]) / 2, -sum(h[2]) * 0.8))
        mapping = ['Resistivity', 'Conductivity', 'LgResistivity', 'LnConductivity'][k % 4]
        mp = getattr(emg3d.maps, 'Map' + mapping)()
        sig = 10 ** rng.uniform(-3, 0.5, shape)
        kw = dict(property_x=mp.forward(sig), mapping=mapping)
        sigz = None
        if k % 2:
            sigz = 10 ** rng.uniform(-3, 0.5, shape)
            kw['property_z'] = mp.forward(sigz)
        model = emg3d.Model(grid, **kw)
        nsrc, nrec = int(rng.integers(1, 4)), int(rng.integers(1, 5))
        ext = [0.3 * sum(h[0]), 0.3 * sum(h[1]) * (0.05 if k % 3 == 0 else 1.0), 0.2 * sum(h[2])]
        src = {f'TxED-{i + 1}': emg3d.TxElectricDipole((*(rng.uniform(-1, 1, 3) * ext + [0, 0, -0.3 * sum(h[2])]), 10.0 * i, 5.0)) for i in range(nsrc)}
        rec = {f'RxEP-{i + 1}': emg3d.RxElectricPoint((*(rng.uniform(-1, 1, 3) * ext + [0, 0, -0.3 * sum(h[2])]), 0.0, 0.0)) for i in range(nrec)}
        freqs = sorted((10 ** rng.uniform(-1, 1, int(rng.integers(1, 4)))).tolist())
        survey = emg3d.Survey(sources=src, receivers=rec, frequencies=freqs)
        given = dict(lambda_factor=0.7, max_buffer=30000.0, stretching=[1.0, 1.4], cell_numbers=[8, 16, 32, 64, 128], center_on_edge=(True, False, True),
                     min_width_pps=[3, 4, 5])
        try:
            g = emg3d.meshes.estimate_gridding_opts(dict(given), model, survey)
        except Exception as e:
            return fail(clause='estimate_gridding_opts raised on valid input', exception=f'{type(e).__name__}: {e}')
        for key in ('lambda_factor', 'max_buffer', 'cell_numbers', 'stretching'):
            if g.get(key) != given[key]:
                return fail(clause=f'provided option {key} is not handed on unchanged', got=str(g.get(key)))
        for key in ('center_on_edge', 'min_width_pps'):
            if g.get(key) != dict(zip('xyz', given[key])):
                return fail(clause=f'provided 3-sequence {key} is not handed on as x/y/z dict', got=str(g.get(key)))
        if g['mapping'] != mapping:
            return fail(clause='mapping is not the model mapping', got=str(g['mapping']))
        pts = np.array([s.center for s in src.values()] + [r.center for r in rec.values()])
        for i, d in enumerate('xyz'):
            lo, hi = g['domain'][d]
            if lo > pts[:, i].min() + 1e-9 or hi < pts[:, i].max() - 1e-9:
                return fail(clause=f'estimated domain in {d} does not contain all sources and receivers', domain=[float(lo), float(hi)],
                            extent=[float(pts[:, i].min()), float(pts[:, i].max())])
        # the mesh built from the estimate covers the survey
        with warnings.catch_warnings():
            warnings.simplefilter('ignore')
            try:
                mesh = emg3d.construct_mesh(**g)
            except RuntimeError:
                continue
        nodes = [mesh.nodes_x, mesh.nodes_y, mesh.nodes_z]
        for i, d in enumerate('xyz'):
            if nodes[i][0] > pts[:, i].min() or nodes[i][-1] < pts[:, i].max():
                return fail(clause=f'mesh built from the estimated options does not cover the survey in {d}')
        # distance AND vector for the same direction (documented priority: domain > distance > vector): the survey domain is centre -/+ distance,
        # the vector only contributes nodes; the mesh covers that domain plus the buffer
        if k < 3:
            n += 1
            dist = {'x': [0.6 * sum(h[0]), 0.9 * sum(h[0])], 'y': None, 'z': [0.5 * sum(h[2]), 0.1 * sum(h[2])]}
            vec = {'x': np.linspace(-150.0, 150.0, 7), 'y': None, 'z': np.linspace(-0.3 * sum(h[2]) - 100, -0.3 * sum(h[2]) + 100, 5)}
            gv = dict(given, distance=dist, vector=vec, center=(0.0, 0.0, -0.3 * sum(h[2])), max_buffer=60.0)      # (small buffer: coverage must come from the domain)
            try:
                g2 = emg3d.meshes.estimate_gridding_opts(dict(gv), model, survey)
                with warnings.catch_warnings():
                    warnings.simplefilter('ignore')
                    mesh2 = emg3d.construct_mesh(**g2)
            except RuntimeError:
                continue
            except Exception as e:
                return fail(clause='estimate_gridding_opts / construct_mesh raised for distance and vector given for the same direction', exception=f'{type(e).__name__}: {e}')
            for i, d in ((0, 'x'), (2, 'z')):
                c_ = gv['center'][i]
                nodes_d = [mesh2.nodes_x, mesh2.nodes_y, mesh2.nodes_z][i]
                lo, hi = c_ - dist[d][0], c_ + dist[d][1]
                if nodes_d[0] > lo + 1e-6 or nodes_d[-1] < hi - 1e-6:
                    return fail(clause=f'distance and vector given for direction {d}: the mesh does not cover centre -/+ distance (the vector must not replace the requested survey domain)',
                                mesh=[float(nodes_d[0]), float(nodes_d[-1])], requested_domain=[float(lo), float(hi)], vector=[float(vec[d].min()), float(vec[d].max())])
    return dict(reproduced=False, cases=n)
