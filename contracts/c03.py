"""C03 -- every smoother is a consistent relaxation of the same linear system.

Functions under contract: core.gauss_seidel, core.gauss_seidel_x/_y/_z, core.blocks_to_amat,
core.solve, solver.smoothing, solver._current_lr_dir (the last two in c03_dispatch).

Key obligation (master identity, DESIGN.md 5/C03): for the block of unknowns relaxed in one
step and *all* values x of these unknowns,

    bvec_in[u] - sum_v Asym[u,v] x[v]  ==  (s - A_spec e[block := x])[edge(u)]

with amat/bvec as assembled by the code and A_spec the C02 operator.
"""
import itertools
import os

import z3

from pyvc import sx, ob, intake, prove
from . import spec
from .kernel_env import KEnv, ZERO, ONE

PROP = 'C03'
GS_ARGS = ['ex', 'ey', 'ez', 'sx', 'sy', 'sz', 'eta_x', 'eta_y', 'eta_z', 'zeta', 'hx', 'hy', 'hz', 'nu']
READONLY = ('sx', 'sy', 'sz', 'eta_x', 'eta_y', 'eta_z', 'zeta', 'hx', 'hy', 'hz', 'kx', 'ky', 'kz')


def asym(amat_read, u, v, band=5):
    """entry (u,v) of the symmetric banded matrix stored as amat[max + 5*min]"""
    hi, lo = (u, v) if u >= v else (v, u)
    return amat_read(hi + 5 * lo)


def e_havoc(K, tag):
    """havoc of the field arrays that keeps the invariant PEC(e) (if K was built with pec=True the
    same structure is used; otherwise a plain fresh function)"""
    def mk(c):
        raw = z3.Function(f'{tag}e{c}', sx.I, sx.I, sx.I, sx.RS)
        if K.pec:
            return lambda ex, arr, n_it: (lambda i, j, k: z3.If(z3.And(*spec.edge_interior(c, (i, j, k), K.n)),
                                                                 raw(i, j, k), ZERO))
        return lambda ex, arr, n_it: (lambda i, j, k: raw(i, j, k))
    return {('e' + c): mk(c) for c in 'xyz'}


# ---------------------------------------------------------------------- point smoother
def run_gs(K, col, iback_entry, e_bases=None, s_bases=None):
    fn = col.function('core.gauss_seidel')
    params = [a.arg for a in fn.args.args]
    if params != GS_ARGS:
        raise sx.OutsideSubset(f'core.gauss_seidel signature changed: {params}')
    loops = intake.loops_preorder(fn)
    if len(loops) != 5:
        raise sx.OutsideSubset(f'core.gauss_seidel: expected 5 loops, found {len(loops)}')
    nu = z3.Int('nu')
    calls = []
    xs = [z3.Real(f'x{u}') for u in range(6)]

    def solve_handler(ex, args, node):
        amat, rhs = args
        if not isinstance(amat, sx.LocalArr) or not isinstance(rhs, sx.LocalArr) or len(rhs.vals) != 6 \
                or len(amat.vals) != 36:
            raise sx.OutsideSubset('core.gauss_seidel: solve() is not called with a 36/6 local system')
        calls.append(dict(amat=list(amat.vals), rhs=list(rhs.vals), guards=list(ex.guards)))
        rhs.vals = list(xs)           # contract of solve: bvec := the solution x (all x: universally quantified)
        return None
    hv = {}
    if e_bases is not None:
        hv = {('e' + c): (lambda ex, arr, n_it, c=c: e_bases[c]) for c in 'xyz'}
    else:
        hv = e_havoc(K, 'g_')
    ib = z3.Int('iback_in')
    gen_nu = dict(keep=READONLY, havoc_fn=hv,
                  scalars={'iback': (lambda ex, n_it: (ib, [ib == iback_entry]))})
    gen_in = dict(keep=READONLY, havoc_fn=hv)
    X = sx.Ex('core', pc=K.hyps + [nu >= 1], funcs={'solve': solve_handler},
              loops={0: ('gen', 'nu', gen_nu), 1: ('gen', 'iz', gen_in), 2: ('gen', 'iy', gen_in),
                     3: ('gen', 'body', dict(gen_in, stop=True))})
    args = [K.a(p) if p != 'nu' else nu for p in params]
    if s_bases is not None:
        for i, p in enumerate(params):
            if p in ('sx', 'sy', 'sz'):
                args[i] = sx.ArrObj('alt_' + p, spec.edge_shape(p[1], K.n), base=s_bases[p[1]])
    X.run_function(fn, args)
    if 'body' not in X.snap or len(calls) != 1:
        raise sx.OutsideSubset('core.gauss_seidel: expected exactly one solve() per node block')
    return X, dict(zip(params, args)), calls[0], xs


def node_edges(ix, iy, iz):
    return [('x', (ix - 1, iy, iz)), ('x', (ix, iy, iz)), ('y', (ix, iy - 1, iz)), ('y', (ix, iy, iz)),
            ('z', (ix, iy, iz - 1)), ('z', (ix, iy, iz))]


def post_fld(K, X, argmap, label='body'):
    st = X.snap[label]['arr']

    def acc(name):
        o = argmap[name]
        s_ = st[o.uid]
        return lambda *idx: s_.read([sx.R(i) for i in idx])
    return spec.Fld(acc('ex'), acc('ey'), acc('ez'), acc('eta_x'), acc('eta_y'), acc('eta_z'), acc('zeta'), *K.ih()), acc


_REPLAYS = {}


def replay_gs(kernel):
    def rp(d):
        from . import c03_concrete
        m = d.get('model', {}).get('_index_model', {})
        shape = tuple(max(3, min(5, int(m.get(k, 3)))) for k in ('nx', 'ny', 'nz'))
        if (kernel, shape) not in _REPLAYS:      # the same concrete run serves every refuted obligation of this task
            _REPLAYS[(kernel, shape)] = ob.guarded(c03_concrete.check_kernel, kernel, shapes=[shape, (3, 4, 5)], seeds=(0, 1))
        return dict(_REPLAYS[(kernel, shape)])
    return rp


def task_gs_point(direction):
    """master identity + PEC frame + bounds for core.gauss_seidel, one sweep direction"""
    col = ob.Collector(PROP, f'core.gauss_seidel/{direction}')
    K = KEnv()
    K.pec = False
    ibe = 0 if direction == 'backward' else 1        # iback = 1 - iback_entry;  iback==1 <=> reversed order
    X, argmap, call, xs = run_gs(K, col, ibe)
    env = X.snap['body']['env']
    ix, iy, iz = env['ix'], env['iy'], env['iz']
    hyps = X.snap['body']['pc']
    col.satisfiable('hyps-sat', hyps)
    p, acc = post_fld(K, X, argmap)
    edges = node_edges(ix, iy, iz)
    for u, (c, I) in enumerate(edges):
        lhs = sx.toreal(call['rhs'][u])
        for v in range(6):
            lhs = lhs - sx.toreal(asym(lambda q: call['amat'][q], u, v)) * xs[v]
        rhs = acc('s' + c)(*I) - spec.A_spec(c, p, I, ONE, ZERO)
        col.eq(f'master/row{u}', hyps, lhs, rhs, replay=replay_gs('gauss_seidel'), smt_sample=(u == 0))
        # the block's edges are interior edges (so A_spec is defined there, and PEC frame)
        col.lia(f'edges_interior/row{u}', hyps, z3.And(*spec.edge_interior(c, I, K.n)))
    # canary: wrong sign of one coupling
    lhs = sx.toreal(call['rhs'][0])
    for v in range(6):
        sg = -1 if v == 3 else 1
        lhs = lhs - sg * sx.toreal(asym(lambda q: call['amat'][q], 0, v)) * xs[v]
    col.canary_eq('canary/row0_sign', hyps, lhs, acc('sx')(*edges[0][1]) - spec.A_spec('x', p, edges[0][1], ONE, ZERO))
    # write-back: exactly the six edges of the node receive x[u]
    writes = [b for b in X.bounds if b['kind'] == 'write' and b['arr'] in (K.a('ex').name, K.a('ey').name, K.a('ez').name)]
    goal = z3.BoolVal(len(writes) == 6)
    for w, (c, I) in zip(writes, edges):
        goal = z3.And(goal, z3.BoolVal(w['arr'] == K.a('e' + c).name), *[a == b for a, b in zip(w['idx'], I)])
    col.lia('writeback/six_node_edges_in_order', hyps, goal)
    for u, (c, I) in enumerate(edges):
        col.eq(f'writeback/value{u}', hyps, acc('e' + c)(*I), xs[u])
    # PEC frame: every store into e hits an interior edge
    goal = z3.And(*[z3.And(*spec.edge_interior({K.a('e' + c).name: c for c in 'xyz'}[w['arr']], w['idx'], K.n))
                    for w in writes]) if writes else z3.BoolVal(False)
    col.lia('pec_frame/stores_hit_interior_edges_only', hyps, goal)
    col.canary_lia('canary/pec_frame_too_strong', hyps,
                   z3.And(*[w['idx'][0] >= 1 for w in writes]))
    # amat is free of e and s (affine map: matrix does not depend on field/source)
    names = set()
    for t in call['amat']:
        names |= uf_names(sx.R(t))
    bad = sorted(n for n in names if n.split('_')[-1][:2] in ('ex', 'ey', 'ez', 'sx', 'sy', 'sz') or n[:2] in ('ex', 'ey', 'ez', 'sx', 'sy', 'sz'))
    col.lia('affine/amat_free_of_field_and_source', [], z3.BoolVal(not bad))
    bounds_obligations(col, X, hyps)
    # iteration space: the three loops visit every interior node exactly once per sweep
    n1, N = z3.Ints('n1 N')
    col.lia('sweep/reversal_is_a_bijection_of_1..N-1', [N >= 2, 1 <= n1, n1 <= N - 1],
            z3.And(1 <= N - n1, N - n1 <= N - 1, N - (N - n1) == n1))
    return col.pack()


def uf_names(t):
    out = set()
    seen = set()

    def walk(e):
        if e.get_id() in seen:
            return
        seen.add(e.get_id())
        if z3.is_app(e) and e.decl().kind() == z3.Z3_OP_UNINTERPRETED:
            out.add(e.decl().name())
        for c in e.children():
            walk(c)
    walk(t)
    return out


def bounds_obligations(col, X, hyps, prefix='bounds'):
    by = {}
    for b in X.bounds:
        by.setdefault(b['arr'].split('_g')[0], []).append(b)
    for name, bs in sorted(by.items()):
        goals = []
        for b in bs:
            g = z3.And(*[z3.And(0 <= i, i < s) for i, s in zip(b['idx'], b['shape'])])
            extra = [x for x in b['hyps'] if not any(x.eq(y) for y in hyps)]
            goals.append(z3.Implies(z3.And(*extra), g) if extra else g)
        col.lia(f'{prefix}/{name}', hyps, z3.And(*goals))


def task_gs_point_affine():
    """bvec_in is an affine function of (e, s):  b(t u + (1-t) v) == t b(u) + (1-t) b(v)"""
    col = ob.Collector(PROP, 'core.gauss_seidel/affine')
    K = KEnv()
    K.pec = False
    t = z3.Real('t')
    F = {w: {c: z3.Function(f'{w}_e{c}', sx.I, sx.I, sx.I, sx.RS) for c in 'xyz'} for w in 'uv'}
    S = {w: {c: z3.Function(f'{w}_s{c}', sx.I, sx.I, sx.I, sx.RS) for c in 'xyz'} for w in 'uv'}

    def bases(w):
        if w in 'uv':
            return ({c: (lambda i, j, k, f=F[w][c]: f(i, j, k)) for c in 'xyz'},
                    {c: (lambda i, j, k, f=S[w][c]: f(i, j, k)) for c in 'xyz'})
        return ({c: (lambda i, j, k, c=c: t * F['u'][c](i, j, k) + (1 - t) * F['v'][c](i, j, k)) for c in 'xyz'},
                {c: (lambda i, j, k, c=c: t * S['u'][c](i, j, k) + (1 - t) * S['v'][c](i, j, k)) for c in 'xyz'})
    res = {}
    for w in ('u', 'v', 'mix'):
        eb, sb = bases(w)
        X, argmap, call, xs = run_gs(K, col, 0, e_bases=eb, s_bases=sb)
        res[w] = (X, call)
    hyps = res['mix'][0].snap['body']['pc']
    for u in range(6):
        col.eq(f'bvec_affine/row{u}', hyps, sx.toreal(res['mix'][1]['rhs'][u]),
               t * sx.toreal(res['u'][1]['rhs'][u]) + (1 - t) * sx.toreal(res['v'][1]['rhs'][u]))
    for q in range(36):
        a, b = sx.toreal(res['u'][1]['amat'][q]), sx.toreal(res['v'][1]['amat'][q])
        if not a.eq(b):
            col.eq(f'amat_independent_of_state/cell{q}', hyps, a, b)
    col.canary_eq('canary/bvec_not_linear_without_source_scaling', hyps, sx.toreal(res['mix'][1]['rhs'][0]),
                  t * sx.toreal(res['u'][1]['rhs'][0]))
    return col.pack()


# ---------------------------------------------------------------------- core.solve, concrete n (SSA)
class SSAEx(sx.Ex):
    """SSA-style execution of core.solve for a concrete n: every array-cell store introduces a
    fresh real with its defining equation; every 1./pivot a fresh d with d*pivot == 1."""

    def __init__(self, *a, **k):
        super().__init__(*a, **k)
        self.defs = []
        self.cnt = itertools.count()

    def rcp(self, b):
        b = sx.toreal(b)
        bs = z3.simplify(b)
        if z3.is_rational_value(bs):
            return z3.RealVal(1) / bs
        d = z3.Real(f'rcp{next(self.cnt)}')
        self.defs.append(d * b == 1)
        return d

    def write(self, a, idx, val, node=None):
        if isinstance(a, sx.LocalArr) and not sx.is_conc(val):
            v = z3.Real(f'v{next(self.cnt)}')
            self.defs.append(v == sx.toreal(val))
            val = v
        return super().write(a, idx, val, node)


def task_solve_n(n, rows=None):
    col = ob.Collector(PROP, f'core.solve/n{n}')
    fn = col.function('core.solve')
    if [a.arg for a in fn.args.args] != ['amat', 'bvec']:
        raise sx.OutsideSubset('core.solve signature changed')
    A0 = [z3.Real(f'A{i}') for i in range(6 * n)]
    b0 = [z3.Real(f'b{i}') for i in range(n)]
    X = SSAEx('core')
    amat, bvec = sx.LocalArr(list(A0), 'amat'), sx.LocalArr(list(b0), 'bvec')
    X.run_function(fn, [amat, bvec])
    x = [sx.toreal(v) for v in bvec.vals]

    def Asym(i, j):
        lo, hi = min(i, j), max(i, j)
        return A0[hi + 5 * lo] if hi - lo <= 5 else ZERO
    rows = list(range(n)) if rows is None else list(rows)
    if 0 in rows:
        col.satisfiable('pivots_nonzero_hyps-sat', X.defs)
    for i in rows:
        goal = z3.Sum([Asym(i, j) * x[j] for j in range(n)]) == b0[i]
        col.lia(f'row{i}', X.defs, goal, sample=(i == 0))
    if 0 in rows:
        col.canary_lia('canary/row0_wrong_rhs', X.defs, z3.Sum([Asym(0, j) * x[j] for j in range(n)]) == b0[0] + 1)
    return col.pack()


def task_concrete():
    from . import c03_concrete
    col = ob.Collector(PROP, 'concrete')
    for f in ('core.gauss_seidel', 'core.gauss_seidel_x', 'core.gauss_seidel_y', 'core.gauss_seidel_z', 'core.solve'):
        col.function(f)
    seed = int(os.environ.get('VERIF_SEED', '0'))
    tier = os.environ.get('VERIF_TIER', 'quick')
    shapes = [(3, 3, 3), (3, 4, 5), (4, 3, 6)] if tier == 'quick' else \
        [s for s in itertools.product((3, 4, 5, 6), repeat=3)][::3]
    for kern in ('gauss_seidel', 'gauss_seidel_x', 'gauss_seidel_y', 'gauss_seidel_z'):
        r = ob.guarded(c03_concrete.check_kernel, kern, shapes=shapes, seeds=(seed,))
        col.concrete(f'{kern}/fixed_point_lastblock_frame_on_real_function', r['reproduced'] is False, r,
                     bounded=f'{len(shapes)} shapes x nu 1..4 x real/complex x jit/py_func, rel tol 1e-8', cases=r['cases'])
    r = ob.guarded(c03_concrete.check_solve, ns=(1, 2, 5, 6, 11, 16, 21, 26) if tier != 'quick' else (1, 6, 11, 16), seeds=(seed, seed + 1))
    col.concrete('solve/banded_system_solved_on_real_function', r['reproduced'] is False, r,
                 bounded='n in {1,6,11,16[,21,26]} x 2 seeds x real/complex, diagonally dominant, rel tol 1e-9', cases=r['cases'])
    return col.pack()


def tasks(tier):
    t = [('contracts.c03', 'task_gs_point', dict(direction='forward')),
         ('contracts.c03', 'task_gs_point', dict(direction='backward')),
         ('contracts.c03', 'task_gs_point_affine', {}),
         ('contracts.c03', 'task_solve_n', dict(n=6)),
         ('contracts.c03', 'task_solve_n', dict(n=1)),
         ('contracts.c03', 'task_concrete', {})]
    # line of three cells (n = 5*2+1): every row its own task (about 13 s each)
    t += [('contracts.c03', 'task_solve_n', dict(n=11, rows=[i])) for i in range(11)]
    # (lines of four and five cells, n = 16 and 21, used to be part of the thorough tier: since core.solve is proved for every n by loop invariants
    # (c03_solve) they added nothing, and their queries, minutes each, timed out when all cores were busy -- removed so that verdicts do not flip)
    from . import c03_lines, c03_dispatch, c03_solve, c03_lean
    t += c03_solve.tasks(tier)
    t += c03_lean.tasks(tier)
    t += c03_lines.tasks(tier)
    t += c03_dispatch.tasks(tier)
    return t


LEVEL = ('Deductive proof over the real source of the four smoothing kernels, blocks_to_amat and solve: master identity '
         '(assembled local/line system == C02 operator restricted to the relaxed block, for all values of the unknowns), '
         'write-back map, PEC frame, affinity, bounds -- for a symbolic grid, symbolic block position, both sweep '
         'directions; core.solve for EVERY number of unknowns n: loop invariants (one per loop, per storage cell) show that the code computes the banded '
         'LDL^T recurrences (spec functions D, L, Y, Z, X), and the Lean 4 / Mathlib lemma lean/LDLT.lean (re-checked on every run, any field) shows that '
         'the recurrences imply A x = b and, for non-zero pivots, uniqueness; plus end-to-end SSA proofs for n=6, 1, 11 as a cross-check of the generator.')
ASSUMPTIONS = ['pivots of the LDL^T factorisation are non-zero (documented precondition of core.solve)',
               'the spec functions D, L, Y, Z, X, SD, SL, SY, SX of contracts/c03_solve.py are introduced by their defining equations (a well-founded recursion on the '
               'column / row index, hence consistent); the correspondence between the bridge obligations (z3) and the hypotheses of lean/LDLT.lean is by inspection of two '
               'texts kept side by side (contracts/c03_lean.py checks the Lean statements verbatim)',
               'lemma L-C03 (equational logic over the contracts): master identity + solve post (Asym x = b) => residual of the relaxed block is 0 afterwards; '
               'master identity + uniqueness of the solution => exact solutions are fixed points',
               'the arrays ex,ey,ez,sx,... passed to a kernel are pairwise distinct objects (holds at the call site solver.smoothing)']
