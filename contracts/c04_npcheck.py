"""C04 -- bounded cross-check of the numpy dependency contracts that the RGP / WF proofs assume (contracts/c04_rgp.py, c04_wf.py, pyvc/sx.py):
each contract is evaluated as stated in the contract modules and compared with what numpy really does on enumerated / seeded small inputs.
This does not turn the assumed contracts into proved ones; it guards against a contract that misstates numpy (labelled bounded)."""
import itertools
import os

import numpy as np

from pyvc import ob
from .c04 import PROP


def check(seed=0):
    rng = np.random.default_rng(seed)
    cases = 0

    def fail(contract, **kw):
        return dict(reproduced=True, cases=cases, contract=contract, how='contracts.c04_npcheck.check', **kw)
    for nx, ny in itertools.product(range(1, 5), repeat=2):
        x, y = np.sort(rng.uniform(-3, 3, nx)), np.sort(rng.uniform(-3, 3, ny))
        # broadcast_arrays(y, x[:, None]) -> (nx, ny) arrays [a,b] -> y[b], x[a]
        by, bx = np.broadcast_arrays(y, x[:, None])
        cases += 1
        if by.shape != (nx, ny) or bx.shape != (nx, ny) or any(by[a, b] != y[b] or bx[a, b] != x[a] for a in range(nx) for b in range(ny)):
            return fail('broadcast_arrays(y, x[:,None])', nx=nx, ny=ny)
        # ravel('F'): entry a + nx*b is A[a, b]
        fl = bx.ravel('F')
        if any(fl[a + nx * b] != bx[a, b] for a in range(nx) for b in range(ny)):
            return fail("ravel('F')", nx=nx, ny=ny)
        # np.r_[u, v].reshape(-1, 2, order='F') -> columns u, v ; .T iterates over the columns
        u, v = bx.ravel('F'), by.ravel('F')
        xy = np.r_[u, v].reshape(-1, 2, order='F')
        if xy.shape != (nx * ny, 2) or not np.array_equal(xy[:, 0], u) or not np.array_equal(xy[:, 1], v) or not all(np.array_equal(c, w) for c, w in zip(xy.T, (u, v))):
            return fail("np.r_[u, v].reshape(-1, 2, order='F')", nx=nx, ny=ny)
        # result.reshape((nx, ny), order='F')[a, b] is the entry of point a + nx*b
        r = rng.standard_normal(nx * ny)
        if any(r.reshape((nx, ny), order='F')[a, b] != r[a + nx * b] for a in range(nx) for b in range(ny)):
            return fail("reshape(order='F')", nx=nx, ny=ny)
    # searchsorted = first index k with g[k] >= v (left) / g[k] > v (right), len(g) if none
    for n in range(1, 6):
        g = np.sort(rng.uniform(-2, 2, n))
        vals = np.r_[g, g - 1e-9, g + 1e-9, rng.uniform(-3, 3, 8)]
        for side, cmp in (('left', lambda a, b: a >= b), ('right', lambda a, b: a > b)):
            got = np.searchsorted(g, vals, side=side)
            for v_, k in zip(vals, got):
                cases += 1
                want = next((i for i in range(n) if cmp(g[i], v_)), n)
                if k != want:
                    return fail(f'searchsorted side={side}', grid=g.tolist(), value=float(v_), got=int(k), want=want)
    for n in range(1, 6):
        g = np.sort(rng.uniform(-2, 2, n))
        for v_ in np.r_[g, rng.uniform(-3, 3, 6)]:
            cases += 1
            cond = v_ < np.r_[g, np.inf]
            want = next(i for i in range(n + 1) if cond[i])
            if np.where(cond)[0][0] != want or np.nonzero(cond)[0][0] != want or not np.array_equal(np.append(g, np.inf), np.r_[g, np.inf]):
                return fail('np.where(c)[0][0] == np.nonzero(c)[0][0] == first index; np.append == np.r_', grid=g.tolist(), value=float(v_))
    # sequences: cumsum / r_ / diff / slices
    for n in range(1, 7):
        h = rng.uniform(0.5, 2.0, n)
        o = float(rng.uniform(-5, 5))
        nodes = np.r_[0., h.cumsum()] + o
        cases += 1
        ps = [sum(h[:k]) for k in range(n + 1)]
        if len(nodes) != n + 1 or not np.allclose(nodes, np.array(ps) + o, rtol=1e-14, atol=1e-14):
            return fail('np.r_[0., h.cumsum()] + o', n=n)
        if len(nodes[1:]) != n or len(nodes[:-1]) != n or any(nodes[1:][k] != nodes[k + 1] or nodes[:-1][k] != nodes[k] for k in range(n)):
            return fail('s[1:] / s[:-1]', n=n)
        ev = nodes[::2]
        if len(ev) != (n + 2) // 2 or any(ev[k] != nodes[2 * k] for k in range(len(ev))):
            return fail('s[::2]', n=n)
        d = np.diff(nodes)
        if len(d) != n or any(d[k] != nodes[k + 1] - nodes[k] for k in range(n)):
            return fail('np.diff', n=n)
    # np.isclose(a, b): |a - b| <= atol + rtol*|b| with the default tolerances
    for a, b in itertools.product([0.0, 1e-9, 1.0, 1.0 + 1e-6, 1.0 + 2e-5, 1e5, 1e5 + 0.5, 1e5 + 2.0, -3.0, -3.00002, -3.0001], repeat=2):
        cases += 1
        if bool(np.isclose(a, b)) != (abs(a - b) <= 1e-8 + 1e-5 * abs(b)):
            return fail('np.isclose', a=a, b=b)
    # masked store, np.where(mask, u, v), gather with index arrays
    for n in range(1, 6):
        i = rng.integers(-2, 6, n)
        j = i.copy()
        j[j < 0] = 0
        u, v = rng.standard_normal(n), rng.standard_normal(n)
        m = u > 0
        g = rng.standard_normal(7)
        vals = rng.standard_normal((7, 7))
        cases += 1
        if any(j[k] != (0 if i[k] < 0 else i[k]) for k in range(n)) or any(np.where(m, u, v)[k] != (u[k] if m[k] else v[k]) for k in range(n)) \
                or any(g[j][k] != g[j[k]] for k in range(n)) or any(vals[(j, j)][k] != vals[j[k], j[k]] for k in range(n)):
            return fail('masked store / np.where / gather', n=n)
    # astype(copy=False) returns the array itself iff the dtype matches
    a = rng.standard_normal(4)
    cases += 1
    if a.astype(float, copy=False) is not a or a.astype(complex, copy=False) is a:
        return fail('astype(copy=False)')
    return dict(reproduced=False, cases=cases)


def task_npcheck():
    col = ob.Collector(PROP, 'numpy_contracts')
    seed = int(os.environ.get('VERIF_SEED', '0'))
    r = ob.guarded(check, seed)
    col.concrete('assumed_numpy_layout_search_and_sequence_contracts_agree_with_numpy_on_small_inputs', r['reproduced'] is False, r,
                 bounded='broadcast / ravel / reshape (Fortran order) for 1..4 x 1..4 points; searchsorted left / right, first index of np.where / np.nonzero, np.append for sorted vectors '
                         'of 1..5 entries; cumsum / r_ / diff / slices for 1..6 widths; np.isclose on 121 pairs; masked store, np.where, gather; astype(copy=False)', cases=r.get('cases', 0))
    return col.pack()


def tasks(tier):
    return [('contracts.c04_npcheck', 'task_npcheck', {})]
