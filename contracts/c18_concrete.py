"""Concrete cross-check / replay for C18: emg3d.cli.main.main vs the Python API on one small problem."""
import os
import shutil
import tempfile

import numpy as np


def check():
    import emg3d
    from emg3d.cli.main import main
    cases = 0
    td = tempfile.mkdtemp(prefix='c18_')
    import sys
    argv0 = list(sys.argv)
    sys.argv = ['emg3d', 'config-given-through-main-args']     # main() looks at len(sys.argv) even when args are passed

    def fail(**kw):
        kw.update(reproduced=True, cases=cases, how='contracts.c18_concrete.check: emg3d.cli.main.main(args) in a temporary directory vs the equivalent API calls')
        return kw
    try:
        hx = np.ones(8) * 100.0
        grid = emg3d.TensorMesh([hx, hx, hx], origin=(-400, -400, -600))
        model = emg3d.Model(grid, 1.5)
        src = {f'TxED-{i + 1}': emg3d.TxElectricDipole((-150.0 + 100 * i, 0.0, -250.0, 0, 0)) for i in range(2)}
        rec = {f'RxEP-{i + 1}': emg3d.RxElectricPoint((100.0 + 60 * i, 20.0, -300.0, 0, 0)) for i in range(3)}
        survey = emg3d.Survey(sources=src, receivers=rec, frequencies=[1.0, 2.0], noise_floor=1e-15, relative_error=0.05)
        obs = np.ones(survey.shape, dtype=complex) * (1e-12 + 1e-12j)
        obs[1, :, :] = np.nan          # second source has no data at all
        obs[:, 2, :] = np.nan          # third receiver neither
        survey.data['observed'].data[...] = obs
        emg3d.save(os.path.join(td, 'survey.h5'), survey=survey, verb=0)
        emg3d.save(os.path.join(td, 'model.h5'), model=model, verb=0)

        def run(cfgtext, args, out='out.h5'):
            with open(os.path.join(td, 'run.cfg'), 'w') as f:
                f.write(cfgtext)
            main([os.path.join(td, 'run.cfg'), '--output', out, '-q'] + args)
            return emg3d.load(os.path.join(td, out), verb=0)
        base = f"[files]\npath = {td}\nsurvey = survey.h5\nmodel = model.h5\n[simulation]\ngridding = same\nmax_workers = 1\n[solver_opts]\ntol = 1e-4\nmaxit = 10\n"
        # 1. [data] remove_empty alone (dry run) vs survey.select(remove_empty=True)
        cases += 1
        res = run(base + "[data]\nremove_empty = True\n", ['-d'])
        want = survey.select(remove_empty=True).shape
        if tuple(res['data'].shape) != tuple(want):
            return fail(clause='[data] remove_empty given alone has the same effect as Survey.select(remove_empty=True)', cli_shape=tuple(res['data'].shape), api_shape=tuple(want))
        # 2. [data] selection of sources / receivers
        cases += 1
        res = run(base + "[data]\nsources = TxED-1\nreceivers = RxEP-1, RxEP-2\nremove_empty = False\n", ['-d'])
        want = survey.select(sources=['TxED-1'], receivers=['RxEP-1', 'RxEP-2'], remove_empty=False).shape
        if tuple(res['data'].shape) != tuple(want):
            return fail(clause='[data] sources / receivers selection equals Survey.select', cli_shape=tuple(res['data'].shape), api_shape=tuple(want))
        # 3. documented gridding option cell_number is accepted (dry run with automatic gridding)
        cases += 1
        g = base.replace('gridding = same', 'gridding = single') + "[gridding_opts]\ncell_number = 8, 16, 32\nproperties = 1.5\nmin_width_limits = 50, 200\n"
        try:
            run(g, ['-d'])
        except SystemExit:
            pass
        except Exception as e:
            return fail(clause='documented option [gridding_opts] cell_number is accepted', exception=f'{type(e).__name__}: {e}')
        # 4. --path on the command line overrides path in [files]
        cases += 1
        cfg4 = base.replace(f'path = {td}', 'path = /nonexistent_dir_c18')
        try:
            with open(os.path.join(td, 'run.cfg'), 'w') as f:
                f.write(cfg4)
            main([os.path.join(td, 'run.cfg'), '--path', td, '--output', 'o4.h5', '-d', '-q'])
            if not os.path.isfile(os.path.join(td, 'o4.h5')):
                return fail(clause='--path overrides path of [files]: output not written below the terminal path')
        except SystemExit as e:
            return fail(clause='--path overrides path of [files]', exit=str(e)[:200])
        except Exception as e:
            return fail(clause='--path overrides path of [files]', exception=f'{type(e).__name__}: {e}')
        # 5. unknown option is rejected
        cases += 1
        try:
            run(base + "not_an_option = 3\n", ['-d'])
            return fail(clause='unknown option must be rejected with an error')
        except (TypeError, SystemExit):
            pass
        except Exception as e:
            if 'Duplicate' not in type(e).__name__ and 'Unexpected' not in str(e):
                return fail(clause='unknown option must be rejected with a TypeError', exception=f'{type(e).__name__}: {e}')
        # 6. real forward / misfit / gradient vs API
        for fct in ('misfit', 'gradient'):
            cases += 1
            res = run(base + "[data]\nremove_empty = True\n", ['--' + fct])
            sv = survey.select(remove_empty=True)
            sim = emg3d.Simulation(sv, model, gridding='same', max_workers=1, solver_opts=dict(tol=1e-4, maxit=10), name='x',
                                   receiver_interpolation='linear' if fct == 'gradient' else 'cubic', tqdm_opts=False, verb=-1)
            mf = sim.misfit
            if abs(res['misfit'] - mf) > 1e-9 * abs(mf) or not np.allclose(res['data'], sim.data.synthetic.data, rtol=1e-9, atol=0, equal_nan=True):
                return fail(clause=f'CLI --{fct} writes the same data / misfit as the API', cli_misfit=float(res['misfit']), api_misfit=float(mf))
            if fct == 'gradient' and not np.allclose(res['gradient'], sim.gradient, rtol=1e-9, atol=0):
                return fail(clause='CLI --gradient writes the same gradient as the API')
        # 7. --load --clean without a [gridding_opts] section
        cases += 1
        try:
            run(base, ['-d', '--save', 'simsave.h5'])
            with open(os.path.join(td, 'run.cfg'), 'w') as f:
                f.write(base)
            main([os.path.join(td, 'run.cfg'), '--load', 'simsave.h5', '--clean', '-d', '--output', 'o7.h5', '-q'])
        except SystemExit:
            pass
        except Exception as e:
            return fail(clause='--load --clean without [gridding_opts] section', exception=f'{type(e).__name__}: {e}')
        # 8. two runs: misfit with --save, then gradient with --load --clean and ANOTHER model == the API on the same survey and that model
        #    (and with --cache: what is written back is the state of the second run)
        model2 = emg3d.Model(grid, np.linspace(0.8, 3.0, grid.n_cells).reshape(grid.shape_cells, order='F'))
        emg3d.save(os.path.join(td, 'model2.h5'), model=model2, verb=0)
        cfg8 = base + "[data]\nremove_empty = True\n"
        for store in ('--save', '--cache'):
            cases += 1
            try:
                run(cfg8, ['--misfit', store, 'two.h5'], out='o8a.h5')
                with open(os.path.join(td, 'run.cfg'), 'w') as f:
                    f.write(cfg8.replace('model = model.h5', 'model = model2.h5'))
                main([os.path.join(td, 'run.cfg'), '--gradient', '--load' if store == '--save' else '--cache', 'two.h5', '--clean', '--output', 'o8b.h5', '-q'])
                res = emg3d.load(os.path.join(td, 'o8b.h5'), verb=0)
            except SystemExit as e:
                return fail(clause=f'--misfit {store}, then --gradient --load/--cache --clean with another model', exit=str(e)[:200])
            except Exception as e:
                return fail(clause=f'--misfit {store}, then --gradient --load/--cache --clean with another model raised', exception=f'{type(e).__name__}: {e}')
            sv = survey.select(remove_empty=True)
            # (the stored simulation was created by a --misfit run, i.e. with the default cubic receiver interpolation; --load keeps its options)
            sim = emg3d.Simulation(sv, model2, gridding='same', max_workers=1, solver_opts=dict(tol=1e-4, maxit=10), name='x', receiver_interpolation='cubic',
                                   tqdm_opts=False, verb=-1)
            mf = float(sim.misfit)
            g = sim.gradient
            if abs(float(res['misfit']) - mf) > 1e-6 * abs(mf) or not np.allclose(res['gradient'], g, rtol=1e-6, atol=1e-9 * np.abs(g).max()):
                return fail(clause=f'second run (--gradient {"--load" if store == "--save" else "--cache"} --clean, another model) writes the misfit and gradient of the API for that model',
                            first_run=f'--misfit {store}', cli_misfit=float(res['misfit']), api_misfit=mf,
                            gradient_rel_diff=float(np.abs(np.asarray(res['gradient']) - g).max() / np.abs(g).max()))
    finally:
        sys.argv = argv0
        shutil.rmtree(td, ignore_errors=True)
    return dict(reproduced=False, cases=cases)


def check_values():
    """[gridding_opts] written in the documented format (comma-separated lists, lists separated by semi-colons, blanks around the separators or not, trailing
    `# comment`): a dry run through emg3d.cli.main.main must hand the same options to the Simulation, and build the same computational grid, as the API call that is
    given the per-direction dictionaries."""
    import sys
    import emg3d
    from emg3d.cli.main import main
    cases = 0
    td = tempfile.mkdtemp(prefix='c18v_')
    argv0 = list(sys.argv)
    sys.argv = ['emg3d', 'config-given-through-main-args']

    def fail(**kw):
        kw.update(reproduced=True, cases=cases, how='contracts.c18_concrete.check_values: emg3d.cli.main.main(<cfg> -d --save) in a temporary directory vs emg3d.Simulation(..., gridding_opts=<dicts>)')
        return kw

    def eq(a, b):
        if isinstance(b, dict):
            return isinstance(a, dict) and set(a) == set(b) and all(eq(a[k], b[k]) for k in b)
        if b is None or isinstance(b, (bool, str)):
            return type(a) is type(b) and a == b
        a_, b_ = np.asarray(a), np.asarray(b)
        return not isinstance(a, (dict, bool, str)) and a is not None and a_.shape == b_.shape and bool(np.all(a_ == b_))
    try:
        hx = np.ones(8) * 100.0
        grid = emg3d.TensorMesh([hx, hx, hx], origin=(-400, -400, -600))
        model = emg3d.Model(grid, 1.5)
        src = {'TxED-1': emg3d.TxElectricDipole((-150.0, 0.0, -250.0, 0, 0))}
        rec = {f'RxEP-{i + 1}': emg3d.RxElectricPoint((100.0 + 60 * i, 20.0, -300.0, 0, 0)) for i in range(3)}
        survey = emg3d.Survey(sources=src, receivers=rec, frequencies=[1.0], noise_floor=1e-15, relative_error=0.05)
        emg3d.save(os.path.join(td, 'survey.h5'), survey=survey, verb=0)
        emg3d.save(os.path.join(td, 'model.h5'), model=model, verb=0)
        three = dict(center_on_edge={'x': False, 'y': False, 'z': True}, stretching={'x': [1.0, 1.3], 'y': [1.0, 1.6], 'z': [1.0, 1.5]},
                     min_width_limits={'x': [40.0, 60.0], 'y': [80.0, 100.0], 'z': [50.0, 70.0]}, domain={'x': [-300.0, 300.0], 'y': None, 'z': [-500.0, 0.0]})
        single = dict(center_on_edge=True, stretching=[1.0, 1.4], min_width_limits=[40.0, 90.0], domain={'x': None, 'y': None, 'z': [-500.0, 0.0]})
        common = dict(center=[-150.0, 0.0, -250.0], frequency=1.0, properties=[1.5])

        def text(v, comma, semi):
            if isinstance(v, dict):
                return semi.join(text(v[d], comma, semi) for d in 'xyz')
            if isinstance(v, list):
                return comma.join(repr(x) for x in v)
            return str(v)
        table = [(three, c, s_, cm) for c, s_, cm in ((', ', '; ', ''), (',', ';', '  # x; y; z'), (', ', ' ; ', ''), (' , ', ' ;', '   # per direction'))]
        table += [(single, ', ', '; ', ''), (single, ', ', ' ; ', ' # one for all')]
        for ll, comma, semi, comment in table:
            cases += 1
            gopts = dict(common, **ll)
            cfg = (f"[files]\npath = {td}\nsurvey = survey.h5\nmodel = model.h5\n[simulation]\ngridding = single   # one grid for all\nmax_workers = 1\n"
                   "[gridding_opts]\ncenter = -150, 0, -250\nfrequency = 1.0\nproperties = 1.5\n")
            lines = {k: f'{k} = {text(v, comma, semi)}{comment}' for k, v in ll.items()}
            cfg += '\n'.join(lines.values()) + '\n'
            with open(os.path.join(td, 'run.cfg'), 'w') as f:
                f.write(cfg)
            for fn in ('sim.h5', 'o.h5'):
                if os.path.isfile(os.path.join(td, fn)):
                    os.remove(os.path.join(td, fn))
            try:
                main([os.path.join(td, 'run.cfg'), '-d', '-q', '--save', 'sim.h5', '--output', 'o.h5'])
            except (Exception, SystemExit) as e:
                return fail(clause='[gridding_opts] in the documented list-of-lists format is accepted', config_lines=list(lines.values()), exception=f'{type(e).__name__}: {e}'[:300])
            out = emg3d.load(os.path.join(td, 'o.h5'), verb=0)
            got = out['configuration']['simulation_options'].get('gridding_opts', {})
            for k, v in ll.items():
                if not eq(got.get(k, '<absent>'), v):
                    return fail(clause='a list-of-lists option of [gridding_opts] reaches the Simulation with the value of the equivalent API call', config_line=lines[k],
                                cli_value=repr(got.get(k, '<absent>')), api_value=repr(v))
            csim = emg3d.Simulation.from_file(os.path.join(td, 'sim.h5'), verb=0)
            asim = emg3d.Simulation(survey, model, gridding='single', gridding_opts=gopts, max_workers=1, verb=-1)
            gc, ga = csim.get_grid('TxED-1', 'f-1'), asim.get_grid('TxED-1', 'f-1')
            if gc.shape_cells != ga.shape_cells or not all(np.array_equal(a, b) for a, b in zip(gc.h, ga.h)) or not np.array_equal(gc.origin, ga.origin):
                return fail(clause='CLI and API build the same computational grid from the same gridding options', config_lines=list(lines.values()),
                            cli_grid=f'{gc.shape_cells}, min widths {[float(h.min()) for h in gc.h]}', api_grid=f'{ga.shape_cells}, min widths {[float(h.min()) for h in ga.h]}')
    finally:
        sys.argv = argv0
        shutil.rmtree(td, ignore_errors=True)
    return dict(reproduced=False, cases=cases)


def check_cfg_model():
    """the dependency contract of configparser used by the deductive part (contracts.c18.cfg_value) against the real configparser, on an enumerated set of lines"""
    import configparser
    import itertools
    from . import c18
    cases = 0
    atoms = ['1', ', ', ',', ' ; ', ';', '; ', ' ;', ' # c', '#c', ' ', 'None', ';#', ' ;# ']
    for pres in ((), ('#',), ('#', ';'), (';',)):
        for n in (1, 2, 3, 4):
            for j, combo in enumerate(itertools.product(atoms, repeat=n)):
                raw = ''.join(combo).strip()
                if not raw or raw[0] in '#;' or n == 4 and j % 7:
                    continue
                cp = configparser.ConfigParser(inline_comment_prefixes=pres or None)
                try:
                    cp.read_string('[s]\nkey = ' + raw + '\n')
                    real = cp.get('s', 'key')
                except configparser.Error:
                    continue
                cases += 1
                mine = c18.cfg_value('key', raw, pres)
                if real != mine:
                    return dict(reproduced=True, cases=cases, clause='model of configparser value extraction agrees with configparser', line=f'key = {raw}',
                                inline_comment_prefixes=pres, configparser=real, model=mine, how='contracts.c18_concrete.check_cfg_model')
    return dict(reproduced=False, cases=cases)


def check_terminal():
    """emg3d.cli.main.main(argv): every documented terminal option arrives in the dict handed to cli.run.simulation under the name the
    parser consumes, with its value; the three run modes are mutually exclusive; defaults leave everything to the configuration file."""
    import sys
    import importlib
    cmain = importlib.import_module('emg3d.cli.main')
    crun = importlib.import_module('emg3d.cli.run')
    cases = 0
    seen = []
    orig, orig_argv = crun.simulation, sys.argv
    crun.simulation = lambda d: seen.append(dict(d))
    sys.argv = ['emg3d', 'x']

    def fail(**kw):
        kw.update(reproduced=True, cases=cases, how='contracts.c18_concrete.check_terminal: emg3d.cli.main.main(argv) with cli.run.simulation replaced by a recorder')
        return kw
    base = dict(config='emg3d.cfg', nproc=None, forward=False, misfit=False, gradient=False, path=None, survey=None, model=None, output=None, save=None,
                load=None, cache=None, clean=False, layered=None, dry_run=False, verbosity=0)
    table = [([], {}), (['my.cfg'], dict(config='my.cfg')), (['-n', '3'], dict(nproc=3)), (['--nproc', '5'], dict(nproc=5)), (['-f'], dict(forward=True)),
             (['--forward'], dict(forward=True)), (['-m'], dict(misfit=True)), (['--misfit'], dict(misfit=True)), (['-g'], dict(gradient=True)),
             (['--gradient'], dict(gradient=True)), (['--path', 'p'], dict(path='p')), (['--survey', 's.h5'], dict(survey='s.h5')),
             (['--model', 'm.h5'], dict(model='m.h5')), (['--output', 'o.npz'], dict(output='o.npz')), (['--save', 'sv.h5'], dict(save='sv.h5')),
             (['--load', 'ld.h5'], dict(load='ld.h5')), (['--cache', 'c.h5'], dict(cache='c.h5')), (['--clean'], dict(clean=True)),
             (['-l'], dict(layered=True)), (['--layered'], dict(layered=True)), (['-d'], dict(dry_run=True)), (['--dry-run'], dict(dry_run=True)),
             (['--verbosity', '2'], dict(verbosity=2)), (['-v'], dict(verbosity=1)), (['-vv'], dict(verbosity=2)), (['-q'], dict(verbosity=-1)),
             (['c.cfg', '-g', '-n', '2', '--path', 'x', '--cache', 'k.h5', '-d', '-q'], dict(config='c.cfg', gradient=True, nproc=2, path='x', cache='k.h5',
                                                                                         dry_run=True, verbosity=-1))]
    try:
        for argv, diff in table:
            cases += 1
            seen.clear()
            try:
                cmain.main(list(argv))
            except SystemExit as e:
                return fail(clause='documented terminal option rejected', argv=argv, exit=str(e.code))
            want = dict(base)
            want.update(diff)
            if len(seen) != 1:
                return fail(clause='main() did not hand over to cli.run.simulation exactly once', argv=argv)
            got = seen[0]
            if got != want:
                bad = {k: (got.get(k, '<absent>'), want.get(k, '<absent>')) for k in set(got) | set(want) if got.get(k, '<absent>') != want.get(k, '<absent>')}
                return fail(clause='terminal options do not arrive as given (name, value)', argv=argv, differences=str(bad))
        for argv in (['-f', '-m'], ['-m', '-g'], ['-v', '-q']):
            cases += 1
            seen.clear()
            import contextlib
            import io
            try:
                with contextlib.redirect_stderr(io.StringIO()):
                    cmain.main(list(argv))
                return fail(clause='mutually exclusive options accepted together', argv=argv)
            except SystemExit:
                pass
    finally:
        crun.simulation, sys.argv = orig, orig_argv
    return dict(reproduced=False, cases=cases)


def check_layered():
    """[layered] options and `-l / --layered` through emg3d.cli.main.main vs the API call Simulation(..., layered=True, layered_opts=<the same options>): directly, and after the
    simulation was stored (3D or layered) and loaded again with / without `-l`.  Compared: the options the simulation holds (stored with --save / --cache, read back with
    Simulation.from_file) against the numbers written in the configuration file and against the API simulation, and the data of a forward run against the API data
    (laterally varying model, so the averaging region matters)."""
    import sys
    import emg3d
    from emg3d.cli.main import main
    cases = 0
    td = tempfile.mkdtemp(prefix='c18l_')
    argv0 = list(sys.argv)
    sys.argv = ['emg3d', 'config-given-through-main-args']

    def fail(**kw):
        kw.update(reproduced=True, cases=cases, how='contracts.c18_concrete.check_layered: emg3d.cli.main.main(<cfg> [-l] [--save/--load/--cache]) in a temporary directory vs '
                                                     'emg3d.Simulation(survey, model, layered=True, layered_opts=<options of [layered]>)')
        return kw
    try:
        rng = np.random.default_rng(18)
        hx = np.ones(12) * 400.0
        grid = emg3d.TensorMesh([hx, hx, np.ones(8) * 250.0], origin=(-2400, -2400, -2000))
        model = emg3d.Model(grid, 10 ** rng.uniform(-0.5, 1.5, grid.shape_cells), mapping='Resistivity')
        src = {'TxED-1': emg3d.TxElectricDipole((-900.0, 100.0, -300.0, 20.0, 0.0))}
        rec = {f'RxEP-{i + 1}': emg3d.RxElectricPoint((-300.0 + 500.0 * i, -150.0, -400.0, 0.0, 0.0)) for i in range(3)}
        survey = emg3d.Survey(sources=src, receivers=rec, frequencies=[0.5, 2.0], noise_floor=1e-17, relative_error=0.05)
        emg3d.save(os.path.join(td, 'survey.h5'), survey=survey, verb=0)
        emg3d.save(os.path.join(td, 'model.h5'), model=model, verb=0)
        base = f"[files]\npath = {td}\nsurvey = survey.h5\nmodel = model.h5\n[simulation]\nmax_workers = 1\ngridding = same\n[noise_opts]\nadd_noise = False\n"
        user_sets = [dict(method='prism', radius=1300.0, factor=1.5, minor=0.5), dict(method='cylinder', radius=900.0)]

        def api_opts(u):
            o = {k: v for k, v in u.items() if k in ('method', 'merge')}
            e = {k: v for k, v in u.items() if k in ('radius', 'factor', 'minor', 'check_foci')}
            if e:
                o['ellipse'] = e
            return o

        def run(args):
            main([os.path.join(td, 'run.cfg'), '-q'] + args)

        def held(fname):
            s = emg3d.Simulation.from_file(os.path.join(td, fname), verb=0)
            return s.layered, s.layered_opts
        def given_held(got, u):
            for k, v in u.items():
                g = got.get(k, '<absent>') if k in ('method', 'merge') else got.get('ellipse', {}).get(k, '<absent>')
                if g != v:
                    return k, g, v
            return None
        for iu, u in enumerate(user_sets):
            with open(os.path.join(td, 'run.cfg'), 'w') as f:
                f.write(base + '[layered]\n' + ''.join(f'{k} = {v}\n' for k, v in u.items()))
            asim = emg3d.Simulation(emg3d.load(os.path.join(td, 'survey.h5'), verb=0)['survey'], model, max_workers=1, layered=True, layered_opts=api_opts(u),
                                    gridding='same', tqdm_opts=False)
            want = asim.layered_opts
            # the ways a run with -l can come about (dry runs; the simulation each step leaves is stored and read back); (arguments, file read back, layered expected)
            steps = [('--save without -l', ['--save', 'b0.h5'], 'b0.h5', False), ('--save without -l, then --load -l', ['-l', '--load', 'b0.h5', '--save', 'b1.h5'], 'b1.h5', True)]
            if iu == 0:
                steps = [('direct, -l', ['-l', '--save', 'a.h5'], 'a.h5', True)] + steps + [
                    ('--save -l, then --cache without -l', ['--cache', 'a.h5'], 'a.h5', False),
                    ('--save -l, --cache without -l, then --load -l', ['-l', '--load', 'a.h5', '--save', 'c.h5'], 'c.h5', True),
                    ('--save -l, then --load -l', ['-l', '--load', 'c.h5', '--save', 'd.h5'], 'd.h5', True)]
            for name, args, fname, lay in steps:
                cases += 1
                run(['-f', '-d', '--output', 'o.h5'] + args)
                flag, got = held(fname)
                if flag is not lay:
                    return fail(clause='the simulation is layered exactly when the run is given -l', way=name, layered=repr(flag))
                lost = given_held(got, u)
                if lost:
                    return fail(clause='an option written in [layered] is held by the simulation of the run, with the value written', way=name, config_section=u, option=lost[0],
                                cli_value=repr(lost[1]), written=repr(lost[2]))
                if not lay:
                    continue
                ge, we = got.get('ellipse', {}), want.get('ellipse', {})
                if set(got) != set(want) or set(ge) != set(we) or got.get('method') != want.get('method') or \
                        any(not np.isclose(ge[k], we[k], rtol=1e-12, atol=0) for k in we if isinstance(we[k], float)):
                    return fail(clause='the simulation of the CLI run holds the same layered_opts as the API simulation', way=name, config_section=u, cli=repr(got), api=repr(want))
            # data of real forward runs
            if iu == 0:
                asim.compute(observed=True, add_noise=False)
                adata = asim.data.observed.data
                for name, args in (('direct, -l', []), ('--save without -l (dry run), then --load -l', ['--load', 'b0.h5'])):
                    cases += 1
                    run(['-f', '-l', '--output', 'r.h5'] + args)
                    cdata = np.asarray(emg3d.load(os.path.join(td, 'r.h5'), verb=0)['data'])
                    if cdata.shape != adata.shape or not np.allclose(cdata, adata, rtol=1e-8, atol=0, equal_nan=True):
                        with np.errstate(all='ignore'):
                            rel = float(np.nanmax(abs(cdata - adata) / abs(adata))) if cdata.shape == adata.shape else None
                        return fail(clause='CLI forward run with -l writes the same data as the API call with layered=True and the same layered_opts', way=name, config_section=u,
                                    max_rel_diff=rel)
    finally:
        sys.argv = argv0
        shutil.rmtree(td, ignore_errors=True)
    return dict(reproduced=False, cases=cases)
