"""C16 -- contract of meshes._stretch for every cell count nx and every number of centre widths.

numpy sequences are modelled as symbolic sequences (length: Int term; element function; prefix-sum function):
   np.arange(1, nx+1)            k -> k+1
   s ** arange                   k -> POW(k+1)            POW(i) stands for stretching**i
   c * seq, c +/- seq            element-wise
   np.cumsum(seq)                k -> psum(k+1)
   seq[:n] (n >= 0)              the first min(n, len) elements (Python slice semantics)
   seq[::-1]                     reversed
   np.sum(seq)                   psum(len);  for a geometric sequence c*POW(k+1) the prefix sum is c*PS(n), PS(n) = sum_{i=1..n} POW(i)
   np.sum(boolean seq)           some integer between 0 and len   (its value is irrelevant here: the code itself tests `reached`)
   np.r_[a, b, c]                concatenation
The two facts about POW and PS that the postconditions need -- POW(i) > 0 and PS monotone -- are proved by induction from the
recurrences POW(0)=1, POW(i+1)=s*POW(i), PS(0)=0, PS(n+1)=PS(n)+POW(n+1), s>0 (base and step are separate obligations), and then
instantiated at the terms occurring on each path.
"""
import ast

import z3

from pyvc import cx, ob
from .cxutil import clause, canary, pcs, mx, mn, UNRECOGNISED

PROP = 'C16'
POW = z3.Function('POW_stretching', z3.IntSort(), z3.RealSort())
PS = z3.Function('PS_stretching', z3.IntSort(), z3.RealSort())
WF = z3.Function('W_centre', z3.IntSort(), z3.RealSort())
WS = z3.Function('WSUM_centre', z3.IntSort(), z3.RealSort())
NX, NW = z3.Ints('nx n_centre_widths')
S, E0, E1, DM0, DM1 = z3.Reals('stretching edge0 edge1 domain0 domain1')


def I(x):
    return z3.IntVal(x) if isinstance(x, int) else x


def Rr(x):
    x = cx.R(x)
    return z3.ToReal(x) if z3.is_int(x) else x


def clip(n, hi):
    return z3.If(n < 0, 0, z3.If(n > hi, hi, n))


class Seq(cx.Ext):
    """length: Int term; elem(k) for 0<=k<length; psum(n) = sum of the first n elements (None when not tracked);
    geo = (scale, stretching-tag) when elem(k) == scale*POW(k+1+shift) with shift 0; parts for concatenations"""

    def __init__(self, length, elem, psum=None, kind='seq', info=None, boolean=False):
        self.length, self.elem, self.psum, self.kind, self.info, self.boolean = I(length), elem, psum, kind, info or {}, boolean

    def __repr__(self):
        return f'<Seq {self.kind} len={self.length}>'

    # ---- attribute / subscripts
    def cx_getattr(self, it, attr):
        if attr == 'size':
            return self.length
        if attr == 'copy':
            return cx.LibFn('seq.copy', bound=self)
        return NotImplemented

    def cx_getitem(self, it, k):
        if isinstance(k, slice):
            if k.start is None and k.step is None and k.stop is not None:
                n = I(k.stop)
                if not z3.is_int(n):
                    return NotImplemented
                if it.ctx.feasible(n < 0):
                    raise cx.Unsupported('prefix slice with a possibly negative bound')
                ln = z3.If(n > self.length, self.length, n)
                return Seq(ln, self.elem, self.psum, 'prefix', dict(of=self, n=n))
            if k.start is None and k.stop is None and k.step == -1:
                total = self.psum(self.length) if self.psum else None
                L = self.length
                return Seq(L, lambda j: self.elem(L - 1 - I(j)), None, 'reversed', dict(of=self, total=total))
            return NotImplemented
        if isinstance(k, int) or (cx.is_sym(k) and z3.is_int(k)):
            k = I(k)
            kk = z3.simplify(k)
            if z3.is_int_value(kk) and kk.as_long() < 0:
                k = self.length + k
            if it.ctx.feasible(z3.Or(k < 0, k >= self.length)):
                raise cx._Raise(cx.ExcVal('IndexError'))
            return self.elem(k)
        return NotImplemented

    # ---- arithmetic
    def cx_binop(self, it, op, other, reflected):
        if self.boolean:
            if isinstance(other, Seq) and other.boolean and isinstance(op, (ast.BitAnd, ast.BitOr)):
                f = z3.And if isinstance(op, ast.BitAnd) else z3.Or
                return Seq(self.length, lambda k: f(self.elem(k), other.elem(k)), None, 'bool', boolean=True)
            return NotImplemented
        if isinstance(other, Seq):
            # broadcasting of a length-1 sequence
            one = None
            for a, b in ((self, other), (other, self)):
                if not it.ctx.feasible(a.length != 1):
                    one = (a, b)
                    break
            if one is None or not isinstance(op, ast.Mult):
                return NotImplemented
            a, b = one
            c = a.elem(z3.IntVal(0))
            return b.cx_binop(it, op, c, True)
        if not (isinstance(other, (int, float)) or cx.is_sym(other)) or isinstance(other, bool):
            return NotImplemented
        c = Rr(other)
        if isinstance(op, ast.Mult):
            geo = self.info.get('geo')
            return Seq(self.length, lambda k: c * self.elem(k), (lambda n: c * self.psum(n)) if self.psum else None, 'scaled',
                       dict(geo=(c * geo[0],) if geo else None))
        if isinstance(op, ast.Add):
            return Seq(self.length, lambda k: c + self.elem(k), None, 'shifted')
        if isinstance(op, ast.Sub):
            return Seq(self.length, (lambda k: c - self.elem(k)) if reflected else (lambda k: self.elem(k) - c), None, 'shifted')
        if isinstance(op, ast.Pow) and reflected and self.kind == 'arange1':
            # stretching ** arange(1, n+1)
            if not c.eq(S):
                return NotImplemented
            return Seq(self.length, lambda k: POW(I(k) + 1), lambda n: PS(I(n)), 'powers', dict(geo=(z3.RealVal(1),)))
        return NotImplemented

    def cx_unary(self, it, op):
        if self.boolean and isinstance(op, ast.Invert):
            return Seq(self.length, lambda k: z3.Not(self.elem(k)), None, 'bool', boolean=True)
        return NotImplemented

    def cx_cmp(self, it, op, other, reflected):
        if isinstance(other, Seq) or self.boolean:
            return NotImplemented
        c = Rr(other)
        ops = {ast.Gt: lambda a, b: a > b, ast.Lt: lambda a, b: a < b, ast.GtE: lambda a, b: a >= b, ast.LtE: lambda a, b: a <= b}
        if type(op) not in ops:
            return NotImplemented
        f = ops[type(op)]
        return Seq(self.length, (lambda k: f(c, self.elem(k))) if reflected else (lambda k: f(self.elem(k), c)), None, 'bool', boolean=True)


def seq_prelude():
    def arange(it, f, args, kw, node):
        if len(args) == 2 and args[0] == 1:
            hi = I(args[1])
            n = z3.simplify(hi - 1)
            if it.ctx.feasible(n < 0):
                raise cx.Unsupported('arange with possibly negative length')
            return Seq(n, lambda k: I(k) + 1, None, 'arange1')
        raise cx.Unsupported('np.arange form')

    def cumsum(it, f, args, kw, node):
        v = args[0]
        if isinstance(v, Seq) and v.psum is not None:
            return Seq(v.length, lambda k: v.psum(I(k) + 1), None, 'cumsum', dict(of=v))
        raise cx.Unsupported('np.cumsum argument')

    def npsum(it, f, args, kw, node):
        v = args[0]
        if isinstance(v, Seq) and v.boolean:
            c = it.ctx.fresh_int('count')
            it.ctx.assume(z3.And(c >= 0, c <= v.length))
            it.ctx.event('count', seq=v, result=c)
            return c
        if isinstance(v, Seq) and v.psum is not None:
            return v.psum(v.length)
        raise cx.Unsupported('np.sum argument')

    def isclose(it, f, args, kw, node):
        # dependency contract: |a - b| <= atol + rtol*|b| with the default tolerances (finite values)
        a, b = args[:2]
        rtol, atol = kw.get('rtol', 1e-5), kw.get('atol', 1e-8)
        if not all(isinstance(t, (int, float)) for t in (rtol, atol)):
            raise cx.Unsupported('np.isclose with symbolic tolerances')
        ab = lambda t: z3.If(t >= 0, t, -t)
        close = lambda x, y: ab(Rr(x) - Rr(y)) <= cx.R(float(atol)) + cx.R(float(rtol)) * ab(Rr(y))
        if isinstance(a, Seq) and not isinstance(b, Seq):
            return Seq(a.length, lambda k: close(a.elem(k), b), None, 'bool', boolean=True)
        if not isinstance(a, Seq) and not isinstance(b, Seq) and all(cx.is_sym(t) or isinstance(t, (int, float)) for t in (a, b)):
            return close(a, b)
        raise cx.Unsupported('np.isclose of these values')

    def floor(it, f, args, kw, node):
        v = args[0]
        if cx.is_sym(v):
            return z3.ToReal(z3.ToInt(Rr(v)))
        raise cx.Unsupported('np.floor argument')

    def ceil(it, f, args, kw, node):
        v = args[0]
        if cx.is_sym(v):
            return z3.ToReal(-z3.ToInt(-Rr(v)))
        raise cx.Unsupported('np.ceil argument')

    def copy(it, f, args, kw, node):
        return f.bound

    def flip(it, f, args, kw, node):
        v = args[0]
        if isinstance(v, Seq) and kw.get('axis', args[1] if len(args) > 1 else None) in (None, 0, -1):
            r = v.cx_getitem(it, slice(None, None, -1))        # a one-dimensional array flipped is the array reversed
            if r is not NotImplemented:
                return r
        raise cx.Unsupported('np.flip of this value')

    def nparray(it, f, args, kw, node):
        v = args[0]
        if isinstance(v, Seq):
            return v                # element-wise copy: same length, same elements
        from pyvc import prelude
        return prelude.TABLE['np.array'](it, f, args, kw, node)
    return {'np.array': nparray, 'np.atleast_1d': nparray, 'np.arange': arange, 'np.cumsum': cumsum, 'np.sum': npsum, 'np.floor': floor, 'np.ceil': ceil, 'seq.copy': copy, 'np.isclose': isclose,
            'np.flip': flip, 'np.flipud': flip}


def r_hook(it, v, k):
    return NotImplemented


class Concat(Seq):
    def __init__(self, parts):
        self.parts = parts
        length = z3.IntVal(0)
        for p in parts:
            length = length + p.length
        super().__init__(z3.simplify(length), None, None, 'concat')


EMPTY = None


def parts_of(w, given):
    """(left, middle, right) of a returned width sequence: a 3-part concatenation, or the given widths alone (nothing added)"""
    global EMPTY
    if EMPTY is None:
        EMPTY = Seq(0, lambda k: z3.RealVal(0), lambda n: z3.RealVal(0), 'prefix', dict(of=Seq(0, lambda k: z3.RealVal(0), lambda n: z3.RealVal(0), 'empty'), n=z3.IntVal(0)))
    if isinstance(w, Concat) and len(w.parts) == 3:
        return w.parts
    if w is given:
        rev = Seq(0, lambda k: z3.RealVal(0), None, 'reversed', dict(of=EMPTY, total=z3.RealVal(0)))
        return [rev, w, EMPTY]
    return None


def run_stretch(use_up):
    """explore meshes._stretch on symbolic sequences; np.r_ of sequences is intercepted through a LibFn subscript"""
    def mk(ctx):
        ctx.opts.setdefault('prelude', {}).update(seq_prelude())
        w = Seq(NW, lambda k: WF(I(k)), lambda n: WS(I(n)), 'centre-widths')
        kw = dict(use_up=True) if use_up else {}
        return [cx.Vec([E0, E1]), w, S, NX, cx.Vec([DM0, DM1])], kw, dict(widths=w)
    orig_getitem = cx.Interp.getitem

    def getitem(self, v, k, node=None):
        if isinstance(v, cx.LibFn) and v.name.endswith('.r_') and isinstance(k, tuple) and any(isinstance(x, Seq) for x in k):
            if not all(isinstance(x, Seq) or ((isinstance(x, (int, float)) or cx.is_sym(x)) and not isinstance(x, bool)) for x in k):
                raise cx.Unsupported('np.r_ of something that is neither a sequence of the model nor a scalar')
            return Concat([x if isinstance(x, Seq) else Seq(1, (lambda x: lambda j: Rr(x))(x), None, 'scalar') for x in k])
        return orig_getitem(self, v, k, node)
    cx.Interp.getitem = getitem
    try:
        return cx.run_function('meshes._stretch', mk, pc0=PRE, summaries={}, opts={})
    finally:
        cx.Interp.getitem = orig_getitem


PRE = [NX >= 1, NW >= 1, S > 0, WF(0) > 0, WF(NW - 1) > 0, WS(0) == 0, WS(NW) == E1 - E0]


def int_terms(es, decl):
    """argument terms of all applications of `decl` inside the expressions"""
    seen, out = set(), {}

    def walk(t):
        if t.get_id() in seen:
            return
        seen.add(t.get_id())
        if z3.is_app(t) and t.decl().eq(decl):
            out[str(t.arg(0))] = t.arg(0)
        for c in t.children():
            walk(c)
    for e in es:
        if z3.is_expr(e):
            walk(e)
    return list(out.values())


def lemma_instances(es):
    """instances of the two proved lemmas at the terms occurring in es"""
    ax = [PS(0) == 0]
    ps = int_terms(es, PS)
    for a in ps:
        for b in ps:
            if not a.eq(b):
                ax.append(z3.Implies(z3.And(a >= 0, a <= b), PS(a) <= PS(b)))
        ax.append(z3.Implies(a >= 0, PS(a) >= 0))
    for a in int_terms(es, POW):
        ax.append(z3.Implies(a >= 0, POW(a) > 0))
    return ax


def task_lemmas():
    col = ob.Collector(PROP, 'meshes._stretch/lemmas')
    n, a = z3.Ints('n a')
    rec = [S > 0, POW(0) == 1]
    # POW(i) > 0 by induction on i
    col.lia('powers_positive/base', rec, POW(0) > 0)
    col.lia('powers_positive/step', rec + [n >= 0, POW(n) > 0, POW(n + 1) == S * POW(n)], POW(n + 1) > 0)
    # PS(a) <= PS(b) for 0 <= a <= b by induction on b (a fixed)
    col.lia('prefix_sums_monotone/base', [PS(0) == 0], PS(a) <= PS(a))
    col.lia('prefix_sums_monotone/step', [n >= a, a >= 0, PS(a) <= PS(n), PS(n + 1) == PS(n) + POW(n + 1), POW(n + 1) > 0], PS(a) <= PS(n + 1))
    col.lia('prefix_sums_non_negative/from_monotone', [PS(0) == 0, z3.Implies(z3.And(z3.IntVal(0) >= 0, z3.IntVal(0) <= n), PS(0) <= PS(n)), n >= 0], PS(n) >= 0)
    col.canary_lia('canary/powers_positive_without_positive_stretching', [POW(0) == 1, n >= 0, POW(n) > 0, POW(n + 1) == S * POW(n)], POW(n + 1) > 0)
    col.satisfiable('recurrences_and_preconditions_satisfiable', PRE + rec + [POW(1) == S * POW(0), PS(1) == PS(0) + POW(1)])
    return col.pack()


def task_stretch():
    col = ob.Collector(PROP, 'meshes._stretch')
    col.function('meshes._stretch')
    from . import c16
    col.default_replay = c16.replay
    for use_up in (False, True):
        res = run_stretch(use_up)
        tag = 'use_up' if use_up else 'to_domain'

        def hyp(r, extra=()):
            es = list(r.pc) + list(extra)
            return lemma_instances(es)

        def ok(r):
            return r.outcome == 'return' and r.value[2] is not False

        def with_lemmas(post):
            def g(r):
                p = post(r)
                if isinstance(p, bool) or p is None:
                    return p
                return z3.Implies(z3.And(*hyp(r, [p])), p)
            return g
        clause(col, f'always_returns_a_triple/{tag}', res, lambda r: r.outcome == 'return' and isinstance(r.value, tuple) and len(r.value) == 3, PRE)
        clause(col, f'failure_is_False_False_False/{tag}', res,
               lambda r: r.value[0] is False and r.value[1] is False, PRE, select=lambda r: r.outcome == 'return' and r.value[2] is False)

        def shape(r):
            e, w, rem = r.value
            ps = parts_of(w, r.state['widths'])
            if ps is None or not (isinstance(e, list) and len(e) == 2):
                return UNRECOGNISED('the result is neither a three-part concatenation nor the given widths')
            left, mid, right = ps
            if not (left.kind == 'reversed' and left.info['of'].kind == 'prefix' and mid is r.state['widths'] and right.kind == 'prefix'):
                return False
            return True
        clause(col, f'result_is_reversed_prefix_then_given_widths_then_prefix/{tag}', res, shape, PRE, select=ok)

        def count(r):
            e, w, rem = r.value
            if not isinstance(w, Seq):
                return UNRECOGNISED('returned widths are not a sequence built from the inputs')
            rem = I(rem)
            g = [w.length == NX - rem, rem >= 0]
            if use_up:
                g.append(rem == 0)
            return z3.And(*g)
        clause(col, f'cell_count_is_nx_minus_remaining{"_and_nothing_remains" if use_up else ""}/{tag}', res, with_lemmas(count), PRE, select=ok)

        def covers(r):
            e, w, rem = r.value
            if not (isinstance(e, list) and len(e) == 2):
                return UNRECOGNISED('returned edges are not a pair')
            return z3.And(Rr(e[0]) <= DM0, Rr(e[0]) <= E0, Rr(e[1]) >= DM1, Rr(e[1]) >= E1)
        clause(col, f'extent_covers_given_edges_and_domain/{tag}', res, with_lemmas(covers), PRE, select=ok)

        def consistent(r):
            e, w, rem = r.value
            ps = parts_of(w, r.state['widths'])
            if ps is None:
                return UNRECOGNISED('the result is neither a three-part concatenation nor the given widths')
            left, mid, right = ps
            lp = left.info['of']
            # sum of all widths == edges_ext[1] - edges_ext[0], origin is edges[0] minus the left part, end is edges[1] plus the right part
            return z3.And(Rr(e[0]) == E0 - lp.psum(lp.length), Rr(e[1]) == E1 + right.psum(right.length),
                          lp.psum(lp.length) + mid.psum(mid.length) + right.psum(right.length) == Rr(e[1]) - Rr(e[0]))
        clause(col, f'origin_and_end_are_edges_minus_plus_the_sums_of_the_added_widths/{tag}', res, with_lemmas(consistent), PRE, select=ok)

        def geometric(r):
            e, w, rem = r.value
            ps = parts_of(w, r.state['widths'])
            if ps is None:
                return UNRECOGNISED('the result is neither a three-part concatenation nor the given widths')
            left, mid, right = ps
            lp = left.info['of']
            k = z3.Int('k_generic')
            g = []
            for part, scale in ((lp, WF(0)), (right, WF(NW - 1))):
                g.append(z3.Implies(z3.And(k >= 0, k < part.length), part.elem(k) == scale * POW(k + 1)))
            # reversed: element j of the left part is element len-1-j of the prefix
            g.append(z3.Implies(z3.And(k >= 0, k < left.length), left.elem(k) == lp.elem(left.length - 1 - k)))
            g.append(left.length == lp.length)
            return z3.And(*g)
        clause(col, f'added_widths_are_first_width_times_powers_of_stretching_mirrored_left/{tag}', res, geometric, PRE, select=ok)

        def positive(r):
            e, w, rem = r.value
            ps = parts_of(w, r.state['widths'])
            if ps is None:
                return UNRECOGNISED('the result is neither a three-part concatenation nor the given widths')
            left, mid, right = ps
            k = z3.Int('k_generic')
            g = [z3.Implies(z3.And(k >= 0, k < p.length), p.elem(k) > 0) for p in (left, right)]
            return z3.And(*g)
        clause(col, f'added_widths_positive/{tag}', res, with_lemmas(positive), PRE, select=ok)
        canary(col, f'canary/always_succeeds/{tag}', res, lambda r: r.value[2] is not False, PRE)

        def too_many(r):
            e, w, rem = r.value
            return (w.length == NX + 1) if isinstance(w, Seq) else None
        canary(col, f'canary/one_cell_too_many/{tag}', res, too_many, PRE, select=ok)
    return col.pack()
