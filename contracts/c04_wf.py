"""C04 -- WF(grid) proved from meshes.BaseMesh.__init__ and the coarse-grid construction in solver.restriction (was an assumption).

WF(grid), the precondition of the restrict_weights contract (R2) and of the RGP preconditions:
    len(nodes_d) == n_d + 1, len(cell_centers_d) == n_d,
    nodes_d[0] == origin[d],   nodes_d[k+1] - nodes_d[k] == h_d[k],   cell_centers_d[k] == (nodes_d[k] + nodes_d[k+1]) / 2,
    shape tuples of cells / nodes / edges / faces as documented.
Coarse chain (every level below the finest is a BaseMesh built by solver.restriction from `np.diff(nodes[::r])` and the fine origin):
    ch[I] == nodes[r(I+1)] - nodes[rI]  (== h[2I] + h[2I+1] for r = 2),
    cnodes[I] == nodes[r I]   -- by induction on I: base (I = 0: both are the origin) and step (cnodes[I+1] - cnodes[I] == ch[I]) are
    separate obligations; together with the fine WF this is exactly what restrict_weights is told about the two grids.

How: `BaseMesh.__init__` is executed from source by the control executor on symbolic sequences (extension value SeqF: length term +
element function); the `ch = [...]` statement is taken mechanically from the current source of solver.restriction and evaluated on the
same values.  numpy enters through dependency contracts (listed in the evidence): cumsum (prefix-sum function with its unfolding
equation), np.r_[0., s], s + c, s[1:], s[:-1], s[::2], s + t, s / 2, np.diff, .size.
The finest grid may be a discretize.TensorMesh (third party): for it WF stays an assumption about discretize.
"""
import ast

import z3

from pyvc import cx, ob, intake
from .c04 import PROP

I_, RS = z3.IntSort(), z3.RealSort()
_USED = set()


def used(t):
    _USED.add(t)


def Rr(v):
    v = cx.R(v)
    return z3.ToReal(v) if z3.is_int(v) else v


class SeqF(cx.Ext):
    """1-D float array: length (Int term), elem(k) for 0 <= k < length, facts (axioms about uninterpreted parts, e.g. prefix sums)"""

    def __init__(self, length, elem, facts=None, name='seq', prefixes=None):
        self.length = cx.R(length)
        self.elem = elem
        self.facts = list(facts or [])
        self.name = name
        self.prefixes = list(prefixes or [])          # (PS, unfolding-axiom generator) of every cumsum this sequence is built from

    def __repr__(self):
        return f'<SeqF {self.name} len={self.length}>'

    def cx_getattr(self, it, attr):
        if attr == 'size':
            return self.length
        if attr == 'shape':
            return (self.length,)
        if attr == 'cumsum':
            return cx.LibFn('seqf.cumsum', bound=self)
        return NotImplemented

    def cx_getitem(self, it, k):
        if isinstance(k, slice):
            if (k.start, k.stop, k.step) == (1, None, None):
                used('s[1:]: the elements from index 1 on (length - 1, empty for length <= 1)')
                return SeqF(z3.If(self.length >= 1, self.length - 1, 0), lambda j: self.elem(cx.R(j) + 1), self.facts, self.name + '[1:]', self.prefixes)
            if (k.start, k.stop, k.step) == (None, -1, None):
                used('s[:-1]: all but the last element')
                return SeqF(z3.If(self.length >= 1, self.length - 1, 0), self.elem, self.facts, self.name + '[:-1]', self.prefixes)
            if k.start is None and k.stop is None and k.step in (1, 2):
                if k.step == 1:
                    return self
                used('s[::2]: every second element starting with the first, ceil(len/2) of them')
                return SeqF((self.length + 1) / 2, lambda j: self.elem(2 * cx.R(j)), self.facts, self.name + '[::2]', self.prefixes)
            return NotImplemented
        if isinstance(k, int) or (cx.is_sym(k) and z3.is_int(k)):
            k = cx.R(k)
            ks = z3.simplify(k)
            if z3.is_int_value(ks) and ks.as_long() < 0:
                k = self.length + k
            it.ctx.event('seq-index', seq=self.name, index=k, length=self.length, pc=list(it.ctx.pc))
            return self.elem(k)
        return NotImplemented

    def cx_binop(self, it, op, other, reflected):
        if isinstance(other, SeqF):
            it.ctx.event('seq-zip', a=self.length, b=other.length, pc=list(it.ctx.pc))
            f = {ast.Add: lambda a, b: a + b, ast.Sub: lambda a, b: a - b}.get(type(op))
            if f is None:
                return NotImplemented
            a, b = (other, self) if reflected else (self, other)
            used('s + t, s - t for arrays of equal length: element-wise')
            return SeqF(a.length, lambda j: f(a.elem(j), b.elem(j)), a.facts + b.facts, f'({a.name}{"+" if isinstance(op, ast.Add) else "-"}{b.name})', a.prefixes + b.prefixes)
        if (isinstance(other, (int, float)) and not isinstance(other, bool)) or (cx.is_sym(other) and not z3.is_bool(other)):
            c = Rr(other)
            if isinstance(op, ast.Add):
                return SeqF(self.length, lambda j: self.elem(j) + c, self.facts, self.name + '+c', self.prefixes)
            if isinstance(op, ast.Sub):
                return SeqF(self.length, (lambda j: c - self.elem(j)) if reflected else (lambda j: self.elem(j) - c), self.facts, self.name + '-c', self.prefixes)
            if isinstance(op, ast.Mult):
                return SeqF(self.length, lambda j: self.elem(j) * c, self.facts, self.name + '*c', self.prefixes)
            if isinstance(op, ast.Div) and not reflected:
                cs = z3.simplify(c)
                if not (z3.is_rational_value(cs) and cs.as_fraction() != 0):
                    return NotImplemented
                return SeqF(self.length, lambda j: self.elem(j) / cs, self.facts, self.name + '/c', self.prefixes)
        return NotImplemented


def wf_prelude():
    P = {}
    cnt = [0]

    def np_array(it, f, args, kw, node):
        v = args[0]
        if isinstance(v, SeqF):
            return v
        if isinstance(v, (list, tuple, cx.Vec)) and all(isinstance(x, (int, float)) or cx.is_sym(x) for x in v):
            return cx.Vec(list(v))
        raise cx.Unsupported('np.array of this value')
    P['np.array'] = np_array

    def cumsum(it, f, args, kw, node):
        s = f.bound
        cnt[0] += 1
        PS = z3.Function(f'prefix_sum_{cnt[0]}', I_, RS)
        used('cumsum: element k is PS(k+1) with PS(0) == 0, PS(k+1) == PS(k) + s[k] (instantiated at the indices in play)')

        def ax(j):
            j = cx.R(j)
            return z3.Implies(z3.And(0 <= j, j < s.length), PS(j + 1) == PS(j) + s.elem(j))
        out = SeqF(s.length, lambda j: PS(cx.R(j) + 1), s.facts + [PS(0) == 0], s.name + '.cumsum', s.prefixes + [(PS, ax)])
        out.is_cumsum_of = PS
        return out
    P['seqf.cumsum'] = cumsum

    def r_(it, parts):
        if len(parts) == 2 and isinstance(parts[1], SeqF) and isinstance(parts[0], (int, float)) and parts[0] == 0:
            s = parts[1]
            used('np.r_[0., s]: a leading zero followed by s')
            if hasattr(s, 'is_cumsum_of'):
                PS = s.is_cumsum_of
                return SeqF(s.length + 1, lambda j: PS(cx.R(j)), s.facts, 'r_[0,' + s.name + ']', s.prefixes)     # PS(0) == 0 is a fact of s
            return SeqF(s.length + 1, lambda j: z3.If(cx.R(j) == 0, z3.RealVal(0), s.elem(cx.R(j) - 1)), s.facts, 'r_[0,' + s.name + ']', s.prefixes)
        raise cx.Unsupported('np.r_ of these values')
    P['np.r_'] = r_

    def diff(it, f, args, kw, node):
        s = args[0]
        if not isinstance(s, SeqF):
            raise cx.Unsupported('np.diff of this value')
        used('np.diff(s): element k is s[k+1] - s[k], length len(s) - 1')
        return SeqF(z3.If(s.length >= 1, s.length - 1, 0), lambda j: s.elem(cx.R(j) + 1) - s.elem(cx.R(j)), s.facts, f'diff({s.name})', s.prefixes)
    P['np.diff'] = diff

    def prod(it, f, args, kw, node):
        return cx.Opaque('np.prod')
    P['np.prod'] = prod
    return P


def collect_axioms(seq, idxs):
    out = list(seq.facts)
    for PS, ax in seq.prefixes:
        out += [ax(j) for j in idxs]
    return out


def build_mesh(ctx, hs, origin):
    it = cx.Interp(ctx, 'meshes')
    return it, it.instantiate(cx.ClassRef('meshes', 'BaseMesh'), [list(hs), cx.Vec(list(origin))], {})


def task_basemesh():
    col = ob.Collector(PROP, 'meshes.BaseMesh')
    col.function('meshes.BaseMesh')
    n = z3.Ints('n_x n_y n_z')
    H = [z3.Function(f'h_{d}', I_, RS) for d in 'xyz']
    org = z3.Reals('origin_x origin_y origin_z')
    k = z3.Int('k')
    pre = [m >= 1 for m in n]
    res = []

    def run(ctx):
        hs = [SeqF(n[i], (lambda j, i=i: H[i](cx.R(j))), name=f'h{i}') for i in range(3)]
        try:
            it, g = build_mesh(ctx, hs, org)
            return 'return', g, dict()
        except cx._Raise as e:
            return 'raise', e.exc, {}
    paths = cx.explore(run, pre, opts=dict(prelude=wf_prelude()), max_paths=50)
    col.lia('constructor_returns_normally_on_its_only_path', [], z3.BoolVal(len(paths) == 1 and paths[0].outcome == 'return'))
    p = paths[0]
    if p.outcome != 'return':
        return col.pack()
    g = p.value.fields
    col.satisfiable('hyps-sat', pre + list(p.pc))
    for i, d in enumerate('xyz'):
        nodes, cc, h = g.get('nodes_' + d), g.get('cell_centers_' + d), g['h'][i] if isinstance(g.get('h'), list) else None
        if not all(isinstance(s, SeqF) for s in (nodes, cc, h)):
            raise cx.Unsupported(f'BaseMesh: nodes_{d} / cell_centers_{d} / h[{i}] are not tracked sequences')
        hy = pre + list(p.pc) + [0 <= k, k < n[i]] + collect_axioms(nodes, [k, k + 1]) + collect_axioms(cc, [k, k + 1])
        col.lia(f'{d}/lengths__nodes_n_plus_1__cell_centers_n__h_n', hy,
                z3.And(nodes.length == n[i] + 1, cc.length == n[i], h.length == n[i]))
        col.lia(f'{d}/h_is_the_given_width_vector', hy, h.elem(k) == H[i](k))
        col.lia(f'{d}/first_node_is_the_origin', hy, nodes.elem(z3.IntVal(0)) == org[i])
        col.lia(f'{d}/consecutive_nodes_differ_by_the_cell_width', hy, nodes.elem(k + 1) - nodes.elem(k) == H[i](k), sample=(i == 0))
        col.lia(f'{d}/cell_centre_is_the_midpoint_of_its_nodes', hy, z3.And(cc.elem(k) == (nodes.elem(k) + nodes.elem(k + 1)) / 2,
                                                                       cc.elem(k) == nodes.elem(k) + H[i](k) / 2))
        col.canary_lia(f'canary/{d}/cell_centre_is_not_the_left_node', hy + [H[i](k) > 0], cc.elem(k) == nodes.elem(k))
    sc, sn = tuple(n), tuple(m + 1 for m in n)
    want = dict(shape_cells=sc, shape_nodes=sn, shape_edges_x=(sc[0], sn[1], sn[2]), shape_edges_y=(sn[0], sc[1], sn[2]), shape_edges_z=(sn[0], sn[1], sc[2]),
                shape_faces_x=(sn[0], sc[1], sc[2]), shape_faces_y=(sc[0], sn[1], sc[2]), shape_faces_z=(sc[0], sc[1], sn[2]))
    goals = []
    for nm, w in want.items():
        v = g.get(nm)
        if not (isinstance(v, tuple) and len(v) == 3):
            goals.append(z3.BoolVal(False))
        else:
            goals += [cx.R(a) == b for a, b in zip(v, w)]
    col.lia('shape_tuples_of_cells_nodes_edges_faces', pre + list(p.pc), z3.And(*goals))
    # every index of a sequence inside its range; zipped sequences have equal lengths
    bounds = [z3.Implies(z3.And(*e['pc']), z3.And(0 <= e['index'], e['index'] < e['length'])) for e in p.events if e['kind'] == 'seq-index']
    zips = [z3.Implies(z3.And(*e['pc']), e['a'] == e['b']) for e in p.events if e['kind'] == 'seq-zip']
    col.lia('element_wise_operands_have_equal_lengths_and_indices_are_in_range', pre, z3.And(*(bounds + zips)) if bounds + zips else z3.BoolVal(False))
    for t in sorted(_USED):
        col.trust('numpy sequence contract: ' + t)
    return col.pack()


def coarse_widths_expr():
    """the expression handed to meshes.BaseMesh as cell widths in the current source of solver.restriction (first argument / `h=`), with
    names that are assigned exactly once in the function replaced by what they are assigned -- no local name is assumed"""
    fn, _, _ = intake.func('solver.restriction')
    calls = [c for c in ast.walk(fn) if isinstance(c, ast.Call) and ast.unparse(c.func).endswith('BaseMesh')]
    if len(calls) != 1:
        raise cx.Unsupported('solver.restriction: expected exactly one BaseMesh(...) call')
    c = calls[0]
    expr = c.args[0] if c.args else next((k.value for k in c.keywords if k.arg == 'h'), None)
    if expr is None:
        raise cx.Unsupported('solver.restriction: BaseMesh called without cell widths')
    assigned = {}
    for st in ast.walk(fn):
        if isinstance(st, ast.Assign) and len(st.targets) == 1 and isinstance(st.targets[0], ast.Name):
            assigned.setdefault(st.targets[0].id, []).append(st.value)
    keep = ('rx', 'ry', 'rz', 'model', 'np')

    class Sub(ast.NodeTransformer):
        def __init__(self):
            self.depth = 0

        def visit_Name(self, n):
            v = assigned.get(n.id)
            if isinstance(n.ctx, ast.Load) and v is not None and len(v) == 1 and n.id not in keep and self.depth < 4:
                self.depth += 1
                r = self.visit(ast.parse(ast.unparse(v[0]), mode='eval').body)
                self.depth -= 1
                return r
            return n
    out = Sub().visit(ast.parse(ast.unparse(expr), mode='eval').body)
    return ast.fix_missing_locations(out)


def task_coarse_chain(r):
    """r = stride of nodes kept in a direction (2: coarsened, 1: kept)"""
    col = ob.Collector(PROP, f'solver.restriction/coarse_grid_nodes/stride{r}')
    col.function('solver.restriction')
    col.function('meshes.BaseMesh')
    expr = coarse_widths_expr()
    nf = z3.Int('n_fine')               # fine cells in this direction
    Hf = z3.Function('h_fine', I_, RS)
    o = z3.Real('origin')
    Ic = z3.Int('I')
    pre = [nf >= 2, nf % 2 == 0] if r == 2 else [nf >= 1]
    out = {}

    def run(ctx):
        # fine BaseMesh (WF of a BaseMesh is proved by task_basemesh; here its construction is re-run to get the node sequence)
        hs = [SeqF(nf, lambda j: Hf(cx.R(j)), name='hf') for _ in range(3)]
        it, fine = build_mesh(ctx, hs, [o, o, o])
        its = cx.Interp(ctx, 'solver')
        model = cx.Obj('VolumeModel', dict(grid=fine))
        ch = its.ev(expr, dict(model=model, rx=r, ry=r, rz=r))
        if not (isinstance(ch, list) and len(ch) == 3 and all(isinstance(c, SeqF) for c in ch)):
            raise cx.Unsupported('coarse widths are not three tracked sequences')
        it2, coarse = build_mesh(ctx, ch, [o, o, o])
        return 'return', (fine, ch, coarse), {}
    paths = cx.explore(run, pre, opts=dict(prelude=wf_prelude()), max_paths=50)
    col.lia('one_path', [], z3.BoolVal(len(paths) == 1 and paths[0].outcome == 'return'))
    p = paths[0]
    if p.outcome != 'return':
        return col.pack()
    fine, ch, coarse = p.value
    fn_, cn_, ch0 = fine.fields['nodes_x'], coarse.fields['nodes_x'], ch[0]
    ccc = coarse.fields['cell_centers_x']
    nc = nf / 2 if r == 2 else nf
    idx = [Ic, Ic + 1, r * Ic, r * Ic + 1, r * Ic + 2, r * (Ic + 1)]
    ax = collect_axioms(fn_, idx) + collect_axioms(cn_, idx) + collect_axioms(ch0, idx)
    hy = pre + list(p.pc) + [0 <= Ic, Ic < nc] + ax
    col.satisfiable('hyps-sat', hy)
    col.lia('number_of_coarse_cells', hy, z3.And(ch0.length == nc, cn_.length == nc + 1))
    col.lia('coarse_width_is_the_distance_of_the_kept_nodes', hy, ch0.elem(Ic) == fn_.elem(r * (Ic + 1)) - fn_.elem(r * Ic), sample=True)
    if r == 2:
        col.lia('coarse_width_is_the_sum_of_its_two_fine_widths', hy, ch0.elem(Ic) == Hf(2 * Ic) + Hf(2 * Ic + 1))
    col.lia('induction_base__first_coarse_node_is_the_first_fine_node', hy, cn_.elem(z3.IntVal(0)) == fn_.elem(z3.IntVal(0)))
    col.lia('induction_step__if_coarse_node_I_is_fine_node_rI_then_coarse_node_I_plus_1_is_fine_node_r_I_plus_1', hy + [cn_.elem(Ic) == fn_.elem(r * Ic)],
            cn_.elem(Ic + 1) == fn_.elem(r * (Ic + 1)))
    col.lia('coarse_cell_centre_is_the_midpoint_of_its_coarse_nodes', hy + collect_axioms(ccc, idx),
            ccc.elem(Ic) == (cn_.elem(Ic) + cn_.elem(Ic + 1)) / 2)
    col.canary_lia('canary/coarse_node_is_not_fine_node_I', hy + [cn_.elem(Ic) == fn_.elem(r * Ic), Hf(r * Ic + r - 1) > 0, Ic >= 1] + [Hf(j) > 0 for j in (r * Ic, r * Ic + 1)],
                   cn_.elem(Ic + 1) == fn_.elem(Ic + 1)) if r == 2 else None
    for t in sorted(_USED):
        col.trust('numpy sequence contract: ' + t)
    return col.pack()


def tasks(tier):
    return [('contracts.c04_wf', 'task_basemesh', {}), ('contracts.c04_wf', 'task_coarse_chain', dict(r=2)), ('contracts.c04_wf', 'task_coarse_chain', dict(r=1))]
