"""Concrete cross-check / replay for C13 on the real emg3d.surveys.Survey and emg3d.Simulation."""
import numpy as np


def make_survey(shape, seed, nf_kind, re_kind, explicit=False, nan_gaps=True):
    import emg3d
    rng = np.random.default_rng(seed)
    ns, nr, nfq = shape
    src = {f'TxED-{i + 1}': emg3d.TxElectricDipole((-60.0 + 20 * i, 0, -20, 0, 0)) for i in range(ns)}
    rec = {f'RxEP-{i + 1}': emg3d.RxElectricPoint((40.0 + 25 * i, 10, -30, 0, 0)) for i in range(nr)}
    freqs = [0.5 + i for i in range(nfq)]
    obs = rng.standard_normal(shape) + 1j * rng.standard_normal(shape)
    if nan_gaps and obs.size > 1:
        obs.flat[1] = np.nan + 1j * np.nan
        if obs.size > 5:
            obs.flat[5] = np.nan + 1j * np.nan

    def par(kind, lo, hi):
        if kind is None:
            return None
        if kind == 'scalar':
            return float(rng.uniform(lo, hi))
        shp = {'src': (ns, 1, 1), 'rec': (1, nr, 1), 'freq': (1, 1, nfq), 'full': shape}[kind]
        return rng.uniform(lo, hi, shp)
    nf, re = par(nf_kind, 0.01, 0.1), par(re_kind, 0.01, 0.2)
    survey = emg3d.Survey(sources=src, receivers=rec, frequencies=freqs, data=obs, noise_floor=nf, relative_error=re)
    sd = None
    if explicit:
        sd = rng.uniform(0.05, 0.5, shape)
        survey.standard_deviation = sd.copy()
    return survey, obs, nf, re, sd


def noise_state(s):
    """noise floor, relative error, and the explicitly set standard deviation (a derived one follows the observed data)"""
    out = {}
    keys = ('noise_floor', 'relative_error') + (('standard_deviation',) if 'standard_deviation' in s.data.keys() else ())
    out['has_explicit_std'] = np.array('standard_deviation' in s.data.keys())
    for k in keys:
        v = getattr(s, k)
        out[k] = None if v is None else np.array(getattr(v, 'data', v), copy=True)
    return out


def same_state(a, b):
    for k in a:
        if (a[k] is None) != (b[k] is None):
            return k
        if a[k] is not None and not (np.shape(a[k]) == np.shape(b[k]) and np.array_equal(a[k], b[k], equal_nan=True)):
            return k
    return None


def spec_std(nf, re, obs):
    """the documented noise model sqrt(nf^2 + (re |d_obs|)^2), plain numpy; None when neither is given"""
    if nf is None and re is None:
        return None
    out = np.zeros(obs.shape)
    if nf is not None:
        out = out + np.broadcast_to(np.asarray(nf, dtype=float), obs.shape) ** 2
    if re is not None:
        out = out + (np.broadcast_to(np.asarray(re, dtype=float), obs.shape) * np.abs(obs)) ** 2
    return np.sqrt(out)


def close(got, want):
    """both None, or equal shapes after broadcasting the specified value to the shape of what was read, and equal values (NaN == NaN)"""
    if got is None or want is None:
        return got is None and want is None
    got, want = np.asarray(getattr(got, 'data', got), dtype=float), np.asarray(want, dtype=float)
    if want.size == 1:
        return got.size == 1 and abs(float(got.ravel()[0]) - float(want.ravel()[0])) <= 1e-12 * abs(float(want.ravel()[0]))
    try:
        want = np.broadcast_to(want, got.shape)
    except ValueError:
        return False
    return bool(np.allclose(got, want, rtol=1e-12, atol=0, equal_nan=True))


def assignment_histories(seed):
    """explicit assignments are the ONLY thing that changes noise floor / relative error, and they do change them: after every assignment in a
    history (arrays of every broadcastable shape, scalars, size-one arrays, None, in every order) the getters return what was assigned last, the
    other parameter is what it was, the standard deviation is the documented formula of the two, and copy() / select() carry the same."""
    cases = 0
    for shape in ((2, 3, 2), (1, 1, 1), (1, 2, 1)):
        ns, nr, nfq = shape
        rng = np.random.default_rng(seed + 7 * ns + nr)

        def val(kind, lo, hi):
            if kind is None:
                return None
            if kind == 'scalar':
                return float(rng.uniform(lo, hi))
            if kind == 'one':
                return rng.uniform(lo, hi, (1, 1, 1))
            return rng.uniform(lo, hi, {'src': (ns, 1, 1), 'rec': (1, nr, 1), 'freq': (1, 1, nfq), 'full': shape}[kind])
        order = ['full', 'scalar', 'rec', None, 'freq', 'one', 'src', 'scalar', 'full', None, 'scalar', 'one', 'rec']
        for first in ('noise_floor', 'relative_error'):
            survey, obs, nf, re, _ = make_survey(shape, seed + 50 + cases, 'src', 'full')
            cur = dict(noise_floor=nf, relative_error=re)
            for step, kind in enumerate(order):
                cases += 1
                name = first if step % 3 != 2 else ('relative_error' if first == 'noise_floor' else 'noise_floor')
                v = val(kind, 0.01, 0.2)
                setattr(survey, name, None if v is None else (v.copy() if np.ndim(v) else v))
                cur[name] = v
                lab = dict(shape=shape, step=step + 1, assigned=f'{name} = {kind}', history=[f'{first if i % 3 != 2 else "the other one"} = {k}' for i, k in enumerate(order[:step + 1])])
                for nm in ('noise_floor', 'relative_error'):
                    if not close(getattr(survey, nm), cur[nm]):
                        return dict(cases=cases, clause=f'{nm} read back after an explicit assignment is not the value assigned last', got=str(getattr(survey, nm))[:200],
                                    want=str(cur[nm])[:200], **lab)
                want = spec_std(cur['noise_floor'], cur['relative_error'], obs)
                for what, s in (('survey', survey), ('copy()', survey.copy()),
                                ('select(all names)', survey.select(sources=list(survey.sources), receivers=list(survey.receivers), remove_empty=False))):
                    got = s.standard_deviation
                    if (got is None) != (want is None):
                        return dict(cases=cases, clause=f'standard deviation of {what}: None iff neither noise floor nor relative error is set', **lab)
                    if want is not None:
                        g = np.asarray(got.data)
                        m = np.isfinite(want)
                        if g.shape != tuple(shape) or np.abs(g[m] - want[m]).max() > 1e-12 * np.abs(want[m]).max():
                            return dict(cases=cases, clause=f'standard deviation of {what} after an explicit assignment is not sqrt(nf^2 + (re |d|)^2) of the values assigned last',
                                        max_rel_dev=float(np.abs(g[m] - want[m]).max() / np.abs(want[m]).max()) if g.shape == tuple(shape) else 'shape', **lab)
                    for nm in ('noise_floor', 'relative_error'):
                        if what != 'survey' and not close(getattr(s, nm), cur[nm]):
                            return dict(cases=cases, clause=f'{nm} of {what} is not the value assigned last to the original', **lab)
                if ns > 1:
                    sel = survey.select(sources=list(survey.sources)[1:], remove_empty=False)
                    got = sel.standard_deviation
                    if want is not None and (got is None or not np.allclose(np.asarray(got.data), want[1:], rtol=1e-12, atol=0, equal_nan=True)):
                        return dict(cases=cases, clause='standard deviation of a selection is not the sub-cube of sqrt(nf^2 + (re |d|)^2) of the values assigned last', **lab)
    return dict(cases=cases)


def reordered_selections(seed):
    """a selection contains exactly the chosen sub-cube, whatever ORDER the names are given in: under every chosen (source, receiver, frequency)
    name triple the new survey holds -- looked up by the position of the names in its own sources / receivers / frequencies, which is how the
    rest of emg3d addresses the data, and by coordinate label -- the datum, the noise floor, the relative error and the standard deviation the
    original holds under these names; the sources / receivers / frequencies themselves are those of the original."""
    import itertools
    cases = 0
    shape = (3, 4, 3)
    sels = [dict(sources=['TxED-3', 'TxED-1']), dict(receivers=['RxEP-4', 'RxEP-2', 'RxEP-3'], sources=['TxED-2']),
            dict(frequencies=['f-3', 'f-1']), dict(sources=['TxED-2', 'TxED-3', 'TxED-1'], receivers=['RxEP-2', 'RxEP-1'], frequencies=['f-2', 'f-3', 'f-1']),
            dict(sources=['TxED-1', 'TxED-3'], frequencies=['f-2'])]
    for nfk, rek, explicit in (('src', 'freq', False), ('scalar', 'full', True), ('rec', None, False)):
        orig, obs, nf, re, sd = make_survey(shape, seed + 300 + cases, nfk, rek, explicit)
        names0 = [list(orig.sources), list(orig.receivers), list(orig.frequencies)]
        full0 = {k: np.array(orig.data[k].data, copy=True) for k in orig.data.keys()}
        for nm in ('noise_floor', 'relative_error', 'standard_deviation'):
            v = getattr(orig, nm)
            full0['getter:' + nm] = None if v is None else np.broadcast_to(np.asarray(getattr(v, 'data', v)), shape).copy()
        for sel in sels:
            cases += 1
            lab = dict(shape=shape, nf=nfk, re=rek, explicit=explicit, selection=sel)
            new = orig.select(remove_empty=False, **sel)
            want = [sel.get('sources', names0[0]), sel.get('receivers', names0[1]), sel.get('frequencies', names0[2])]
            names1 = [list(new.sources), list(new.receivers), list(new.frequencies)]
            if [sorted(x) for x in names1] != [sorted(x) for x in want]:
                return dict(cases=cases, clause='selection does not have exactly the chosen names', got=names1, want=want, **lab)
            if [list(new.data[c].values) for c in ('src', 'rec', 'freq')] != names1:
                return dict(cases=cases, clause='coordinate labels of the data of the selection are not its source / receiver / frequency names', **lab)
            for d, (a, b) in enumerate(((new.sources, orig.sources), (new.receivers, orig.receivers), (new.frequencies, orig.frequencies))):
                for n in names1[d]:
                    if a[n] != b[n]:
                        return dict(cases=cases, clause=f'{n} of the selection is not {n} of the original', **lab)
            full1 = {k: np.asarray(new.data[k].data) for k in new.data.keys()}
            for nm in ('noise_floor', 'relative_error', 'standard_deviation'):
                v = getattr(new, nm)
                full1['getter:' + nm] = None if v is None else np.broadcast_to(np.asarray(getattr(v, 'data', v)), new.shape)
            if sorted(full1) != sorted(full0):
                return dict(cases=cases, clause='data sets of the selection are not those of the original', got=sorted(full1), want=sorted(full0), **lab)
            for k in full0:
                if (full0[k] is None) != (full1[k] is None):
                    return dict(cases=cases, clause=f'{k}: None in one of original / selection only', **lab)
                if full0[k] is None:
                    continue
                # by position: the sub-cube of the original in the order of the NEW survey's names
                sub = full0[k][np.ix_(*[[names0[d].index(n) for n in names1[d]] for d in range(3)])]
                got = {'by position in its sources / receivers / frequencies': full1[k]}
                if not k.startswith('getter:'):
                    # by label: re-read in the order of the ORIGINAL's names, compared with the original's sub-cube in its own order
                    keep = [[n for n in names0[d] if n in names1[d]] for d in range(3)]
                    got['by coordinate label'] = (np.asarray(new.data[k].sel(src=keep[0], rec=keep[1], freq=keep[2]).data),
                                                  full0[k][np.ix_(*[[names0[d].index(n) for n in keep[d]] for d in range(3)])])
                for how, a in got.items():
                    a, b = a if isinstance(a, tuple) else (a, sub)
                    if a.shape != b.shape or not np.array_equal(a, b, equal_nan=True):
                        bad = [t for t in itertools.product(*[range(n) for n in b.shape]) if not np.array_equal(a[t], b[t], equal_nan=True)] if a.shape == b.shape else []
                        return dict(cases=cases, clause=f'selection with re-ordered names: {k} (looked up {how}) is not that of the original under the same names',
                                    first_bad_index=bad[:1], n_bad=len(bad), got=str(a[bad[0]]) if bad else str(a.shape), want=str(b[bad[0]]) if bad else str(b.shape), **lab)
    return dict(cases=cases)


def check(tier='quick', seed=0):
    import emg3d
    cases = 0

    def fail(**kw):
        kw.update(reproduced=True, cases=cases, how='contracts.c13_concrete.check on the real emg3d Survey / Simulation')
        return kw
    kinds = [None, 'scalar', 'src', 'rec', 'freq', 'full']
    shapes = [(1, 1, 1), (2, 3, 2)]
    for shape in shapes:
        for nfk in kinds:
            for rek in (kinds if tier != 'quick' else [None, 'scalar', 'full', 'freq']):
                for explicit in (False, True):
                    cases += 1
                    survey, obs, nf, re, sd = make_survey(shape, seed + cases, nfk, rek, explicit)
                    # ---- standard deviation formula
                    std = survey.standard_deviation
                    if explicit:
                        want = sd
                    elif nf is None and re is None:
                        want = None
                    else:
                        want = np.sqrt((0 if nf is None else np.broadcast_to(nf, shape) ** 2) + (0 if re is None else (np.broadcast_to(re, shape) * np.abs(obs)) ** 2))
                    if (want is None) != (std is None):
                        return fail(clause='standard deviation None iff neither noise_floor nor relative_error nor explicit', shape=shape, nf=nfk, re=rek)
                    if want is not None:
                        got = np.asarray(std.data)
                        m = np.isfinite(want)
                        if got.shape != tuple(shape) or np.abs(got[m] - want[m]).max() > 1e-12 * max(1.0, np.abs(want[m]).max()):
                            return fail(clause='std == sqrt(nf^2 + (re |d|)^2) (or the explicit array)', shape=shape, nf=nfk, re=rek, explicit=explicit)
                    before = noise_state(survey)
                    # ---- add_noise (repeated), all amplitude cuts
                    for rep, mina in enumerate(('half_nf', 0.01, None)):
                        survey.add_noise(min_amplitude=mina, min_offset=10.0 if rep == 1 else 0.0, add_to='observed' if rep < 2 else 'noisy')
                        k = same_state(before, noise_state(survey))
                        if k:
                            return fail(clause=f'add_noise changed {k}', shape=shape, nf=nfk, re=rek, explicit=explicit, call=rep + 1, min_amplitude=str(mina))
                    # ---- select / copy / to_dict
                    sel = survey.select(sources=list(survey.sources)[:1], remove_empty=False)
                    k = same_state(before, noise_state(survey))
                    if k:
                        return fail(clause=f'select changed {k} of the original survey', shape=shape, nf=nfk, re=rek, explicit=explicit)
                    if sel.shape != (1,) + tuple(shape[1:]):
                        return fail(clause='selection is not the chosen sub-cube', shape=shape, got=sel.shape)
                    for key in survey.data.keys():
                        a = np.asarray(survey.data[key].data)[:1]
                        b = np.asarray(sel.data[key].data)
                        if not np.array_equal(a, b, equal_nan=True):
                            return fail(clause=f'selection: data set {key} differs from the sub-cube', shape=shape, nf=nfk, re=rek)
                    # selection by names given in ANOTHER order than the survey's: every datum keeps its own values, looked up by name
                    srcs, recs, frqs = list(survey.sources)[::-1], list(survey.receivers)[::-1], list(survey.frequencies)[::-1]
                    sel2 = survey.select(sources=srcs, receivers=recs, frequencies=frqs, remove_empty=False)
                    for key in survey.data.keys():
                        for sn in srcs:
                            for rn in recs:
                                for fn_ in frqs:
                                    a = survey.data[key].loc[sn, rn, fn_].data
                                    b = sel2.data[key].loc[sn, rn, fn_].data
                                    if not np.array_equal(a, b, equal_nan=True):
                                        return fail(clause=f'selection with names in reversed order: {key} of datum ({sn}, {rn}, {fn_}) differs from the original',
                                                    shape=shape, nf=nfk, re=rek, explicit=explicit)
                    cp = survey.copy()
                    survey.to_dict()
                    k = same_state(before, noise_state(survey)) or same_state(before, noise_state(cp))
                    if k:
                        return fail(clause=f'copy / to_dict changed or lost {k}', shape=shape, nf=nfk, re=rek, explicit=explicit)
    # ---- selections with names in another order than the survey's (partial, permuted): everything follows its NAME
    r = reordered_selections(seed)
    cases += r.pop('cases')
    if r:
        return fail(**r)
    # ---- histories of explicit assignments: what is read back, the standard deviation, copies and selections follow the value assigned LAST
    r = assignment_histories(seed)
    cases += r.pop('cases')
    if r:
        return fail(**r)
    # ---- misfit with a real (tiny) simulation
    hx = np.ones(8) * 40.0
    grid = emg3d.TensorMesh([hx, hx, hx], origin=(-160, -160, -200))
    model = emg3d.Model(grid, 1.0)

    def misfit_case(survey, spec_std, **lab):
        """spec_std: the standard deviation by the documented formula, computed without the survey (None: explicit array / not recomputed)"""
        sim = emg3d.Simulation(survey, model, gridding='same', max_workers=1, solver_opts=dict(tol=1e-3, maxit=3), receiver_interpolation='linear')
        before = noise_state(survey)
        mf = sim.misfit
        std = np.asarray(survey.standard_deviation.data)
        syn, ob_ = np.asarray(sim.data.synthetic.data), np.asarray(sim.data.observed.data)
        m = np.isfinite(ob_) & np.isfinite(syn)
        want = 0.5 * np.sum(np.abs(syn[m] - ob_[m]) ** 2 / std[m] ** 2)
        if abs(mf - want) > 1e-9 * max(1.0, abs(want)):
            return fail(clause='misfit == 1/2 sum_finite |syn-obs|^2 / std^2', got=float(mf), want=float(want), **lab)
        if spec_std is not None:
            want2 = 0.5 * np.sum(np.abs(syn[m] - ob_[m]) ** 2 / spec_std[m] ** 2)
            if abs(mf - want2) > 1e-9 * max(1.0, abs(want2)):
                return fail(clause='misfit == 1/2 sum_finite |syn-obs|^2 / std^2 with std = sqrt(nf^2 + (re |d_obs|)^2) of the noise parameters assigned last',
                            got=float(mf), want=float(want2), **lab)
        k = same_state(before, noise_state(survey))
        if k:
            return fail(clause=f'evaluating the misfit changed {k}', **lab)
        sim.clean('computed')
        mf2 = sim.misfit
        if abs(mf2 - mf) > 1e-9 * max(1.0, abs(mf)):
            return fail(clause='misfit after clean(computed) differs (weights corrupted?)', first=float(mf), second=float(mf2), **lab)
        # the noise model is assigned anew on the survey of the simulation (explicit assignment), the simulation cleaned, the misfit evaluated
        # again: it is the misfit for the standard deviation set NOW
        for what, assign in (('relative_error = 0.11', lambda sv: setattr(sv, 'relative_error', 0.11)), ('noise_floor = 7e-11', lambda sv: setattr(sv, 'noise_floor', 7e-11)),
                             ('standard_deviation = explicit array', lambda sv: setattr(sv, 'standard_deviation', np.abs(ob_) * 0.3 + 1e-11))):
            assign(sim.survey)
            sim.clean('computed')
            mf3 = sim.misfit
            std3 = np.asarray(sim.survey.standard_deviation.data)
            syn3 = np.asarray(sim.data.synthetic.data)
            m3 = np.isfinite(ob_) & np.isfinite(syn3) & np.isfinite(std3)
            want3 = 0.5 * np.sum(np.abs(syn3[m3] - ob_[m3]) ** 2 / std3[m3] ** 2)
            if abs(mf3 - want3) > 1e-9 * max(1.0, abs(want3)):
                return fail(clause='misfit after an explicit assignment of the noise model and clean(computed) is the misfit for the standard deviation set now',
                            assignment=what, got=float(mf3), want=float(want3), **lab)
        return None

    for explicit in (False, True):
        for nfk, rek in ((('scalar', 'scalar'), ('full', None), (None, 'freq')) if tier == 'quick' else [(a, b) for a in kinds for b in kinds if a or b]):
            cases += 1
            survey, obs, nf, re, sd = make_survey((2, 3, 2), seed + 100 + cases, nfk, rek, explicit)
            survey.data['observed'].data[...] = obs * 1e-9
            if not explicit and nf is not None:
                survey.noise_floor = np.asarray(nf) * 1e-9 if np.ndim(nf) else float(nf) * 1e-9
            if explicit:
                survey.standard_deviation = sd * 1e-9
            d_obs = np.array(survey.data.observed.data, copy=True)       # (make_survey's obs may be the very array the survey holds)
            spec = None if explicit else spec_std(None if nf is None else np.asarray(nf) * 1e-9, re, d_obs)
            r = misfit_case(survey, spec, nf=nfk, re=rek, explicit=explicit)
            if r:
                return r
    # misfit after a history of assignments (arrays first, then a scalar / a size-one array / None)
    for hist in (('full', 'freq', 3e-11, 0.05), ('rec', 'full', np.array([[[2e-11]]]), None), ('src', 'scalar', None, 0.07)):
        cases += 1
        survey, obs, nf, re, sd = make_survey((2, 3, 2), seed + 200 + cases, hist[0], hist[1], False)
        survey.data['observed'].data[...] = obs * 1e-9
        survey.noise_floor = hist[2]
        survey.relative_error = hist[3]
        r = misfit_case(survey, spec_std(hist[2], hist[3], np.array(survey.data.observed.data, copy=True)), history=f'constructed with noise_floor={hist[0]}, relative_error={hist[1]}; then assigned '
                        f'noise_floor={np.ravel(hist[2]).tolist() if hist[2] is not None else None}, relative_error={hist[3]}')
        if r:
            return r
    return dict(reproduced=False, cases=cases)
