"""Concrete cross-check / replay for C13 on the real emg3d.surveys.Survey and emg3d.Simulation."""
import numpy as np


def make_survey(shape, seed, nf_kind, re_kind, explicit=False, nan_gaps=True):
    import emg3d
    rng = np.random.default_rng(seed)
    ns, nr, nfq = shape
    src = {f'TxED-{i + 1}': emg3d.TxElectricDipole((-60.0 + 20 * i, 0, -20, 0, 0)) for i in range(ns)}
    rec = {f'RxEP-{i + 1}': emg3d.RxElectricPoint((40.0 + 25 * i, 10, -30, 0, 0)) for i in range(nr)}
    freqs = [0.5 + i for i in range(nfq)]
    obs = rng.standard_normal(shape) + 1j * rng.standard_normal(shape)
    if nan_gaps and obs.size > 1:
        obs.flat[1] = np.nan + 1j * np.nan
        if obs.size > 5:
            obs.flat[5] = np.nan + 1j * np.nan

    def par(kind, lo, hi):
        if kind is None:
            return None
        if kind == 'scalar':
            return float(rng.uniform(lo, hi))
        shp = {'src': (ns, 1, 1), 'rec': (1, nr, 1), 'freq': (1, 1, nfq), 'full': shape}[kind]
        return rng.uniform(lo, hi, shp)
    nf, re = par(nf_kind, 0.01, 0.1), par(re_kind, 0.01, 0.2)
    survey = emg3d.Survey(sources=src, receivers=rec, frequencies=freqs, data=obs, noise_floor=nf, relative_error=re)
    sd = None
    if explicit:
        sd = rng.uniform(0.05, 0.5, shape)
        survey.standard_deviation = sd.copy()
    return survey, obs, nf, re, sd


def noise_state(s):
    """noise floor, relative error, and the explicitly set standard deviation (a derived one follows the observed data)"""
    out = {}
    keys = ('noise_floor', 'relative_error') + (('standard_deviation',) if 'standard_deviation' in s.data.keys() else ())
    out['has_explicit_std'] = np.array('standard_deviation' in s.data.keys())
    for k in keys:
        v = getattr(s, k)
        out[k] = None if v is None else np.array(getattr(v, 'data', v), copy=True)
    return out


def same_state(a, b):
    for k in a:
        if (a[k] is None) != (b[k] is None):
            return k
        if a[k] is not None and not (np.shape(a[k]) == np.shape(b[k]) and np.array_equal(a[k], b[k], equal_nan=True)):
            return k
    return None


def check(tier='quick', seed=0):
    import emg3d
    cases = 0

    def fail(**kw):
        kw.update(reproduced=True, cases=cases, how='contracts.c13_concrete.check on the real emg3d Survey / Simulation')
        return kw
    kinds = [None, 'scalar', 'src', 'rec', 'freq', 'full']
    shapes = [(1, 1, 1), (2, 3, 2)]
    for shape in shapes:
        for nfk in kinds:
            for rek in (kinds if tier != 'quick' else [None, 'scalar', 'full', 'freq']):
                for explicit in (False, True):
                    cases += 1
                    survey, obs, nf, re, sd = make_survey(shape, seed + cases, nfk, rek, explicit)
                    # ---- standard deviation formula
                    std = survey.standard_deviation
                    if explicit:
                        want = sd
                    elif nf is None and re is None:
                        want = None
                    else:
                        want = np.sqrt((0 if nf is None else np.broadcast_to(nf, shape) ** 2) + (0 if re is None else (np.broadcast_to(re, shape) * np.abs(obs)) ** 2))
                    if (want is None) != (std is None):
                        return fail(clause='standard deviation None iff neither noise_floor nor relative_error nor explicit', shape=shape, nf=nfk, re=rek)
                    if want is not None:
                        got = np.asarray(std.data)
                        m = np.isfinite(want)
                        if got.shape != tuple(shape) or np.abs(got[m] - want[m]).max() > 1e-12 * max(1.0, np.abs(want[m]).max()):
                            return fail(clause='std == sqrt(nf^2 + (re |d|)^2) (or the explicit array)', shape=shape, nf=nfk, re=rek, explicit=explicit)
                    before = noise_state(survey)
                    # ---- add_noise (repeated), all amplitude cuts
                    for rep, mina in enumerate(('half_nf', 0.01, None)):
                        survey.add_noise(min_amplitude=mina, min_offset=10.0 if rep == 1 else 0.0, add_to='observed' if rep < 2 else 'noisy')
                        k = same_state(before, noise_state(survey))
                        if k:
                            return fail(clause=f'add_noise changed {k}', shape=shape, nf=nfk, re=rek, explicit=explicit, call=rep + 1, min_amplitude=str(mina))
                    # ---- select / copy / to_dict
                    sel = survey.select(sources=list(survey.sources)[:1], remove_empty=False)
                    k = same_state(before, noise_state(survey))
                    if k:
                        return fail(clause=f'select changed {k} of the original survey', shape=shape, nf=nfk, re=rek, explicit=explicit)
                    if sel.shape != (1,) + tuple(shape[1:]):
                        return fail(clause='selection is not the chosen sub-cube', shape=shape, got=sel.shape)
                    for key in survey.data.keys():
                        a = np.asarray(survey.data[key].data)[:1]
                        b = np.asarray(sel.data[key].data)
                        if not np.array_equal(a, b, equal_nan=True):
                            return fail(clause=f'selection: data set {key} differs from the sub-cube', shape=shape, nf=nfk, re=rek)
                    # selection by names given in ANOTHER order than the survey's: every datum keeps its own values, looked up by name
                    srcs, recs, frqs = list(survey.sources)[::-1], list(survey.receivers)[::-1], list(survey.frequencies)[::-1]
                    sel2 = survey.select(sources=srcs, receivers=recs, frequencies=frqs, remove_empty=False)
                    for key in survey.data.keys():
                        for sn in srcs:
                            for rn in recs:
                                for fn_ in frqs:
                                    a = survey.data[key].loc[sn, rn, fn_].data
                                    b = sel2.data[key].loc[sn, rn, fn_].data
                                    if not np.array_equal(a, b, equal_nan=True):
                                        return fail(clause=f'selection with names in reversed order: {key} of datum ({sn}, {rn}, {fn_}) differs from the original',
                                                    shape=shape, nf=nfk, re=rek, explicit=explicit)
                    cp = survey.copy()
                    survey.to_dict()
                    k = same_state(before, noise_state(survey)) or same_state(before, noise_state(cp))
                    if k:
                        return fail(clause=f'copy / to_dict changed or lost {k}', shape=shape, nf=nfk, re=rek, explicit=explicit)
    # ---- misfit with a real (tiny) simulation
    for explicit in (False, True):
        for nfk, rek in ((('scalar', 'scalar'), ('full', None), (None, 'freq')) if tier == 'quick' else [(a, b) for a in kinds for b in kinds if a or b]):
            cases += 1
            survey, obs, nf, re, sd = make_survey((2, 3, 2), seed + 100 + cases, nfk, rek, explicit)
            hx = np.ones(8) * 40.0
            grid = emg3d.TensorMesh([hx, hx, hx], origin=(-160, -160, -200))
            model = emg3d.Model(grid, 1.0)
            survey.data['observed'].data[...] = obs * 1e-9
            if not explicit and nf is not None:
                survey.noise_floor = np.asarray(nf) * 1e-9 if np.ndim(nf) else float(nf) * 1e-9
            if explicit:
                survey.standard_deviation = sd * 1e-9
            sim = emg3d.Simulation(survey, model, gridding='same', max_workers=1, solver_opts=dict(tol=1e-3, maxit=3), receiver_interpolation='linear')
            before = noise_state(survey)
            mf = sim.misfit
            std = np.asarray(survey.standard_deviation.data)
            syn, ob_ = np.asarray(sim.data.synthetic.data), np.asarray(sim.data.observed.data)
            m = np.isfinite(ob_) & np.isfinite(syn)
            want = 0.5 * np.sum(np.abs(syn[m] - ob_[m]) ** 2 / std[m] ** 2)
            if abs(mf - want) > 1e-9 * max(1.0, abs(want)):
                return fail(clause='misfit == 1/2 sum_finite |syn-obs|^2 / std^2', nf=nfk, re=rek, explicit=explicit, got=float(mf), want=float(want))
            k = same_state(before, noise_state(survey))
            if k:
                return fail(clause=f'evaluating the misfit changed {k}', nf=nfk, re=rek, explicit=explicit)
            sim.clean('computed')
            mf2 = sim.misfit
            if abs(mf2 - mf) > 1e-9 * max(1.0, abs(mf)):
                return fail(clause='misfit after clean(computed) differs (weights corrupted?)', nf=nfk, re=rek, explicit=explicit, first=float(mf), second=float(mf2))
    return dict(reproduced=False, cases=cases)
