"""C03 -- core.solve for a SYMBOLIC number of unknowns n (every line length, not only n = 6 / 11 / ...).

Two steps, the first discharged here by the VC generator on the real source, the second a machine-checked Lean lemma
(`/verif/lean/LDLT.lean`, checked by `contracts/c03_lean.py`):

  (1) refinement: with the loop invariants below (one per loop of `core.solve`, keyed by loop ordinal, stated per storage cell of
      `amat` / `bvec`) the code computes exactly the banded LDL^T recurrences

        D(j)   = A(j,j) - sum_{k in [max(0,j-5), j)} L(j,k)^2 D(k)
        L(i,j) = (A(i,j) - sum_{k in [max(0,i-5), j)} L(i,k) L(j,k) D(k)) / D(j)          j < i < min(n, j+6)
        Y(j)   = b(j) - sum_{k in [max(0,j-5), j)} L(j,k) Y(k)
        Z(j)   = Y(j) / D(j)
        X(j)   = Z(j) - sum_{k in [j+1, min(n,j+6))} L(k,j) X(k)

      and returns bvec'[j] == X(j) for 0 <= j < n, amat'[6j] == 1/D(j), amat'[i+5j] == L(i,j), all subscripts in range.
      D, L, Y, Z, X and the partial sums SD, SL, SY, SX are *spec functions* (uninterpreted, with their defining equations --
      a well-founded recursion on the column / row index -- instantiated at the terms that occur in an obligation).
      A(i,j) = amat0[i+5j].
  (2) Lean: these recurrences imply  sum_j Asym(i,j) X(j) == b(i)  for every i < n (theorem LDLT.ldlt_solves, any field, so
      real and complex at once) and, for non-zero pivots D(j), that the solution is unique (LDLT.ldlt_unique).

The bridge obligations at the end state the recurrences in exactly the form of the Lean hypotheses (L(i,j) D(j) = ..., Z(j) D(j) = Y(j))
under the documented precondition D(j) != 0 (non-zero pivots).
"""
import z3

from pyvc import sx, ob, intake
from .c03 import PROP

I, RS = sx.I, sx.RS
A0 = z3.Function('A0', I, RS)            # amat on entry, by storage cell
B0 = z3.Function('B0', I, RS)            # bvec on entry
D = z3.Function('D', I, RS)
L = z3.Function('L', I, I, RS)
Y = z3.Function('Y', I, RS)
Z = z3.Function('Z', I, RS)
Xs = z3.Function('X', I, RS)
SD = z3.Function('SD', I, I, RS)         # SD(j,k)   = sum_{q in [lo(j), k)} L(j,q)^2 D(q)
SL = z3.Function('SL', I, I, I, RS)      # SL(i,j,k) = sum_{q in [lo(i), k)} L(i,q) L(j,q) D(q)
SY = z3.Function('SY', I, I, RS)         # SY(j,k)   = sum_{q in [lo(j), k)} L(j,q) Y(q)
SX = z3.Function('SX', I, I, RS)         # SX(j,k)   = sum_{q in [j+1, k)} L(q,j) X(q)
N = z3.Int('n')

EXPECTED_LOOPS = 11


def mx(a, b):
    return z3.If(a >= b, a, b)


def mn(a, b):
    return z3.If(a <= b, a, b)


def lo(j):
    return mx(z3.IntVal(0), j - 5)


def hi(j):
    return mn(N, j + 6)


# ------------------------------------------------------------------ defining equations of the spec functions
def ax_for(decl, a):
    """instances of the defining equations triggered by an application decl(*a)"""
    nm = decl.name()
    if nm == 'D':
        j, = a
        return [z3.Implies(z3.And(0 <= j, j < N), D(j) == A0(6 * j) - SD(j, j))]
    if nm == 'L':
        i, j = a
        return [z3.Implies(z3.And(0 <= j, j < i, i < hi(j)), L(i, j) == (A0(i + 5 * j) - SL(i, j, j)) * sx.RCP(D(j)))]
    if nm == 'Y':
        j, = a
        return [z3.Implies(z3.And(0 <= j, j < N), Y(j) == B0(j) - SY(j, j))]
    if nm == 'Z':
        j, = a
        return [z3.Implies(z3.And(0 <= j, j < N), Z(j) == Y(j) * sx.RCP(D(j)))]
    if nm == 'X':
        j, = a
        return [z3.Implies(z3.And(0 <= j, j < N), Xs(j) == Z(j) - SX(j, hi(j)))]
    if nm == 'SD':
        j, k = a
        return [z3.Implies(0 <= j, SD(j, lo(j)) == 0)] + \
               [z3.Implies(z3.And(0 <= j, lo(j) <= q, q < j), SD(j, q + 1) == SD(j, q) + L(j, q) * L(j, q) * D(q)) for q in (k, k - 1)]
    if nm == 'SL':
        i, j, k = a
        return [z3.Implies(z3.And(0 <= j, j < i), SL(i, j, lo(i)) == 0)] + \
               [z3.Implies(z3.And(0 <= j, j < i, lo(i) <= q, q < j), SL(i, j, q + 1) == SL(i, j, q) + L(i, q) * L(j, q) * D(q)) for q in (k, k - 1)]
    if nm == 'SY':
        j, k = a
        return [z3.Implies(0 <= j, SY(j, lo(j)) == 0)] + \
               [z3.Implies(z3.And(0 <= j, lo(j) <= q, q < j), SY(j, q + 1) == SY(j, q) + L(j, q) * Y(q)) for q in (k, k - 1)]
    if nm == 'SX':
        j, k = a
        return [z3.Implies(0 <= j, SX(j, j + 1) == 0)] + \
               [z3.Implies(z3.And(0 <= j, j + 1 <= q, q < hi(j)), SX(j, q + 1) == SX(j, q) + L(q, j) * Xs(q)) for q in (k, k - 1)]
    return []


SPEC_NAMES = ('D', 'L', 'Y', 'Z', 'X', 'SD', 'SL', 'SY', 'SX')


def spec_instances(formulas, rounds=2):
    """defining equations instantiated at every application of a spec function in the formulas (and, `rounds` times, in the
    instances themselves)"""
    seen_apps, out, seen_ax = {}, [], set()
    frontier = list(formulas)
    for _ in range(rounds):
        apps = []
        visited = set()

        def walk(e):
            if e.get_id() in visited:
                return
            visited.add(e.get_id())
            if z3.is_app(e):
                if e.decl().kind() == z3.Z3_OP_UNINTERPRETED and e.num_args() > 0 and e.decl().name() in SPEC_NAMES:
                    key = (e.decl().name(),) + tuple(str(z3.simplify(c)) for c in e.children())
                    if key not in seen_apps:
                        seen_apps[key] = e
                        apps.append(e)
                for c in e.children():
                    walk(c)
        for f in frontier:
            walk(f)
        new = []
        for e in apps:
            for ax in ax_for(e.decl(), [z3.simplify(c) for c in e.children()]):
                k = ax.sexpr()
                if k not in seen_ax:
                    seen_ax.add(k)
                    new.append(ax)
        out += new
        frontier = new
        if not new:
            break
    return out


# ------------------------------------------------------------------ the invariants (functional: state as a function of the cell)
def cr(cell):
    return cell / 6, cell % 6


def fact_done(cell, jb, ib):
    """storage cell belongs to a finished part of the factorisation: columns < jb, and rows < ib of column jb"""
    c, r = cr(cell)
    return z3.And(0 <= cell, c + r < N, z3.Or(c < jb, z3.And(c == jb, c + r < ib)))


def F(cell, jb, ib):
    """amat during the factorisation (loops 0-4)"""
    c, r = cr(cell)
    return z3.If(fact_done(cell, jb, ib), z3.If(r == 0, D(c), L(c + r, c)), A0(cell))


def G(cell, j):
    """amat while the diagonal is replaced by its reciprocal (loop 5: downwards, cells 6c with c > j are done) and afterwards (j = -1)"""
    c, r = cr(cell)
    return z3.If(z3.And(0 <= cell, c + r < N), z3.If(r == 0, z3.If(c > j, sx.RCP(D(c)), D(c)), L(c + r, c)), A0(cell))


def arr_claim(ex, name, fn, length):
    q = z3.Int(f'q_{name}')
    a = ex.env[name]
    return z3.Implies(z3.And(0 <= q, q < length), a.read([q]) == fn(q))


def set_arr(ex, name, fn):
    ex.env[name].st = sx.ArrState(lambda q: fn(q))


def policies():
    """loop ordinal -> ('inv', label, dict(install, claims)); the ordinals are those of the current source (pre-order)"""
    P = {}

    def pol(k, label, install, claims):
        P[k] = ('inv', label, dict(install=install, claims=claims))
    e = lambda ex, nm: sx.R(ex.env[nm])

    # 0: first column   for i in range(1, min(n, 6)): amat[i] *= d
    pol(0, 'L0_first_column',
        lambda ex, v: set_arr(ex, 'amat', lambda q: F(q, 0, v)),
        lambda ex, v: [('amat', arr_claim(ex, 'amat', lambda q: F(q, 0, v), 6 * N))])
    # 1: columns j = 1..n-1
    def inst1(ex, v):
        set_arr(ex, 'amat', lambda q: F(q, v, v))
        ex.env['d'] = sx.RCP(D(v - 1))
        ex.env['h'] = z3.Real(f'h_any{next(ex.fresh)}')
    pol(1, 'L1_columns', inst1,
        lambda ex, v: [('amat', arr_claim(ex, 'amat', lambda q: F(q, v, v), 6 * N)),
                       ('d_is_reciprocal_of_previous_pivot', sx.toreal(ex.env['d']) == sx.RCP(D(v - 1)))])
    # 2: diagonal sum
    pol(2, 'L2_diag_sum',
        lambda ex, v: ex.env.__setitem__('h', SD(e(ex, 'j'), v)),
        lambda ex, v: [('h', sx.toreal(ex.env['h']) == SD(e(ex, 'j'), v))])
    # 3: rows of column j
    def inst3(ex, v):
        set_arr(ex, 'amat', lambda q: F(q, e(ex, 'j'), v))
        ex.env['h'] = z3.Real(f'h_any{next(ex.fresh)}')
    pol(3, 'L3_rows', inst3,
        lambda ex, v: [('amat', arr_claim(ex, 'amat', lambda q: F(q, e(ex, 'j'), v), 6 * N))])
    # 4: off-diagonal sum
    pol(4, 'L4_offdiag_sum',
        lambda ex, v: ex.env.__setitem__('h', SL(e(ex, 'i'), e(ex, 'j'), v)),
        lambda ex, v: [('h', sx.toreal(ex.env['h']) == SL(e(ex, 'i'), e(ex, 'j'), v))])
    # 5: diagonal -> reciprocal, downwards
    pol(5, 'L5_invert_diagonal',
        lambda ex, v: set_arr(ex, 'amat', lambda q: G(q, v)),
        lambda ex, v: [('amat', arr_claim(ex, 'amat', lambda q: G(q, v), 6 * N))])
    # 6: forward substitution
    def inst6(ex, v):
        set_arr(ex, 'bvec', lambda q: z3.If(z3.And(0 <= q, q < v), Y(q), B0(q)))
        ex.env['h'] = z3.Real(f'h_any{next(ex.fresh)}')
    pol(6, 'L6_forward', inst6,
        lambda ex, v: [('bvec', arr_claim(ex, 'bvec', lambda q: z3.If(z3.And(0 <= q, q < v), Y(q), B0(q)), N))])
    pol(7, 'L7_forward_sum',
        lambda ex, v: ex.env.__setitem__('h', SY(e(ex, 'j'), v)),
        lambda ex, v: [('h', sx.toreal(ex.env['h']) == SY(e(ex, 'j'), v))])
    # 8: divide by the diagonal
    pol(8, 'L8_diagonal_scaling',
        lambda ex, v: set_arr(ex, 'bvec', lambda q: z3.If(z3.And(0 <= q, q < v), Z(q), Y(q))),
        lambda ex, v: [('bvec', arr_claim(ex, 'bvec', lambda q: z3.If(z3.And(0 <= q, q < v), Z(q), Y(q)), N))])
    # 9: backward substitution, downwards
    def inst9(ex, v):
        set_arr(ex, 'bvec', lambda q: z3.If(q > v, Xs(q), Z(q)))
        ex.env['h'] = z3.Real(f'h_any{next(ex.fresh)}')
    pol(9, 'L9_backward', inst9,
        lambda ex, v: [('bvec', arr_claim(ex, 'bvec', lambda q: z3.If(q > v, Xs(q), Z(q)), N))])
    pol(10, 'L10_backward_sum',
        lambda ex, v: ex.env.__setitem__('h', SX(e(ex, 'j'), v)),
        lambda ex, v: [('h', sx.toreal(ex.env['h']) == SX(e(ex, 'j'), v))])
    return P


def run_solve(col):
    fn = col.function('core.solve')
    if [a.arg for a in fn.args.args] != ['amat', 'bvec']:
        raise sx.OutsideSubset('core.solve signature changed')
    loops = intake.loops_preorder(fn)
    if len(loops) != EXPECTED_LOOPS:
        raise sx.OutsideSubset(f'core.solve: the contract has invariants for {EXPECTED_LOOPS} loops, the source has {len(loops)}')
    X = sx.Ex('core', pc=[N >= 1], loops=policies())
    amat = X.new_array('amat', (6 * N,), base=lambda q: A0(q))
    bvec = X.new_array('bvec', (N,), base=lambda q: B0(q))
    X.run_function(fn, [amat, bvec])
    return X, amat, bvec


def task_solve_symbolic():
    col = ob.Collector(PROP, 'core.solve/symbolic_n')
    X, amat, bvec = run_solve(col)
    base = [N >= 1]
    col.satisfiable('hyps-sat', base)
    if len(X.inv_obligations) < 2 * EXPECTED_LOOPS:
        raise sx.OutsideSubset('core.solve: fewer invariant obligations than loops')
    for oid, hyps, goal in X.inv_obligations:
        col.lia(oid, list(hyps) + spec_instances(list(hyps) + [goal]), goal, sample=oid.endswith('L4_offdiag_sum/preservation/h'))
    # ---- postcondition: the final state (invariants at the exit values)
    q = z3.Int('q')
    hy = list(X.pc)
    post_b = z3.Implies(z3.And(0 <= q, q < N), bvec.read([q]) == Xs(q))
    col.lia('post/bvec_holds_X', hy + spec_instances(hy + [post_b]), post_b, sample=True)
    c, r = cr(q)
    post_a = z3.Implies(z3.And(0 <= q, q < 6 * N),
                        amat.read([q]) == z3.If(c + r < N, z3.If(r == 0, sx.RCP(D(c)), L(c + r, c)), A0(q)))
    col.lia('post/amat_holds_the_factors_and_reciprocal_pivots', hy + spec_instances(hy + [post_a]), post_a)
    # ---- every subscript inside its array
    by = {}
    for b in X.bounds:
        by.setdefault((b['arr'], b['kind']), []).append(b)
    for (name, kind), bs in sorted(by.items()):
        goals = []
        for b in bs:
            g = z3.And(*[z3.And(0 <= i_, i_ < s_) for i_, s_ in zip(b['idx'], b['shape'])])
            goals.append(z3.Implies(z3.And(*b['hyps']), g))
        col.lia(f'bounds/{name}_{kind}', [], z3.And(*goals))
    col.lia('bounds/subscripts_recorded', [], z3.BoolVal(len(X.bounds) >= 30))
    # ---- bridge to the hypotheses of the Lean lemma (non-zero pivots: documented precondition)
    i, j = z3.Ints('i j')
    piv = [z3.Implies(z3.And(0 <= t, t < N), D(t) != 0) for t in (i, j)]
    rcpax = [z3.Implies(D(t) != 0, D(t) * sx.RCP(D(t)) == 1) for t in (i, j)]
    g1 = z3.Implies(z3.And(0 <= j, j < i, i < N, i <= j + 5), L(i, j) * D(j) == A0(i + 5 * j) - SL(i, j, j))
    col.lia('bridge/hL_L_times_D_is_A_minus_partial_sum', base + piv + rcpax + spec_instances([g1]), g1)
    g2 = z3.Implies(z3.And(0 <= j, j < N), Z(j) * D(j) == Y(j))
    col.lia('bridge/hZ_Z_times_D_is_Y', base + piv + rcpax + spec_instances([g2]), g2)
    g3 = z3.Implies(z3.And(0 <= j, j < N), z3.And(D(j) == A0(6 * j) - SD(j, j), Y(j) == B0(j) - SY(j, j), Xs(j) == Z(j) - SX(j, hi(j))))
    col.lia('bridge/hD_hY_hX_definitions', base + spec_instances([g3]), g3)
    # ranges of the partial sums are well-formed (lo <= hi), as partial_sum_eq requires
    g4 = z3.Implies(z3.And(0 <= j, j < i, i < N, i <= j + 5), z3.And(lo(j) <= j, lo(i) <= j, j + 1 <= hi(j)))
    col.lia('bridge/partial_sum_ranges_are_ordered', base, g4)
    # ---- canaries: a wrong recurrence must not be provable
    bad = z3.Implies(z3.And(0 <= q, q < N), bvec.read([q]) == Z(q))
    col.canary_lia('canary/bvec_is_not_Z', hy + spec_instances(hy + [bad]) + [N >= 2], bad)
    for oid, hyps, goal in X.inv_obligations:
        if oid.endswith('L4_offdiag_sum/preservation/h'):
            # drop the defining equations: the step must not be provable without them
            col.canary_lia('canary/offdiag_sum_needs_the_defining_equation', list(hyps), goal)
    return col.pack()


def tasks(tier):
    return [('contracts.c03_solve', 'task_solve_symbolic', {})]
