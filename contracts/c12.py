"""C12 -- simulation results are a function of model and survey, not of call history.

Representation invariant INV(sim) over provenance tags (taint analysis of the control executor):
  I1  every cached efield[s][f] was computed from the CURRENT model for slot (s,f)
  I2  _computed  =>  every slot has an efield and data.synthetic was filled from exactly these
  I3  data.residual (if present) was computed from the current synthetic and observed data, nothing else
  I4  _misfit (if cached) was computed from the current synthetic / observed / standard deviation
  I5  _gradient (if cached) was computed from back-propagated fields whose adjoint sources came from the
      coherent residual (I3) and the current model
  I6  bfield dictionaries (if present) hold only such fields
Every public operation is executed by the control executor on the real source from each abstract
pre-state satisfying INV (plain, computed, misfit cached, gradient cached, partially computed) with an
arbitrary history value in solver_opts['tol'], and must re-establish INV; forward tasks must use
tol_forward, back-propagation / jvec tasks tol_gradient.
"""
import itertools
import os

import z3

from pyvc import cx, ob
from .cxutil import clause
from .c13 import ds_hook

PROP = 'C12'
SRC, FRQ = 'TxED-1', 'f-1'
PRE = ('plain', 'computed', 'misfit', 'gradient', 'partial', 'results_only', 'gradient_results_only', 'computed_old_weights', 'misfit_loaded', 'gradient_loaded')
# gradient_results_only: a cached gradient whose back-propagated fields are gone (after clean('keepresults'), copy / to_dict / to_file(what='results'))
# computed_old_weights:  data weights left in the survey by an earlier misfit evaluation (they are only written when absent)
# misfit_loaded / gradient_loaded: the states misfit / gradient as they come back from to_file / from_file: the cached misfit is a plain NumPy scalar
#                        or 0-d array (its .data is a view of its memory, not the number)


def E_tag(mv):
    return ('E', mv, SRC, FRQ)


def field_obj(tags):
    f = cx.Obj('Field', {}, mod='fields')
    st = cx.Store('field-storage')
    st.deps = set(tags)
    f.fields['_field'] = cx.NDArr(st)
    f.fields['field'] = f.fields['_field']
    f.fields['grid'] = cx.Obj('TensorMesh', dict(shape_cells=(z3.Int('g0'), z3.Int('g1'), z3.Int('g2'))))
    for c in 'xyz':
        f.fields['f' + c] = cx.NDArr(st, view=('comp', c))
    f.fields['smu0'] = z3.Real('smu0')
    f.fields['__tags__'] = set(tags)
    return f


_CTOR_ATTRS = None


def constructor_attributes():
    """names assigned as self.<name> in the current source of Simulation.__init__"""
    global _CTOR_ATTRS
    if _CTOR_ATTRS is None:
        import ast
        from pyvc import intake
        node, _, _ = intake.func('simulations.Simulation.__init__')
        out = set()
        for n in ast.walk(node):
            tg = n.targets if isinstance(n, ast.Assign) else [n.target] if isinstance(n, (ast.AugAssign, ast.AnnAssign)) else []
            for t in tg:
                for e in (t.elts if isinstance(t, ast.Tuple) else [t]):
                    if isinstance(e, ast.Attribute) and isinstance(e.value, ast.Name) and e.value.id == 'self':
                        out.add(e.attr)
        _CTOR_ATTRS = out
    return set(_CTOR_ATTRS)


def mk_sim(pre, mv=0, case='isotropic'):
    obs = cx.DArr(cx.Store('data.observed', z3.Real('d_obs')))
    obs.store.deps = {('OBS',)}
    syn = cx.DArr(cx.Store('data.synthetic', None))
    items = {'observed': obs, 'synthetic': syn}
    attrs = {'noise_floor': z3.Real('nf'), 'relative_error': None}
    ds = cx.Obj('Dataset', {'__items__': items, 'attrs': attrs})
    survey = cx.Obj('Survey', {'_data': ds, 'sources': {SRC: cx.Obj('TxElectricDipole', {})}, 'receivers': {'RxEP-1': cx.Obj('RxElectricPoint', {})},
                               'frequencies': {FRQ: 1.0}, 'shape': cx.Opaque('shape')}, mod='surveys')
    model = cx.Obj('Model', dict(mv=mv, case=case, epsilon_r=None, mu_r=None, grid=cx.Obj('TensorMesh', {}), shape=(z3.Int('n0'), z3.Int('n1'), z3.Int('n2')),
                                 map=cx.Obj('MapResistivity', {}, mod='maps'), property_x=cx.NDArr(cx.Store('px')), property_y=None, property_z=None))
    model.fields['__tags__'] = {('M', mv)}
    sim = cx.Obj('Simulation', dict(
        survey=survey, model=model, max_workers=1, gridding='same', verb=0, layered=False, receiver_interpolation='linear',
        solver_opts={'verb': 1, 'log': -1, 'return_info': True, 'tol': z3.Real('tol_from_history')},
        tol_forward=z3.Real('tol_forward'), tol_gradient=z3.Real('tol_gradient'), file_dir=None, _tqdm_opts={},
        _dict_grid={SRC: {FRQ: None}}, _dict_efield={SRC: {FRQ: None}}, _dict_efield_info={SRC: {FRQ: None}},
        _gradient=None, _misfit=None, _computed=False, _srcfreq=[(SRC, FRQ)], _input_sc2=None, gridding_opts={}), mod='simulations')
    sim.fields['__strict__'] = True
    # attributes the real constructor sets but this abstract state does not model: reading one makes the path undecided (a new cache added
    # to the class must not be mistaken for an AttributeError of the code under contract)
    sim.fields['__unmodelled__'] = constructor_attributes() - set(sim.fields)
    st = sim.fields
    orig_pre = pre
    if pre == 'results_only':        # after clean('keepresults'): responses, misfit kept; fields dropped
        pre_ = 'misfit'
    elif pre == 'gradient_results_only':
        pre_ = 'gradient'
    elif pre == 'computed_old_weights':
        pre_ = 'computed'
    elif pre in ('misfit_loaded', 'gradient_loaded'):
        pre_ = pre[:-7]
    else:
        pre_ = pre
    if pre_ in ('computed', 'misfit', 'gradient', 'partial') and pre not in ('results_only', 'gradient_results_only'):
        st['_dict_efield'][SRC][FRQ] = field_obj({E_tag(mv)})
        st['_dict_efield_info'][SRC][FRQ] = {'exit': 0}
    pre = pre_
    if pre in ('computed', 'misfit', 'gradient'):
        st['_computed'] = True
        syn.store.deps = {E_tag(mv)}
    if pre in ('misfit', 'gradient'):
        res = cx.DArr(cx.Store('data.residual', None))
        res.store.deps = {E_tag(mv), ('OBS',)}
        w = cx.DArr(cx.Store('data.weights', None))
        w.store.deps = {('OBS',)}
        items['residual'], items['weights'] = res, w
        mf = cx.Opaque('misfit-value')
        mf.tags = {E_tag(mv), ('OBS',)}
        st['_misfit'] = cx.DArr(cx.Store('misfit-scalar'))
        st['_misfit'].store.deps = {E_tag(mv), ('OBS',)}
        if orig_pre.endswith('_loaded'):
            st['_misfit'] = cx.NDArr(st['_misfit'].store)
            st['_misfit'].plain = True
    if orig_pre == 'computed_old_weights':
        w = cx.DArr(cx.Store('data.weights', None))
        w.store.deps = {('WEIGHTS-OF-AN-EARLIER-EVALUATION',)}
        items['weights'] = w
    if pre == 'gradient':
        rt = ('R', frozenset({E_tag(mv), ('OBS',)}), mv)
        if orig_pre != 'gradient_results_only':
            st['_dict_bfield'] = {SRC: {FRQ: field_obj({rt})}}
            st['_dict_bfield_info'] = {SRC: {FRQ: {'exit': 0}}}
        g = cx.NDArr(cx.Store('gradient'))
        g.store.deps = {rt, E_tag(mv)}
        st['_gradient'] = g
    return sim, ds


def summaries(log):
    def process_map(it, args, kw, node):
        fn, tasks = args[0], args[1]
        out = []
        for t in tasks:
            log.append(('task', kw.get('desc'), dict(t), t['solver_opts'].get('tol')))
            mv = t['model'].fields['mv']
            if 'sfield' in t:          # back-propagation / jvec: source field given
                tags = set(cx.deps_of(t['sfield'])) | {('M', mv)}
                f = field_obj({('B', frozenset(tags))} | {x for x in tags if x[0] == 'R'})
            else:
                f = field_obj({E_tag(mv)})
            out.append((f, {'exit': 0}))
        return out

    def get_grid(it, args, kw, node):
        return cx.Obj('TensorMesh', dict(shape_cells=(z3.Int('g0'), z3.Int('g1'), z3.Int('g2'))))

    def get_responses(it, args, kw, node):
        # effective parameters by name (positional and keyword forms are the same call)
        names = ['self', 'source', 'frequency', 'efield']
        b = dict(zip(names, args))
        b.update(kw)
        self, src, freq, ef = b['self'], b['source'], b['frequency'], b.get('efield')
        if ef is None:
            ef = self.fields['_dict_efield'][src][freq]
        r = cx.NDArr(cx.Store('responses'))
        r.store.deps = set(cx.deps_of(ef))
        return r

    def get_rfield(it, args, kw, node):
        self = args[0]
        items = self.fields['survey'].fields['_data'].fields['__items__']
        tag = ('R', frozenset(items['residual'].store.deps), self.fields['model'].fields['mv'])
        f = field_obj({tag})
        log.append(('rfield', tag, frozenset(items['weights'].store.deps)))
        return f

    def bound(q, args, kw):
        """parameter name -> value by the signature read from the current source (positional and keyword forms are the same call)"""
        from .c0910 import bind_call
        try:
            return bind_call(q, list(args), dict(kw))
        except Exception as e:
            raise cx.Unsupported(f'call of {q} cannot be bound to its signature ({e})')

    def field(it, args, kw, node):
        return field_obj(cx.deps_of(bound('fields.Field', args, kw).get('data')))

    def edges_to_vol(it, args, kw, node):
        kw = bound('maps.interp_edges_to_vol_averages', args, kw)
        tags = cx.deps_of(kw.get('ex')) | cx.deps_of(kw.get('ey')) | cx.deps_of(kw.get('ez'))
        for k in ('ox', 'oy', 'oz'):
            o = kw.get(k)
            if isinstance(o, cx.NDArr):
                o.store.deps |= tags
                o.store.version += 1
                it.ctx.event('mutate', store=o.store, line=0, how='interp_edges_to_vol_averages', target=k, arr=o)
        return None

    def vol_adj(it, args, kw, node):
        kw = bound('maps._interp_volume_average_adj', args, kw)
        o = kw.get('oval')
        o.store.deps |= cx.deps_of(kw.get('nval'))
        return None

    def chain(it, args, kw, node):
        b = dict(zip(['self', 'gradient', 'mapped'], args))
        b.update(kw)
        g = b.get('gradient')
        if isinstance(g, cx.NDArr):
            g.store.deps |= cx.deps_of(b.get('mapped'))
        return None

    def quiet(it, args, kw, node):
        return None

    def interpolate(it, args, kw, node):
        kw = bound('maps.interpolate', args, kw)
        r = cx.NDArr(cx.Store('interpolated'))
        r.store.deps = set(cx.deps_of(kw.get('values')))
        return r
    def data_or_file(it, args, kw, node):
        # the moment the inputs of a task leave the simulation (with file_dir they are written to disk HERE): snapshot of the tolerance
        data = args[4] if len(args) > 4 else kw.get('data')
        what = args[1] if len(args) > 1 else kw.get('what')
        so = data.get('solver_opts') if isinstance(data, dict) else None
        log.append(('handover', what, so.get('tol') if isinstance(so, dict) else None, 'sfield' in data if isinstance(data, dict) else None))
        return data
    d = {'_multiprocessing.process_map': process_map, 'simulations.Simulation.get_grid': get_grid,
         'simulations.Simulation._data_or_file': data_or_file,
         'simulations.Simulation._get_responses': get_responses, 'simulations.Simulation._get_rfield': get_rfield,
         'fields.Field': field, 'maps.interp_edges_to_vol_averages': edges_to_vol, 'maps._interp_volume_average_adj': vol_adj,
         'simulations.Simulation.print_solver_info': quiet, 'maps.interpolate': interpolate,
         'surveys.Survey.add_noise': quiet}
    for m in ('BaseMap', 'MapResistivity', 'MapConductivity'):
        d[f'maps.{m}.derivative_chain'] = chain
    return d


def coherent(sim):
    items = sim.fields['survey'].fields['_data'].fields['__items__']
    return frozenset(items['synthetic'].store.deps | items['observed'].store.deps)


def inv(sim, why=None):
    """INV(sim): returns (ok, reason)"""
    st = sim.fields
    mv = st['model'].fields['mv']
    items = st['survey'].fields['_data'].fields['__items__']
    cur_E = E_tag(mv)

    def stale(tags):
        for t in tags:
            if t[0] == 'E' and t[1] != mv:
                return True
            if t[0] == 'M' and t[1] != mv:
                return True
            if t[0] == 'R' and (t[2] != mv or any(x[0] == 'E' and x[1] != mv for x in t[1])):
                return True
            if t[0] == 'B' and stale(t[1]):
                return True
        return False
    ef = st['_dict_efield'][SRC][FRQ]
    if ef is not None and (cx.deps_of(ef) != {cur_E}):
        return False, f'I1: cached efield has provenance {cx.deps_of(ef)}'
    syn = items.get('synthetic')
    if st['_computed']:
        # (clean('keepresults') legitimately drops the fields but keeps the responses)
        if syn is None or syn.store.deps != {cur_E}:
            return False, f'I2: synthetic data provenance {None if syn is None else syn.store.deps}'
    elif syn is not None and stale(syn.store.deps):
        return False, 'I2: stale synthetic data'
    if 'residual' in items:
        if 'weights' not in items:
            return False, 'I3: residual without weights'
        if frozenset(items['residual'].store.deps) != coherent(sim):
            return False, f"I3: data.residual has provenance {set(items['residual'].store.deps)}, coherent would be {set(coherent(sim))}"
    if st['_misfit'] is not None:
        if not st['_computed']:
            return False, 'I4: misfit cached but not computed'
        d = cx.deps_of(st['_misfit'])
        if stale(d) or cur_E not in d or 'residual' not in items:
            return False, f'I4: misfit provenance {d}'
    if st['_gradient'] is not None:
        d = cx.deps_of(st['_gradient'])
        rt = [t for t in d if t[0] == 'R'] + [x for t in d if t[0] == 'B' for x in t[1] if x[0] == 'R']
        if stale(d) or not rt or any(t[1] != coherent(sim) for t in rt) or st['_misfit'] is None:
            return False, f'I5: cached gradient was computed from adjoint sources {rt}; coherent residual is {set(coherent(sim))}'
    for nm in ('_dict_bfield',):
        if nm in st:
            b = st[nm][SRC][FRQ]
            if b is not None:
                d = cx.deps_of(b)
                rt = [t for t in d if t[0] == 'R'] + [x for t in d if t[0] == 'B' for x in t[1] if x[0] == 'R']
                if stale(d) or any(t[1] != coherent(sim) for t in rt):
                    return False, f'I6: stored back-propagated field from adjoint sources {rt}'
    if ('_dict_bfield' in st) != ('_dict_bfield_info' in st):
        return False, 'I6: bfield dictionaries out of sync'
    return True, ''


def plain(sim):
    st = sim.fields
    items = st['survey'].fields['_data'].fields['__items__']
    return (st['_computed'] is False and st['_misfit'] is None and st['_gradient'] is None and st['_dict_efield'][SRC][FRQ] is None
            and '_dict_bfield' not in st and 'residual' not in items and 'weights' not in items and not items['synthetic'].store.deps)


def run_op(op, pre, case='isotropic'):
    """all paths of one public operation from one abstract pre-state"""
    def run(ctx):
        log = []
        ctx.opts['getattr_hook'] = ds_hook
        ctx.summaries.update(summaries(log))
        sim, ds = mk_sim(pre, case=case)
        it = cx.Interp(ctx, 'simulations')
        st = dict(sim=sim, log=log, pre=pre, op=op)
        ok0, why0 = inv(sim)
        if not ok0:
            raise RuntimeError(f'pre-state {pre} does not satisfy INV: {why0}')
        try:
            if op == 'compute':
                v = it.call(it.getattr(sim, 'compute'), [], {})
            elif op in ('misfit', 'gradient'):
                v = it.getattr(sim, op)
            elif op == 'get_efield':
                v = it.call(it.getattr(sim, 'get_efield'), [SRC, FRQ], {})
            elif op.startswith('clean_'):
                v = it.call(it.getattr(sim, 'clean'), [op[6:]], {})
            elif op == 'jtvec':
                vec = cx.NDArr(cx.Store('user-vector'))
                vec.store.deps = {('USERVEC',)}
                v = it.call(it.getattr(sim, 'jtvec'), [vec], {})
            elif op == 'jvec':
                vec = cx.NDArr(cx.Store('user-model-vector'))
                vec.store.deps = {('USERVEC',)}
                v = it.call(it.getattr(sim, 'jvec'), [vec], {})
            elif op == 'model_update':
                new = cx.Obj('Model', dict(sim.fields['model'].fields))
                new.fields['mv'] = 1
                new.fields['__tags__'] = {('M', 1)}
                it.setattr(sim, 'model', new)
                v = it.call(it.getattr(sim, 'clean'), ['computed'], {})
            elif op == 'canary_model_update_without_clean':
                new = cx.Obj('Model', dict(sim.fields['model'].fields))
                new.fields['mv'] = 1
                new.fields['__tags__'] = {('M', 1)}
                it.setattr(sim, 'model', new)
                v = None
            elif op == 'to_dict':
                for o in list(sim.fields['survey'].fields['sources'].values()) + list(sim.fields['survey'].fields['receivers'].values()):
                    o.fields['to_dict'] = cx.Closure(__import__('ast').parse('lambda: {}').body[0].value, {}, it)
                sim.fields['model'].fields['to_dict'] = cx.Closure(__import__('ast').parse('lambda: {}').body[0].value, {}, it)
                sim.fields['survey'].fields.update(name=None, date=None, info=None)
                sim.fields.update(name=None, info=None, layered_opts={})
                v = it.call(it.getattr(sim, 'to_dict'), ['computed', False], {})
            elif op in ('reload', 'reload_results'):
                # Simulation.from_dict(sim.to_dict(what='computed')) -- the step every copy(), to_file / from_file and CLI --load / --cache goes through.
                # Survey / Model.to_dict / from_dict give back an equal survey / model (assumed; here: the object itself); the constructor gives a
                # simulation in the plain state for them (its own contract: run_op('compute', 'plain') etc. start from that state)
                from pyvc import intake
                for o in list(sim.fields['survey'].fields['sources'].values()) + list(sim.fields['survey'].fields['receivers'].values()):
                    o.fields['to_dict'] = cx.Closure(__import__('ast').parse('lambda: {}').body[0].value, {}, it)
                sim.fields.update(name=None, info=None, layered_opts={})
                sim.fields['model'].mod = 'models'

                def obj_to_dict(it_, args, kw, node):
                    return {'__the_object__': args[0]}

                def obj_from_dict(it_, args, kw, node):
                    d_ = args[-1]
                    if not (isinstance(d_, dict) and '__the_object__' in d_):
                        raise cx.Unsupported('Survey / Model.from_dict is not handed the dictionary of Survey / Model.to_dict')
                    return d_['__the_object__']

                def new_simulation(it_, args, kw, node):
                    from .c0910 import bind_call
                    b = bind_call('simulations.Simulation', list(args), dict(kw))
                    new, _ = mk_sim('plain')
                    new.fields['survey'], new.fields['model'] = b.get('survey'), b.get('model')
                    st['constructed_with'] = b
                    return new
                ctx.summaries.update({'surveys.Survey.to_dict': obj_to_dict, 'models.Model.to_dict': obj_to_dict, 'surveys.Survey.from_dict': obj_from_dict,
                                      'models.Model.from_dict': obj_from_dict, 'simulations.Simulation': new_simulation, 'io._dict_deserialize': lambda it_, a, k, n: None})
                d = it.call(it.getattr(sim, 'to_dict'), ['computed' if op == 'reload' else 'results', False], {})
                fnode, _, _ = intake.func('simulations.Simulation.from_dict')
                v = it.call(cx.Closure(fnode, {}, it, qualname='simulations.Simulation.from_dict', self_obj=cx.ClassRef('simulations', 'Simulation')), [d], {})
                st['reloaded'] = v
            else:
                raise RuntimeError(op)
        except cx._Raise as e:
            return 'raise', e.exc, st
        return 'return', v, st
    return cx.explore(run)


OPS = ('compute', 'misfit', 'gradient', 'get_efield', 'clean_computed', 'clean_keepresults', 'clean_all', 'jtvec', 'jvec', 'model_update', 'to_dict', 'reload', 'reload_results')


def replay(d):
    from . import c12_concrete
    return ob.guarded(c12_concrete.check, 'quick', 0)


def task_op(op):
    col = ob.Collector(PROP, f'simulations.Simulation/{op}')
    col.default_replay = replay
    for f in ('compute', '_compute', 'misfit', 'gradient', '_bcompute', 'clean', 'jtvec', 'jvec', 'get_efield', 'to_dict'):
        col.function(f'simulations.Simulation.{f}')
    res = []
    for pre in PRE:
        if op == 'jtvec' and pre in ('plain', 'computed', 'partial', 'computed_old_weights'):
            continue       # jtvec needs weights: documented to be used with the weighted residual after a misfit evaluation
        res += run_op(op, pre)
    if op in ('reload', 'reload_results'):
        for r in res:
            if r.outcome == 'return' and isinstance(r.state.get('reloaded'), cx.Obj):
                r.state['original'], r.state['sim'] = r.state['sim'], r.state['reloaded']
                r.state['sim_for_state'] = r.state['original']
    bad = {}
    for r in res:
        if r.outcome == 'return':
            ok, why = inv(r.state['sim'])
            if not ok:
                bad[r.state['pre']] = why

    def inv_ok(r):
        if r.outcome != 'return':
            return None
        return inv(r.state['sim'])[0]
    d = clause(col, 'invariant_reestablished_from_every_pre_state', res, inv_ok, sample=True)
    if bad:
        d['reason'] = '; '.join(f'from {k}: {v}' for k, v in bad.items())
    clause(col, 'no_exception_from_consistent_states', res,
           lambda r: r.outcome == 'return' or (op in ('misfit', 'gradient', 'jvec') and False))
    # the computed flag stands for ALL source-frequency pairs: only a full compute() may set it
    def flag_ok(r):
        if r.outcome != 'return':
            return None
        sim = r.state['sim']
        if sim.fields['_computed'] is not True or r.state['pre'] not in ('plain', 'partial'):
            return True
        full = False
        for e in r.events:
            if e['kind'] in ('call', 'call_inlined') and str(e['name']).endswith('Simulation.compute'):
                kw = dict(e['kwargs'])
                pos = list(e['args'])[1:] if e['args'] and e['args'][0] is sim else list(e['args'])
                src = kw.get('source', pos[0] if len(pos) > 0 else None)
                frq = kw.get('frequency', pos[1] if len(pos) > 1 else None)
                full = full or (src is None and frq is None)
        return full or op == 'compute'
    clause(col, 'computed_flag_is_only_set_by_a_computation_of_all_pairs', res, flag_ok)

    # tolerances handed to the solver tasks
    def tol_ok(r):
        gs = []
        for e in r.state['log']:
            if e[0] != 'task':
                continue
            t = e[3]
            want = r.state['sim'].fields['tol_forward'] if 'sfield' not in e[2] else r.state['sim'].fields['tol_gradient']
            if not cx.is_sym(t):
                return False
            gs.append(t == want)
            gs.append(z3.BoolVal(e[2]['model'] is r.state['sim'].fields['model']))
        return z3.And(*gs) if gs else z3.BoolVal(True)
    clause(col, 'forward_tasks_use_tol_forward__adjoint_and_jvec_tasks_tol_gradient__all_use_the_current_model', res, tol_ok)

    def handover_ok(r):
        # ... and they carry that tolerance already when their inputs are collected (file-based mode writes them to disk at that moment)
        gs = []
        for e in r.state['log']:
            if e[0] != 'handover':
                continue
            want = r.state['sim'].fields['tol_forward'] if not e[3] else r.state['sim'].fields['tol_gradient']
            if not cx.is_sym(e[2]):
                return False
            gs.append(e[2] == want)
        return z3.And(*gs) if gs else z3.BoolVal(True)
    clause(col, 'task_inputs_carry_their_tolerance_when_they_are_handed_over_to_memory_or_file', res, handover_ok)
    if op == 'model_update':
        # canary: replacing the model WITHOUT the clean must break the invariant from the computed states
        rc = run_op('canary_model_update_without_clean', 'gradient') + run_op('canary_model_update_without_clean', 'computed')
        col.canary_lia('canary/model_update_without_clean_breaks_invariant', [], z3.BoolVal(all(inv(r.state['sim'])[0] for r in rc)))
    if op in ('clean_computed', 'clean_all', 'model_update'):
        clause(col, 'leaves_the_plain_state', res, lambda r: plain(r.state['sim']) if r.outcome == 'return' else None)
    if op in ('misfit', 'gradient'):
        def same_weights(r):
            # the reported misfit and the adjoint sources are weighted with the SAME data weights (those held by the survey data)
            if r.outcome != 'return':
                return None
            sim = r.state['sim']
            items = sim.fields['survey'].fields['_data'].fields['__items__']
            if 'weights' not in items or sim.fields['_misfit'] is None:
                return False
            wd = set(items['weights'].store.deps)
            used = [set(e[2]) for e in r.state['log'] if e[0] == 'rfield']
            return wd <= set(cx.deps_of(sim.fields['_misfit'])) and all(u == wd for u in used)
        clause(col, 'misfit_and_adjoint_sources_use_the_same_data_weights', res, same_weights)
    if op == 'to_dict':
        def stored_tol(r):
            # whatever the shared solver options went through (gradient runs switch to tol_gradient), what is stored is the forward tolerance
            if r.outcome != 'return' or not isinstance(r.value, dict):
                return None if r.outcome != 'return' else False
            so = r.value.get('solver_opts')
            if not isinstance(so, dict) or not cx.is_sym(so.get('tol')):
                return False
            return so['tol'] == r.state['sim'].fields['tol_forward']
        clause(col, 'stored_solver_options_carry_the_forward_tolerance_whatever_the_history', res, stored_tol)
    if op in ('reload', 'reload_results'):
        def same_state(r):
            # what comes back from the dictionary is the simulation that went in: computed flag, cached misfit and gradient, fields and solver
            # information of every slot -- carried over as they are, nothing inferred, nothing dropped
            if r.outcome != 'return':
                return None
            a, b = r.state.get('original', r.state['sim']), r.state.get('reloaded')
            if not isinstance(b, cx.Obj) or b is a:
                return False
            A, B = a.fields, b.fields
            same = lambda x, y: (x is None and y is None) or (x is not None and y is not None and cx.deps_of(x) == cx.deps_of(y))
            ok = B['_computed'] is A['_computed'] and same(A['_misfit'], B['_misfit']) and same(A['_gradient'], B['_gradient'])
            ok = ok and B['survey'] is A['survey'] and B['model'] is A['model']
            for name in ('_dict_efield', '_dict_efield_info', '_dict_bfield', '_dict_bfield_info'):
                if op == 'reload_results':       # what='results': responses, misfit, gradient and the flag, but no fields
                    ok = ok and (name not in B or B[name][SRC][FRQ] is None)
                elif name in A:
                    ok = ok and name in B and B[name][SRC][FRQ] is A[name][SRC][FRQ]
            return ok
        clause(col, 'reloaded_simulation_has_the_computed_flag_the_cached_misfit_and_gradient_and_the_fields_of_the_original', res, same_state, sample=True)
    if op == 'misfit':
        def number(r):
            # what misfit hands back is the number (an array / scalar that stems from the coherent residual) -- also from a simulation that came
            # back from a file, whose cache is a plain NumPy value: never a view of its memory or another wrapper
            if r.outcome != 'return':
                return None
            return {E_tag(r.state['sim'].fields['model'].fields['mv']), ('OBS',)} <= set(cx.deps_of(r.value))
        clause(col, 'reported_misfit_is_the_number_computed_from_the_coherent_residual__also_when_the_cache_came_back_from_a_file', res, number)
        clause(col, 'misfit_is_cached_and_computed_state_reached', res,
               lambda r: (r.state['sim'].fields['_misfit'] is not None and r.state['sim'].fields['_computed'] is True) if r.outcome == 'return' else None)
    if op == 'gradient':
        clause(col, 'returned_gradient_stems_from_the_coherent_residual', res,
               lambda r: (r.value is r.state['sim'].fields['_gradient']) if r.outcome == 'return' else None)
    if op == 'jtvec':
        def jt(r):
            if r.outcome != 'return':
                return None
            d_ = cx.deps_of(r.value)
            rt = [t for t in d_ if t[0] == 'R'] + [x for t in d_ if t[0] == 'B' for x in t[1] if x[0] == 'R']
            return bool(rt) and all(('USERVEC',) in t[1] for t in rt)
        clause(col, 'returned_vector_is_the_adjoint_of_the_given_vector', res, jt)
    return col.pack()


def task_concrete():
    from . import c12_concrete
    col = ob.Collector(PROP, 'concrete')
    seed = int(os.environ.get('VERIF_SEED', '0'))
    tier = os.environ.get('VERIF_TIER', 'quick')
    r = ob.guarded(c12_concrete.check, tier, seed)
    col.concrete('operation_sequences_vs_fresh_simulation', r['reproduced'] is False, r,
                 bounded='operation sequences (length <= 5 quick / <= 8 thorough, seeded) over compute/misfit/gradient/jtvec/get_efield/clean/copy/to_dict/to_file+from_file (h5, npz, json)/model update on an 8x8x8 problem with tol != tol_gradient',
                 cases=r.get('cases', 0))
    return col.pack()


def tasks(tier):
    return [('contracts.c12', 'task_op', dict(op=o)) for o in OPS] + [('contracts.c12', 'task_concrete', {})]


LEVEL = ('Proof that every public operation of Simulation re-establishes the cache-coherence invariant INV from every abstract pre-state satisfying it, '
         'by executing the real method bodies in the control executor with provenance (taint) tags on all array storages; plus the tolerance / model hand-over '
         'of every solver task.  Numerical payloads are abstracted to their provenance.')
ASSUMPTIONS = ['_multiprocessing.process_map returns one result per task in task order (C11); a solver result depends only on the task dict',
               'summaries of numerical callees (get_grid, _get_responses, _get_rfield, Field, interp_edges_to_vol_averages, derivative_chain, interpolate) propagate provenance from inputs to outputs and have no other effect on the Simulation',
               'one source, one frequency (slot correspondence for several is C11)',
               'in-memory execution (file_dir=None); layered=False']
