"""Shared symbolic environment for the core kernels: symbolic grid, arrays, accessors."""
import z3

from pyvc import sx
from . import spec

ZERO = z3.RealVal(0)
ONE = z3.RealVal(1)


class KEnv:
    def __init__(self, tag='', pec=False):
        self.nx, self.ny, self.nz = z3.Ints(f'{tag}nx {tag}ny {tag}nz')
        self.n = (self.nx, self.ny, self.nz)
        self.pec = pec
        self.hyps = [self.nx >= 2, self.ny >= 2, self.nz >= 2]
        n = self.n
        mk = lambda name, shape: sx.ArrObj(name, shape)
        self.arr = {}
        for c in 'xyz':
            for pre in ('e', 'r', 's'):
                self.arr[pre + c] = mk(f'{tag}{pre}{c}', spec.edge_shape(c, n))
            self.arr['eta_' + c] = mk(f'{tag}eta_{c}', n)
            if pec:
                # PEC(e): tangential boundary values are zero -- modelled in the base read function
                raw = z3.Function(f'{tag}e{c}_raw', sx.I, sx.I, sx.I, sx.RS)

                def base(i, j, k, c=c, raw=raw):
                    return z3.If(z3.And(*spec.edge_interior(c, (i, j, k), n)), raw(i, j, k), ZERO)
                self.arr['e' + c] = sx.ArrObj(f'{tag}e{c}', spec.edge_shape(c, n), base=base)
        self.arr['zeta'] = mk(f'{tag}zeta', n)
        self.arr['hx'] = mk(f'{tag}hx', (self.nx,))
        self.arr['hy'] = mk(f'{tag}hy', (self.ny,))
        self.arr['hz'] = mk(f'{tag}hz', (self.nz,))

    def a(self, name):
        return self.arr[name]

    def acc0(self, name):
        """accessor of the initial contents"""
        o = self.arr[name]
        return lambda *idx: o.read0(idx)

    def acc(self, name, states):
        o = self.arr[name]
        st = states[o.uid]
        return lambda *idx: st.read([sx.R(i) for i in idx])

    def ih(self):
        def mk(h):
            o = self.arr[h]
            return lambda i: sx.RCP(o.read0([i]))
        return (mk('hx'), mk('hy'), mk('hz'))

    def fld0(self, e=None):
        e = e or {c: self.acc0('e' + c) for c in 'xyz'}
        return spec.Fld(e['x'], e['y'], e['z'], self.acc0('eta_x'), self.acc0('eta_y'), self.acc0('eta_z'),
                        self.acc0('zeta'), *self.ih())

    def pec_side(self, I_list):
        """PEC(e) instances: for every edge read listed, non-interior => value 0.
        Given as real-valued side hypotheses for particular index tuples."""
        out = []
        for c, I in I_list:
            inter = z3.And(*spec.edge_interior(c, I, self.n))
            out.append(z3.Implies(z3.Not(inter), self.arr['e' + c].read0(I) == 0))
        return out
