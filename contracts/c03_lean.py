"""C03 -- the purely mathematical step of the core.solve proof, machine-checked by Lean 4 / Mathlib on every run.

`/verif/lean/LDLT.lean` proves, over an arbitrary field F (so for real and complex systems alike):

  partial_sum_eq : S lo = 0, S (k+1) = S k + t k on [lo, hi)   =>  S hi = sum_{k in [lo,hi)} t k
  ldlt_solves    : the banded LDL^T recurrences hD, hL, hY, hZ, hX  =>  forall i < n, sum_{j<n} Asym A i j * X j = b i
  ldlt_unique    : ... and D j != 0 (non-zero pivots)              =>  a solution of the system equals X

The hypotheses hD .. hX are the recurrences in exactly the form of the `bridge/*` obligations of contracts/c03_solve.py
(A i j = amat0[i+5j]; natural-number subtraction `j - 5` is the code's max(0, j-5); the partial-sum functions SD, SL, SY, SX of
the VC side are turned into the finite sums by partial_sum_eq, whose side condition lo <= hi is the obligation
bridge/partial_sum_ranges_are_ordered).  This module checks that the *statements* in the file are the expected ones
(verbatim, white-space normalised), that the file contains no escape hatch (sorry / admit / axiom / native_decide / unsafe /
implemented_by / extern), runs `lean` on it and requires exit status 0 and that each theorem depends on the three standard
axioms only.  A missing `lean` binary, a time-out or any other tool problem is *undecided*, never a violation.
"""
import os
import re
import shutil
import subprocess
import time

from pyvc import ob
from .c03 import PROP

HERE = os.path.dirname(os.path.dirname(os.path.abspath(__file__)))
LEAN_FILE = os.path.join(HERE, 'lean', 'LDLT.lean')
STD_AXIOMS = {'propext', 'Classical.choice', 'Quot.sound'}
FORBIDDEN = ('sorry', 'admit', 'axiom', 'native_decide', 'unsafe', 'implemented_by', 'extern', 'opaque', 'partial')

RECURRENCES = """
    (n : ℕ) (A : ℕ → ℕ → F) (b D Y Z X : ℕ → F) (L : ℕ → ℕ → F)
    (hD : ∀ j, j < n → D j = A j j - ∑ k ∈ Ico (j - 5) j, L j k * L j k * D k)
    (hL : ∀ i j, j < i → i < n → i ≤ j + 5 →
        L i j * D j = A i j - ∑ k ∈ Ico (i - 5) j, L i k * L j k * D k)
    (hY : ∀ j, j < n → Y j = b j - ∑ k ∈ Ico (j - 5) j, L j k * Y k)
    (hZ : ∀ j, j < n → Z j * D j = Y j)
    (hX : ∀ j, j < n → X j = Z j - ∑ k ∈ Ico (j + 1) (min n (j + 6)), L k j * X k)"""

STATEMENTS = {
    'Asym': """def Asym (A : ℕ → ℕ → F) (i j : ℕ) : F :=
  if j ≤ i then (if i ≤ j + 5 then A i j else 0) else (if j ≤ i + 5 then A j i else 0)""",
    'partial_sum_eq': """theorem partial_sum_eq (S t : ℕ → F) (lo hi : ℕ) (hle : lo ≤ hi) (h0 : S lo = 0)
    (hs : ∀ k, lo ≤ k → k < hi → S (k + 1) = S k + t k) :
    S hi = ∑ k ∈ Ico lo hi, t k := by""",
    'ldlt_solves': "theorem ldlt_solves" + RECURRENCES + """ :
    ∀ i, i < n → ∑ j ∈ range n, Asym A i j * X j = b i := by""",
    'ldlt_unique': "theorem ldlt_unique" + RECURRENCES + """
    (hDne : ∀ j, j < n → D j ≠ 0)
    (x : ℕ → F) (hx : ∀ i, i < n → ∑ j ∈ range n, Asym A i j * x j = b i) :
    ∀ j, j < n → x j = X j := by""",
}
PREAMBLE = ['open Finset BigOperators', 'namespace LDLT', 'variable {F : Type*} [Field F]']


def norm(s):
    return re.sub(r'\s+', ' ', s).strip()


def strip_comments(src):
    src = re.sub(r'/-.*?-/', ' ', src, flags=re.S)
    return re.sub(r'--[^\n]*', ' ', src)


def task_lean():
    col = ob.Collector(PROP, 'lemma/LDLT')
    t0 = time.time()
    try:
        src = open(LEAN_FILE).read()
    except OSError as e:
        col.undecided('lean_file_present', f'{LEAN_FILE}: {e}')
        return col.pack()
    code = strip_comments(src)
    ncode = norm(code)
    # ---- the statements are the expected ones
    ok_stmt = all(norm(s) in ncode for s in STATEMENTS.values()) and all(norm(p) in ncode for p in PREAMBLE)
    miss = [k for k, s in STATEMENTS.items() if norm(s) not in ncode]
    res = dict(status='proved' if ok_stmt else 'unknown', backend='text', time=0.0)
    if not ok_stmt:
        res['reason'] = f'statement(s) {miss} in lean/LDLT.lean differ from the expected text'
    col._add('statements_are_the_recurrences_of_the_bridge_obligations', 'vc', res)
    # only one definition / theorem of each name, no local redefinition of the notions used in the statements
    dup = [k for k in STATEMENTS if len(re.findall(r'\b(?:theorem|lemma|def|abbrev|instance|notation|macro)\s+%s\b' % re.escape(k), code)) != 1]
    hatch = [w for w in FORBIDDEN if re.search(r'(?<![\w.])%s(?![\w.])' % re.escape(w), code)]
    hatch += [w for w in ('notation', 'macro', 'syntax', 'elab', 'set_option', 'local instance', 'attribute') if re.search(r'(?<![\w.])%s\b' % re.escape(w), code)]
    res = dict(status='proved' if not hatch and not dup else 'unknown', backend='text', time=0.0)
    if hatch or dup:
        res['reason'] = f'escape hatches / redefinitions in lean/LDLT.lean: {hatch} {dup}'
    col._add('no_sorry_axiom_or_redefinition', 'vc', res)
    # ---- Lean accepts the file
    lean = shutil.which('lean')
    if lean is None:
        for k in ('partial_sum_eq', 'ldlt_solves', 'ldlt_unique'):
            col.undecided(f'{k}_checked_by_lean', 'lean binary not found')
        return col.pack()
    t1 = time.time()
    try:
        p = subprocess.run([lean, LEAN_FILE], capture_output=True, text=True, timeout=1500, cwd=os.path.dirname(LEAN_FILE))
        out, rc, why = p.stdout + p.stderr, p.returncode, ''
    except subprocess.TimeoutExpired:
        out, rc, why = '', None, 'lean timed out after 1500 s'
    dt = round(time.time() - t1, 2)
    for k in ('partial_sum_eq', 'ldlt_solves', 'ldlt_unique'):
        m = re.search(r"'LDLT\.%s' depends on axioms: \[([^\]]*)\]" % k, out)
        if rc == 0 and m and {a.strip() for a in m.group(1).split(',') if a.strip()} <= STD_AXIOMS and 'error' not in out.lower() and 'sorry' not in out.lower():
            col._add(f'{k}_checked_by_lean', 'vc', dict(status='proved', backend='lean4-mathlib', time=dt / 3,
                                                       sample=norm(STATEMENTS[k])[:600] if k == 'ldlt_solves' else None))
        else:
            col._add(f'{k}_checked_by_lean', 'vc', dict(status='unknown', backend='lean4-mathlib', time=dt / 3,
                                                       reason=why or f'lean exit {rc}: {out[-400:]}'))
    col.trust('Lean 4.33.0 kernel + Mathlib v4.33.0 (the lemma file lean/LDLT.lean is re-checked on every run; only propext, Classical.choice, Quot.sound)')
    return col.pack()


def tasks(tier):
    return [('contracts.c03_lean', 'task_lean', {})]
