"""Concrete cross-checks / replays for C14 on the real emg3d.maps and emg3d.models."""
import numpy as np


def check_maps(names):
    import emg3d
    cases = 0
    sig = np.logspace(-6, 6, 25)
    for nm in names:
        m = getattr(emg3d.maps, nm)()
        cases += 1
        p = m.forward(sig)
        back = m.backward(p)
        if np.abs(back / sig - 1).max() > 1e-9:
            return dict(reproduced=True, cases=cases, map=nm, clause='backward(forward(sigma)) == sigma', max_rel=float(np.abs(back / sig - 1).max()))
        if np.abs(m.forward(m.backward(p)) - p).max() > 1e-9 * max(1.0, np.abs(p).max()):
            return dict(reproduced=True, cases=cases, map=nm, clause='forward(backward(p)) == p')
        g = np.ones_like(p)
        m.derivative_chain(g, p)
        hstep = 1e-6 * np.abs(p) if nm in ('MapConductivity', 'MapResistivity') else 1e-6 * np.ones_like(p)
        fd = (m.backward(p + hstep) - m.backward(p - hstep)) / (2 * hstep)
        if np.abs(g / fd - 1).max() > 1e-6:
            return dict(reproduced=True, cases=cases, map=nm, clause='derivative_chain factor == d sigma / d p (central differences)',
                        max_rel=float(np.abs(g / fd - 1).max()), how='contracts.c14_concrete.check_maps on the real emg3d.maps classes')
        # the chain factor is that of the mapped values AS THEY ARE NOW: the same map instance, the same array object, edited in place between calls
        # (Model setters assign in place), three rounds
        q = p.copy()
        for rnd in range(3):
            cases += 1
            g2 = np.ones_like(q)
            m.derivative_chain(g2, q)
            h2 = 1e-6 * np.abs(q) if nm in ('MapConductivity', 'MapResistivity') else 1e-6 * np.ones_like(q)
            fd2 = (m.backward(q + h2) - m.backward(q - h2)) / (2 * h2)
            if np.abs(g2 / fd2 - 1).max() > 1e-6:
                return dict(reproduced=True, cases=cases, map=nm, clause='derivative_chain factor == d sigma / d p at the CURRENT values of an array edited in place since the last call',
                            round=rnd, max_rel=float(np.abs(g2 / fd2 - 1).max()), how='contracts.c14_concrete.check_maps: one map instance, q[:] = new values between calls')
            q[:] = m.forward(m.backward(q) * 3.7) if rnd == 0 else q[::-1].copy()
        # the same medium given with another number type (integer array, Python / NumPy integer scalar, float32) maps to the same values
        ints = np.array([1, 2, 3, 10, 1000])
        ref = m.forward(ints.astype(float))
        for what, val in (('int64 array', ints), ('int32 array', ints.astype(np.int32)), ('list of Python ints', [int(v) for v in ints])):
            cases += 1
            got = np.asarray(m.forward(np.asarray(val)), dtype=float)
            if got.shape != ref.shape or not np.allclose(got, ref, rtol=1e-12, atol=0, equal_nan=False):
                return dict(reproduced=True, cases=cases, map=nm, clause='forward of integer-typed conductivities equals forward of the same values as floats',
                            input=what, got=str(got.tolist()), want=str(ref.tolist()), how='contracts.c14_concrete.check_maps')
            back = np.asarray(m.backward(m.forward(np.asarray(val))), dtype=float)
            if not np.allclose(back, ints, rtol=1e-9):
                return dict(reproduced=True, cases=cases, map=nm, clause='backward(forward(sigma)) == sigma for integer-typed conductivities', input=what,
                            got=str(back.tolist()))
        for v in (1, 3, np.int64(10)):
            cases += 1
            if not np.isclose(float(m.forward(v)), float(m.forward(float(v))), rtol=1e-12, atol=0):
                return dict(reproduced=True, cases=cases, map=nm, clause='forward of an integer scalar equals forward of the same value as float', value=int(v),
                            got=float(m.forward(v)), want=float(m.forward(float(v))))
    return dict(reproduced=False, cases=cases)


def check_rejection():
    import emg3d
    cases = 0
    grid = emg3d.TensorMesh([np.ones(2), np.ones(3), np.ones(2)], origin=(0, 0, 0))
    maps = ['Conductivity', 'LgConductivity', 'LnConductivity', 'Resistivity', 'LgResistivity', 'LnResistivity']
    for mp in maps:
        m = getattr(emg3d.maps, 'Map' + mp)()
        good = m.forward(np.full(grid.shape_cells, 2.0))
        for param in ('property_x', 'property_y', 'property_z', 'mu_r', 'epsilon_r'):
            for badc in (0.0, -1.0, np.inf, -np.inf, np.nan):
                # value whose *conductivity* (or raw mu_r/eps_r) is the bad number
                if param.startswith('property') and mp.startswith(('Lg', 'Ln')):
                    if not (badc > 0 and np.isinf(badc)) and not np.isnan(badc):
                        continue        # log maps cannot represent zero / negative conductivities
                    bad = badc
                elif param.startswith('property') and mp == 'Resistivity':
                    bad = badc if not (np.isfinite(badc) and badc == 0) else 0.0
                else:
                    bad = badc
                for single in (False, True):
                    arr = good.copy() if param.startswith('property') else np.full(grid.shape_cells, 2.0)
                    if single:
                        arr[1, 1, 1] = bad
                    else:
                        arr[...] = bad
                    chk = m.backward(arr) if param.startswith('property') else arr
                    if np.all(np.isfinite(chk)) and np.all(chk > 0):
                        continue
                    cases += 1
                    kw = dict(property_x=good.copy(), property_y=good.copy(), property_z=good.copy(), mu_r=np.full(grid.shape_cells, 2.0),
                              epsilon_r=np.full(grid.shape_cells, 2.0), mapping=mp)
                    kw2 = dict(kw)
                    kw2[param] = arr
                    try:
                        emg3d.Model(grid, **kw2)
                        return dict(reproduced=True, cases=cases, clause='invalid value accepted at construction', mapping=mp, parameter=param,
                                    value=str(bad), single_cell=single, how='contracts.c14_concrete.check_rejection')
                    except ValueError:
                        pass
                    model = emg3d.Model(grid, **kw)
                    try:
                        setattr(model, param, arr)
                        return dict(reproduced=True, cases=cases, clause='invalid value accepted on assignment', mapping=mp, parameter=param,
                                    value=str(bad), single_cell=single, how='contracts.c14_concrete.check_rejection')
                    except ValueError:
                        pass
    # finite mapped values of the logarithmic mappings whose conductivity under- / overflows (0.0 / inf) are invalid media too
    for mp, vals in (('LgConductivity', (-400.0, 309.0)), ('LgResistivity', (400.0, -309.0)), ('LnConductivity', (-800.0, 710.0)), ('LnResistivity', (800.0, -710.0))):
        m = getattr(emg3d.maps, 'Map' + mp)()
        for bad in vals:
            sig = m.backward(np.array([bad]))[0]
            if np.isfinite(sig) and sig > 0:
                continue            # (representable after all on this platform)
            for param in ('property_x', 'property_y', 'property_z'):
                for single in (False, True):
                    cases += 1
                    arr = np.full(grid.shape_cells, 0.3)
                    if single:
                        arr[1, 2, 0] = bad
                    else:
                        arr[...] = bad
                    kw = dict(property_x=np.full(grid.shape_cells, 0.3), property_y=np.full(grid.shape_cells, 0.3), property_z=np.full(grid.shape_cells, 0.3), mapping=mp)
                    kw[param] = arr
                    try:
                        emg3d.Model(grid, **kw)
                        return dict(reproduced=True, cases=cases, clause='mapped value whose conductivity is zero / infinite accepted at construction', mapping=mp,
                                    parameter=param, value=bad, conductivity=str(sig), single_cell=single, how='contracts.c14_concrete.check_rejection')
                    except ValueError:
                        pass
                    model = emg3d.Model(grid, **dict(kw, **{param: np.full(grid.shape_cells, 0.3)}))
                    try:
                        setattr(model, param, arr)
                        return dict(reproduced=True, cases=cases, clause='mapped value whose conductivity is zero / infinite accepted on assignment', mapping=mp,
                                    parameter=param, value=bad, conductivity=str(sig), single_cell=single)
                    except ValueError:
                        pass
    # assignment to a property that was None
    model = emg3d.Model(grid, 1.0)
    for param in ('property_y', 'property_z', 'mu_r', 'epsilon_r'):
        cases += 1
        try:
            setattr(model, param, np.ones(grid.shape_cells))
            return dict(reproduced=True, cases=cases, clause='assignment to a property that was None must raise', parameter=param)
        except ValueError:
            pass
    return dict(reproduced=False, cases=cases)


def check_invariance():
    import emg3d
    cases = 0
    rng = np.random.default_rng(3)
    grid = emg3d.TensorMesh([rng.uniform(1, 2, 3), rng.uniform(1, 2, 2), rng.uniform(1, 2, 4)], origin=(0, 0, 0))
    shape = grid.shape_cells
    maps = ['Conductivity', 'LgConductivity', 'LnConductivity', 'Resistivity', 'LgResistivity', 'LnResistivity']
    for case in ('isotropic', 'HTI', 'VTI', 'triaxial'):
        for extra in (False, True):
            sig = {d: 10 ** rng.uniform(-6, 6, shape) for d in 'xyz'}
            ref = None
            for mp in maps:
                cases += 1
                m = getattr(emg3d.maps, 'Map' + mp)()
                kw = dict(property_x=m.forward(sig['x']), mapping=mp)
                if case in ('HTI', 'triaxial'):
                    kw['property_y'] = m.forward(sig['y'])
                if case in ('VTI', 'triaxial'):
                    kw['property_z'] = m.forward(sig['z'])
                if extra:
                    kw['mu_r'] = np.full(shape, 1.5)
                    kw['epsilon_r'] = np.full(shape, 3.0)
                model = emg3d.Model(grid, **kw)
                stored = {k: np.array(v, copy=True) for k, v in kw.items() if k != 'mapping'}
                # every domain twice: the coefficients of a second use (second source, second solve) must be those of the first
                for freq in (1.0, -1.0, -1.0, 1.0):
                    vm = emg3d.models.VolumeModel(model, emg3d.Field(grid, frequency=freq))
                    cur = [vm.eta_x, vm.eta_y, vm.eta_z, vm.zeta]
                    for k, v in stored.items():
                        if not np.array_equal(np.asarray(getattr(model, k)), v):
                            return dict(reproduced=True, cases=cases, clause='computing the solver coefficients changed the stored model', attribute=k,
                                        mapping=mp, case=case, frequency=freq, how='contracts.c14_concrete.check_invariance')
                    key = (freq,)
                    if ref is None:
                        ref = {}
                    if key not in ref:
                        ref[key] = cur
                    else:
                        for a, b in zip(cur, ref[key]):
                            if np.abs(a / b - 1).max() > 1e-9:
                                return dict(reproduced=True, cases=cases, clause='VolumeModel coefficients differ between mappings', mapping=mp, case=case)
    return dict(reproduced=False, cases=cases)
