"""C04-R7 -- solver.prolongation adds exactly the spec prolongation of the coarse field, on interior edges only.

Contract RGP of RegularGridProlongator (its own body: bounded concrete check, c04_concrete):
    fn = RegularGridProlongator(ca, cb, a, b);  fn(v).reshape((len(a), len(b)), order='F')[j, k] == sum_JK hat_a(j,J) hat_b(k,K) v[J,K]
Proved here for each of the seven semicoarsening patterns and each component d (control executor, generic iteration of each loop,
any grid size):
  * the interpolator of component d is built from the coarse and fine node vectors of the two transverse directions, in index order;
  * iteration I of the loop over range(cgrid.shape_cells[d]) interpolates the transverse slice  cefield.f_d[.. I ..]  and reshapes
    it to (fine nodes a, fine nodes b) in Fortran order;
  * it adds the interior part hh[1:-1, 1:-1] to  efield.f_d[.. i .., 1:-1, 1:-1]  for i in {2I, 2I+1} if direction d is coarsened by the
    pattern (piece-wise constant along the edge), for i = I otherwise; these are the only writes: transverse index 0 and last (PEC) are
    never written, the coarse field is not written, nothing is written with '=' (it ADDS);
  * lemma (LIA): for nf = 2 nc the index sets {2I, 2I+1 : 0 <= I < nc} cover every fine index exactly once, parent I = i div 2.
Together with RGP:  e'[i,j,k] = e[i,j,k] + (P ce)[i,j,k] for the spec prolongation P of c04.py on every interior edge, boundary unchanged.
"""
import ast

import z3

from pyvc import cx, ob
from .cxutil import clause, canary, generic_for_loops, UNRECOGNISED
from .c04 import PROP, COARSENED

COMP = {0: ('fx', (1, 2)), 1: ('fy', (0, 2)), 2: ('fz', (0, 1))}
LOOP_OF_LINE = {}


def replay(sc):
    def rp(d):
        from . import c04_concrete
        return ob.guarded(c04_concrete.check_prolongation, (sc,), [(4, 6, 8)], (0,))
    return rp


def mk_grid(tag):
    f = dict(shape_nodes=tuple(z3.Ints(f'{tag}n0 {tag}n1 {tag}n2')), shape_cells=tuple(z3.Ints(f'{tag}m0 {tag}m1 {tag}m2')))
    for d in 'xyz':
        f['nodes_' + d] = cx.NDArr(cx.Store(f'{tag}nodes_{d}'))
    f['__strict__'] = True
    return cx.Obj('TensorMesh', f)


def run(sc):
    def mk(ctx):
        cgrid, grid = mk_grid('c_'), mk_grid('f_')
        ce = cx.Obj('Field', dict(grid=cgrid, **{c: cx.NDArr(cx.Store('coarse-' + c)) for c in ('fx', 'fy', 'fz')}, __strict__=True))
        e = cx.Obj('Field', dict(grid=grid, **{c: cx.NDArr(cx.Store('fine-' + c)) for c in ('fx', 'fy', 'fz')}, __strict__=True))

        def rng(it, f, args, kw, node):
            o = cx.Opaque('range')
            o.stop = args[0] if len(args) == 1 else None
            return o
        def reshape(it, f, args, kw, node):
            r = cx.NDArr(f.bound.store, view='reshape')
            it.ctx.event('reshape', source=f.bound, shape=args[0] if len(args) == 1 else tuple(args), order=kw.get('order', 'C'), result=r)
            return r
        ctx.opts.setdefault('prelude', {}).update({'builtins.range': rng, 'ndarray.reshape': reshape})
        return [e, ce, sc], {}, dict(e=e, ce=ce, grid=grid, cgrid=cgrid)

    def rgp(it, args, kw, node):
        o = cx.Obj('RegularGridProlongator', dict(ctor=list(args), __strict__=False))
        return o

    def on_elem(it, s, seq):
        i = it.ctx.fresh_int('I')
        if getattr(seq, 'stop', None) is not None and cx.is_sym(seq.stop):
            it.ctx.assume(z3.And(i >= 0, i < seq.stop))
        return i

    def getattr_hook(it, v, attr):
        return NotImplemented
    orig_call = cx.Interp.call

    def call(self, f, args, kwargs, node=None):
        # calling the interpolator object: contract RGP (result tagged with what it interpolates)
        if isinstance(f, cx.Obj) and f.cls == 'RegularGridProlongator':
            r = cx.NDArr(cx.Store(('rgp', f.uid if hasattr(f, 'uid') else id(f))))
            r.rgp = (f, args[0])
            self.ctx.event('rgp_call', fn=f, arg=args[0], result=r)
            return r
        return orig_call(self, f, args, kwargs, node)
    cx.Interp.call = call
    try:
        return cx.run_function('solver.prolongation', mk, pc0=[], summaries={'solver.RegularGridProlongator': rgp},
                               opts=dict(loop_hook=generic_for_loops({}, on_elem=on_elem)))
    finally:
        cx.Interp.call = orig_call


def task_prolongation(sc):
    col = ob.Collector(PROP, f'solver.prolongation/sc{sc}')
    col.default_replay = replay(sc)
    fn = col.function('solver.prolongation')
    res = run(sc)
    loops = [n for n in ast.walk(fn) if isinstance(n, ast.For)]
    lines = sorted(l.lineno for l in loops)
    col.concrete('three_loops_one_per_component', len(lines) == 3, dict(lines=lines))
    coars = COARSENED[sc]

    # paths: for each loop either exhausted or one generic iteration; a path that ends inside loop d carries the events of that iteration
    def iteration_paths(d):
        return [r for r in res if r.outcome == 'stop' and r.value == ('generic-iteration-end', lines[d])]

    for d in range(3):
        comp, (a, b) = COMP[d]
        its = iteration_paths(d)
        clause(col, f'{comp}/generic_iteration_explored', res, lambda r: len(its) == 1)

        def wiring(r, d=d, comp=comp, a=a, b=b):
            st = r.state
            gi = [e for e in r.events if e['kind'] == 'generic_iteration' and e['line'] == lines[d]]
            calls = [e for e in r.events if e['kind'] == 'rgp_call']
            if len(gi) != 1 or not calls:
                return False
            I = gi[0]['elem']
            # the loop runs over the coarse cells along d
            if getattr(gi[0]['seq'], 'stop', None) is not st['cgrid'].fields['shape_cells'][d]:
                return False
            c = calls[-1]
            ctor = c['fn'].fields['ctor']
            nd = 'xyz'
            want = [st['cgrid'].fields['nodes_' + nd[a]], st['cgrid'].fields['nodes_' + nd[b]], st['grid'].fields['nodes_' + nd[a]], st['grid'].fields['nodes_' + nd[b]]]
            if len(ctor) != 4 or any(x is not y for x, y in zip(ctor, want)):
                return False
            # the interpolated slice: index I along d, everything across
            arg = c['arg']
            key = [slice(None, None, None)] * 3
            key[d] = I
            if not (isinstance(arg, cx.NDArr) and arg.store is st['ce'].fields[comp].store and _is_index_view(arg, key)):
                return False
            return True
        clause(col, f'{comp}/interpolator_built_from_transverse_nodes_and_applied_to_slice_I', its, wiring)

        def writes(r, d=d, comp=comp):
            st = r.state
            gi = [e for e in r.events if e['kind'] == 'generic_iteration' and e['line'] == lines[d]][0]
            I = gi['elem']
            ws = [m for m in r.mutations()]
            mine = [m for m in ws if m['store'] is st['e'].fields[comp].store]
            if len(mine) != len(ws):
                return False                      # something else than the fine component is written
            if any(_write_key(m) is None or not (cx.is_sym(_write_key(m)[d]) or isinstance(_write_key(m)[d], int)) for m in mine):
                return UNRECOGNISED('the fine component is not written one index at a time along the edge direction')
            want_idx = [2 * I, 2 * I + 1] if coars[d] else [I]
            if len(mine) != len(want_idx):
                return False
            ok = []
            for m, wi in zip(mine, want_idx):
                if m.get('how') != 'Add=':
                    return False
                k = _write_key(m)
                if not (isinstance(k, tuple) and len(k) == 3):
                    return False
                for ax in range(3):
                    if ax == d:
                        if not cx.is_sym(k[ax]) and not isinstance(k[ax], int):
                            return False
                        ok.append(k[ax] == wi)
                    else:
                        if not (isinstance(k[ax], slice) and k[ax].start == 1 and k[ax].stop == -1 and k[ax].step is None):
                            return False
                v = m.get('value')
                if not (isinstance(v, cx.NDArr) and _is_index_view(v, [slice(1, -1, None), slice(1, -1, None)], 'reshape') and _reshaped_rgp(v, r, st, d)):
                    return False
            return z3.And(*ok)
        clause(col, f'{comp}/adds_interior_of_the_interpolated_slice_to_fine_index_{"2I_and_2I+1" if coars[d] else "I"}_only', its, writes)
        if coars[d]:
            def wrong(r, d=d, comp=comp):
                st = r.state
                I = [e for e in r.events if e['kind'] == 'generic_iteration' and e['line'] == lines[d]][0]['elem']
                mine = [m for m in r.mutations() if m['store'] is st['e'].fields[comp].store]
                ks = [_write_key(m) for m in mine]
                if not mine or any(k is None or not (cx.is_sym(k[d]) or isinstance(k[d], int)) for k in ks):
                    return False
                return z3.And(*[k[d] == I for k in ks])
            canary(col, f'{comp}/canary/writes_at_coarse_index', its, wrong)
    clause(col, 'coarse_field_is_never_written', res,
           lambda r: not any(m['store'] is r.state['ce'].fields[c].store for m in r.mutations() for c in ('fx', 'fy', 'fz')))
    clause(col, 'returns_None_after_the_three_loops', res, lambda r: r.value is None, select=lambda r: r.outcome == 'return')
    # index lemma
    i, I, nc = z3.Ints('i I nc')
    col.lia('lemma/fine_indices_2I_2I+1_partition_0..2nc', [nc >= 1, i >= 0, i < 2 * nc],
            z3.And(i / 2 >= 0, i / 2 < nc, z3.Or(i == 2 * (i / 2), i == 2 * (i / 2) + 1),
                   z3.ForAll([I], z3.Implies(z3.And(I >= 0, I < nc, z3.Or(i == 2 * I, i == 2 * I + 1)), I == i / 2))))
    return col.pack()


def _write_key(m):
    """index tuple of a recorded write into a whole array (augmented assignment: the target view; plain assignment: the key)"""
    if m.get('how') == 'setitem':
        k = m.get('key')
        return k if isinstance(k, tuple) and m['arr'].view == 'whole' else None
    tv = m['arr'].view
    return tv[1] if isinstance(tv, tuple) and tv[0] == 'index' and tv[2] == 'whole' and isinstance(tv[1], tuple) else None


def _is_index_view(arr, key, base='whole'):
    v = arr.view
    if not (isinstance(v, tuple) and v[0] == 'index' and v[2] == base):
        return False
    k = v[1]
    if not isinstance(k, tuple) or len(k) != len(key):
        return False
    for a, b in zip(k, key):
        if isinstance(b, slice):
            if not (isinstance(a, slice) and (a.start, a.stop, a.step) == (b.start, b.stop, b.step)):
                return False
        else:
            if not ((cx.is_sym(a) and cx.is_sym(b) and a.eq(b)) or a is b):
                return False
    return True


def _reshaped_rgp(v, r, st, d):
    """v is a view of the array obtained by reshaping the interpolator's result to (fine nodes a, fine nodes b), order F"""
    comp, (a, b) = COMP[d]
    for e in r.events:
        if e['kind'] == 'reshape' and e['result'].store is v.store:
            shp, order, src = e['shape'], e['order'], e['source']
            sn = st['grid'].fields['shape_nodes']
            return isinstance(shp, tuple) and len(shp) == 2 and shp[0] is sn[a] and shp[1] is sn[b] and order == 'F' and getattr(src, 'rgp', None) is not None
    return False


def tasks(tier):
    return [('contracts.c04_prolong', 'task_prolongation', dict(sc=sc)) for sc in range(7)]
