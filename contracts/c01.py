"""C01 -- reported solver success certifies the returned field.

Ghost state (DESIGN.md 5/C01): every Field storage has a version counter that is bumped by every
writer; Res(s, e@v) is the real number || s - A_spec e || for the contents of e at version v
(A_spec: C02).  Norm(s) = || s ||.

Functions under contract (control executor): solver._terminate, solver.residual, solver.multigrid
(fine-grid loop), solver.krylov, solver.solve.
Assumed dependency contract K-SCIPY for scipy.sparse.linalg.{bicgstab,cgs,gcrotmk}: returns (x, i);
i == 0 means its convergence test ||b - A x|| <= rtol ||b|| passed; the callback is called with *some*
iterates; NO promise that the last callback argument is the returned x; A / M may be applied any number
of times (an exception raised inside them propagates).
"""
import ast
import os

import z3

from pyvc import cx, ob, intake
from .cxutil import clause, canary, coverage, pcs, merge_values, assigned_names
from . import c05

PROP = 'C01'
RES = z3.Function('Res', z3.IntSort(), z3.IntSort(), z3.IntSort(), z3.IntSort(), z3.RealSort())
NORM = z3.Function('Norm', z3.IntSort(), z3.IntSort(), z3.RealSort())
ZERO = z3.RealVal(0)


def _pack(col, keep):
    """C02 re-uses the explorations of this module for the clauses that say WHICH operator the wrappers apply (keep: names of those clauses)"""
    if keep is not None:
        col.results = [d for d in col.results if any(k in d['id'] for k in keep)]
    return col.pack()


OPERATOR_CLAUSES = ('operator_applied_to_a_copy_of_the_source_with_field_and_model_in_role_order', 'K5_matvec_applies_the_operator',
                    'S10_every_operator_application')


def res_tok(s, e):
    return RES(s.uid, s.version, e.uid, e.version)


SYM = object()


def new_field(tag, dtype=None, val=None, grid=None, freq=SYM):
    st = cx.Store(tag, val)
    f = cx.Obj('Field', {}, mod='fields')
    f.fields['_field'] = cx.NDArr(st, dtype=dtype)
    for c in 'xyz':
        f.fields['f' + c] = cx.NDArr(st, view=('comp', c), dtype=dtype)
    f.fields['grid'] = grid if grid is not None else cx.Obj('TensorMesh', {})
    fr = z3.Real(tag.split('@')[0].replace('-', '_') + '_freq') if freq is SYM else freq
    f.fields['_frequency'] = fr
    f.fields['frequency'] = fr
    return f


def store_of(f):
    return f.fields['_field'].store


def bump(it, f, who, line=0):
    st = store_of(f)
    st.val = None
    st.version += 1
    it.ctx.event('mutate', store=st, line=line, how=who, target='', arr=f.fields['_field'])


def quiet(it, args, kw, node):
    return None


def replay_solves(d):
    from . import c01_concrete
    r = ob.guarded(c01_concrete.check, 'quick', 0)
    if not r['reproduced']:
        r = ob.guarded(c01_concrete.check_breakdown)
    return r


# ------------------------------------------------------------------ _terminate
def task_terminate():
    col = ob.Collector(PROP, 'solver._terminate')
    col.default_replay = replay_solves
    col.function('solver._terminate')
    l2, l2s, tol, ref = z3.Reals('l2 l2s tol ref')
    itn, maxit = z3.Ints('it maxit')
    ssl = z3.Bool('ssl')
    MSG0 = 'm0?'

    def mk(ctx):
        var = cx.Obj('MGParameters', dict(tol=tol, l2_refe=ref, exit_message=MSG0, maxit=maxit, sslsolver=ssl, verb=z3.Int('verb')), mod='solver')
        return [var, l2, l2s, itn], {}, dict(var=var)
    res = cx.run_function('solver._terminate', mk, summaries={'solver.MGParameters.cprint': quiet})
    coverage(col, 'paths_cover', res)
    msg = lambda r: r.state['var'].fields['exit_message']
    conv = l2 < tol * ref
    clause(col, 'T1_message_becomes_CONVERGED_iff_below_tolerance', res,
           lambda r: (z3.BoolVal(msg(r) == 'CONVERGED') == conv), sample=True)
    clause(col, 'T1b_below_tolerance_returns_True_normally', res,
           lambda r: z3.Implies(conv, z3.BoolVal(r.outcome == 'return' and r.value is True)))
    clause(col, 'T2_other_messages_only_from_the_documented_set', res,
           lambda r: z3.Implies(z3.Not(conv), z3.BoolVal(msg(r) in ('DIVERGED', 'STAGNATED', 'MAX. ITERATION REACHED, NOT CONVERGED', MSG0))))
    clause(col, 'T3_not_finished_leaves_message_untouched', res,
           lambda r: (msg(r) == MSG0) if (r.outcome == 'return' and r.value is False) else None)
    clause(col, 'T4_raises_only_for_sslsolver_and_diverged_or_stagnated', res,
           lambda r: (z3.And(ssl, z3.BoolVal(msg(r) in ('DIVERGED', 'STAGNATED') and r.value.typ == '_ConvergenceError')) if r.outcome == 'raise' else None))
    clause(col, 'T5_frame_only_exit_message_is_assigned', res,
           lambda r: all(e['attr'] == 'exit_message' for e in r.events if e['kind'] == 'setattr'))
    canary(col, 'canary/converged_with_leq', res, lambda r: (z3.BoolVal(msg(r) == 'CONVERGED') == (l2 <= tol * ref)))
    return col.pack()


# ------------------------------------------------------------------ residual (also C02-O12)
AMAT_ROLES = ['r.fx', 'r.fy', 'r.fz', 'e.fx', 'e.fy', 'e.fz', 'm.eta_x', 'm.eta_y', 'm.eta_z', 'm.zeta', 'h0', 'h1', 'h2']


def mk_vmodel():
    g = cx.Obj('TensorMesh', dict(h=[cx.NDArr(cx.Store(f'h{k}')) for k in range(3)]))
    return cx.Obj('VolumeModel', dict(grid=g, eta_x=cx.NDArr(cx.Store('eta_x')), eta_y=cx.NDArr(cx.Store('eta_y')),
                                       eta_z=cx.NDArr(cx.Store('eta_z')), zeta=cx.NDArr(cx.Store('zeta'))))


def roles(args, r, e, m):
    out = []
    for a in args:
        nm = '?'
        for tag, f in (('r', r), ('e', e)):
            for c in 'xyz':
                if f is not None and a is f.fields['f' + c]:
                    nm = f'{tag}.f{c}'
        for k in ('eta_x', 'eta_y', 'eta_z', 'zeta'):
            if a is m.fields[k]:
                nm = 'm.' + k
        for k in range(3):
            if a is m.fields['grid'].fields['h'][k]:
                nm = f'h{k}'
        out.append(nm)
    return out


def task_residual(prop=None):
    col = ob.Collector(prop or PROP, 'solver.residual')
    col.default_replay = replay_solves
    col.function('solver.residual')

    def mk(ctx, norm):
        log = []

        def copy(it, args, kw, node):
            c = new_field('copy-of-sfield')
            c.fields['__copy_of__'] = args[0]
            log.append(('copy', args[0], c))
            return c

        def amat(it, args, kw, node):
            log.append(('amat_x', list(args)))
            # contract of core.amat_x (C02): subtracts A e from the first three arrays in place
            r = [f for t, s_, f in [x for x in log if x[0] == 'copy'] if any(a is f.fields['fx'] for a in args[:1])]
            if r:
                bump(it, r[0], 'core.amat_x')
            return None

        def norm_(it, f, args, kw, node):
            log.append(('norm', args[0]))
            return z3.Real('norm_value')
        ctx.summaries.update({'fields.Field.copy': copy, 'core.amat_x': amat})
        ctx.opts.setdefault('prelude', {})['sp.linalg.norm'] = norm_
        m, s, e = mk_vmodel(), new_field('sfield'), new_field('efield')
        return [m, s, e, norm], {}, dict(m=m, s=s, e=e, log=log)
    res = []
    for norm in (True, False):
        res += cx.run_function('solver.residual', lambda ctx, norm=norm: mk(ctx, norm), summaries={}, opts={})

    def wiring(r):
        log = r.state['log']
        cp = [x for x in log if x[0] == 'copy']
        am = [x for x in log if x[0] == 'amat_x']
        if len(cp) != 1 or len(am) != 1 or cp[0][1] is not r.state['s']:
            return False
        return roles(am[0][1], cp[0][2], r.state['e'], r.state['m']) == AMAT_ROLES
    clause(col, 'operator_applied_to_a_copy_of_the_source_with_field_and_model_in_role_order', res, wiring, sample=True)
    clause(col, 'source_and_field_are_not_mutated', res,
           lambda r: all(e['store'] is not store_of(r.state['s']) and e['store'] is not store_of(r.state['e']) for e in r.mutations()))

    def ret(r):
        log = r.state['log']
        cp = [x for x in log if x[0] == 'copy'][0][2]
        nm = [x for x in log if x[0] == 'norm']
        if cx.is_sym(r.value):
            return len(nm) == 1 and nm[0][1] is cp.fields['_field']
        return r.value is cp and not nm
    clause(col, 'returns_residual_field_or_its_norm', res, ret)
    return _pack(col, OPERATOR_CLAUSES if prop else None)


# ------------------------------------------------------------------ multigrid, fine-grid loop: M1, M2, M4
def mg_c01_summaries(log, s, e):
    def residual(it, args, kw, node):
        norm = (len(args) > 3 and args[3]) or kw.get('norm', False)
        if norm and args[1] is s and args[2] is e:
            t = res_tok(store_of(s), store_of(e))
            log.append(('residual', store_of(e).version, t))
            return t
        return it.ctx.fresh_real('l2') if norm else new_field('resfield')

    def writer(name):
        def f(it, args, kw, node):
            tgt = args[2] if name == 'solver.smoothing' else args[0]
            if tgt is e:
                bump(it, e, name)
            log.append((name, tgt is e))
            return None
        return f

    def child(it, args, kw, node):
        if args[2] is e or args[1] is s:
            log.append(('child-aliases-fine-fields',))
        args[3].fields['l2'] = it.ctx.fresh_real('child_l2')
        return None
    d = c05.mg_summaries([])
    d.update({'solver.residual': residual, 'solver.smoothing': writer('solver.smoothing'),
              'solver.prolongation': writer('solver.prolongation'), 'solver.multigrid': child})
    d.pop('solver._terminate')
    return d


def task_multigrid():
    """one generic fine-grid cycle + the code after the loop, _terminate inlined"""
    col = ob.Collector(PROP, 'solver.multigrid/level0')
    col.default_replay = replay_solves
    col.function('solver.multigrid')
    col.function('solver._terminate')
    fn, wh = c05.mg_while()
    after = fn.body[fn.body.index(wh) + 1:] if wh in fn.body else None
    if after is None:
        raise cx.Unsupported('multigrid: while loop is not a top-level statement')
    resA, preA = c05.fine_entry_paths('F', verb=0)
    resA = [r for r in resA if r.outcome == 'stop']
    carried = assigned_names(wh.body)
    entry_env = {}
    for name in resA[0].value:
        if name in ('model', 'sfield', 'efield', 'var', 'kwargs') or name in carried:
            continue
        v = merge_values(resA, lambda r, name=name: r.value.get(name))
        entry_env[name] = v if v is not None else cx.Opaque('entry-' + name)
    m = z3.Ints('m0 m1 m2')
    tol, ref = z3.Reals('tol l2_refe')
    itv = z3.Int('it')
    pre = [z3.Int('sc_dir') >= 0, z3.Int('sc_dir') <= 3, z3.Int('maxcycle') >= 1, itv >= 0, z3.Int('sc_dir_entry') >= 0,
           z3.Int('sc_dir_entry') <= 3, z3.Int('maxit') >= 1] + [x >= 2 for x in m]
    results = []
    for ssl, verb in ((False, 0), (True, 0), (False, 5), (True, 5)):
        def run(ctx, ssl=ssl, verb=verb):
            log = []
            it = cx.Interp(ctx, 'solver')
            s, e = new_field('sfield'), new_field('efield')
            ctx.summaries.update(mg_c01_summaries(log, s, e))
            var = c05.mk_var(ctx, 'F', False, False)
            var.fields.update(sc_dir=0, lr_dir=0)      # cycling of the directions is C05's subject
            var.fields.update(exit_message='m0?', sslsolver=ssl, maxit=z3.Int('maxit'), tol=tol, l2_refe=ref, verb=verb)
            model = cx.Obj('VolumeModel', dict(grid=cx.Obj('TensorMesh', dict(shape_cells=tuple(m)))), mod='models')
            env = dict(entry_env)
            env.update(model=model, sfield=s, efield=e, var=var, kwargs={})
            for name in sorted(carried):
                env[name] = {'it': itv, 'cycmax': z3.Int('cycmax'), 'cyc': 0}.get(name)
                if env[name] is None:
                    env[name] = ctx.fresh_real(name) if name.startswith('l2') else cx.Opaque('carried-' + name)
            if 'l2_stag' not in carried:
                env['l2_stag'] = cx.NDArr(cx.Store('l2_stag'))
            state = dict(var=var, log=log, env=env, broke=False, s=s, e=e, ssl=ssl)
            try:
                if it.truth(it.ev(wh.test, env)):
                    try:
                        it.exec_block(wh.body, env)
                    except cx._Break:
                        state['broke'] = True
                        it.exec_block(after, env)
            except cx._Raise as r:
                return 'raise', r.exc, state
            return 'return', None, state
        results += cx.explore(run, pc0=pre, summaries={})
    broke = lambda r: r.outcome == 'return' and r.state['broke']

    def final_tok(r):
        return res_tok(store_of(r.state['s']), store_of(r.state['e']))
    clause(col, 'M1_stored_error_is_the_residual_of_the_final_field', results,
           lambda r: (r.state['var'].fields['l2'] == final_tok(r)) if broke(r) else None, pre, sample=True)
    clause(col, 'M1b_error_given_to_terminate_is_recomputed_after_all_writers_of_the_cycle', results,
           lambda r: ([x for x in r.state['log'] if x[0] == 'residual'][-1][1] == store_of(r.state['e']).version
                      if [x for x in r.state['log'] if x[0] == 'residual'] else False) if r.outcome == 'return' else None, pre)
    clause(col, 'M2_converged_message_implies_error_below_tolerance', results,
           lambda r: (z3.Implies(z3.BoolVal(r.state['var'].fields['exit_message'] == 'CONVERGED'), final_tok(r) < tol * ref)) if broke(r) else None, pre)
    clause(col, 'M2b_not_below_tolerance_is_never_reported_converged', results,
           lambda r: (z3.Implies(z3.Not(final_tok(r) < tol * ref), z3.BoolVal(r.state['var'].fields['exit_message'] != 'CONVERGED'))) if broke(r) else None, pre)
    # the reference of the convergence test (|source|, set by solve) and the tolerance are never re-assigned by multigrid itself:
    # neither before the loop (all set-up paths, from C05) nor in a cycle
    fixed = ('l2_refe', 'tol')

    def frame(r):
        v = r.state['var'] if isinstance(getattr(r, 'state', None), dict) and 'var' in r.state else None
        return not any(e['kind'] == 'setattr' and e['attr'] in fixed and (v is None or e['obj'] is v or getattr(e['obj'], 'cls', '') == 'MGParameters')
                       for e in r.events)
    clause(col, 'M6_reference_error_and_tolerance_are_not_reassigned_in_a_cycle', results, frame, pre)
    clause(col, 'M6b_reference_error_and_tolerance_are_not_reassigned_before_the_first_cycle', resA, frame)
    canary(col, 'canary/every_exit_of_the_fine_loop_is_converged', results,
           lambda r: z3.BoolVal(r.state['var'].fields['exit_message'] == 'CONVERGED') if broke(r) else None, pre)
    canary(col, 'canary/stored_error_always_below_tolerance', results, lambda r: (final_tok(r) < tol * ref) if broke(r) else None, pre)
    clause(col, 'M3_loop_left_only_through_terminate_or_exception', results,
           lambda r: (r.state['ssl'] and r.value.typ == '_ConvergenceError') if r.outcome == 'raise' else True, pre)
    clause(col, 'M4_source_never_written__child_gets_its_own_fields', results,
           lambda r: all(e['store'] is not store_of(r.state['s']) for e in r.mutations())
           and not any(x[0] == 'child-aliases-fine-fields' for x in r.state['log']), pre)
    # termination variant for maxit >= 1 (not sslsolver): it reaches maxit
    clause(col, 'M5_iteration_counter_increases_and_stops_at_maxit', results,
           lambda r: z3.And(r.state['env']['it'] == itv + 1,
                            z3.Implies(z3.And(itv + 1 == z3.Int('maxit')), z3.BoolVal(r.state['broke'] or r.outcome == 'raise'))) if r.outcome == 'return' or True else None, pre)
    return col.pack()


# ------------------------------------------------------------------ krylov
def ssl_handler(log):
    """assumed contract K-SCIPY (see module docstring)"""
    def h(it, f, args, kw, node):
        A, M, cb, b, x0 = kw.get('A'), kw.get('M'), kw.get('callback'), kw.get('b'), kw.get('x0')
        log.append(('scipy', f.name, kw))
        ctx = it.ctx
        if ctx.branch(ctx.fresh_bool('applies_A'), 'K-SCIPY'):
            it.call(A.fields['matvec'], [cx.NDArr(cx.Store('krylov-vector'))], {}, node)
        if M is not None and ctx.branch(ctx.fresh_bool('applies_M'), 'K-SCIPY'):
            it.call(M.fields['matvec'], [cx.NDArr(cx.Store('krylov-rhs'))], {}, node)
        if ctx.branch(ctx.fresh_bool('calls_callback'), 'K-SCIPY'):
            it.call(cb, [cx.NDArr(cx.Store('iterate-given-to-callback'))], {}, node)
        if M is not None and ctx.branch(ctx.fresh_bool('applies_M_again'), 'K-SCIPY'):
            it.call(M.fields['matvec'], [cx.NDArr(cx.Store('krylov-rhs2'))], {}, node)
        x = cx.NDArr(cx.Store('scipy-returned-x'))
        i = z3.Int('scipy_info')
        log.append(('scipy-return', x, i))
        return (x, i)
    return h


def linop(it, f, args, kw, node):
    return cx.Obj('LinearOperator', dict(kw))


def task_krylov(cycle, prop=None):
    col = ob.Collector(prop or PROP, f'solver.krylov/cycle_{cycle}')
    col.default_replay = replay_solves
    col.function('solver.krylov')
    tol, ref = z3.Reals('tol l2_refe')
    info = z3.Int('scipy_info')

    def mk(ctx):
        log = []
        s, e = new_field('sfield'), new_field('efield')

        def residual(it, args, kw, node):
            sf, ef = args[1], args[2]
            t = res_tok(store_of(sf), store_of(ef))
            log.append(('residual', ef, store_of(ef).version, t))
            return t

        def field(it, args, kw, node):
            data = args[1] if len(args) > 1 else kw.get('data')
            if isinstance(data, cx.NDArr):
                f = new_field('wrap')           # fields.Field(grid, ndarray): wraps the given storage (np.asarray)
                f.fields['_field'] = data
                for c in 'xyz':
                    f.fields['f' + c] = cx.NDArr(data.store, view=('comp', c))
                return f
            return new_field('fresh-field', val=ZERO)

        def mg(it, args, kw, node):
            # contract of multigrid used as pre-conditioner (sslsolver truthy): writes its own efield argument,
            # var.l2, var.it; message may become CONVERGED; may raise _ConvergenceError after DIVERGED/STAGNATED
            var = args[3]
            bump(it, args[2], 'solver.multigrid')
            var.fields['l2'] = it.ctx.fresh_real('precond_l2')
            var.fields['it'] = it.ctx.fresh_int('mg_it')
            k = it.ctx.branch(it.ctx.fresh_bool('precond_diverges'), 'mg')
            if k:
                var.fields['exit_message'] = 'DIVERGED'
                log.append(('precond-raised',))
                raise cx._Raise(cx.ExcVal('_ConvergenceError'))
            if it.ctx.branch(it.ctx.fresh_bool('precond_converged'), 'mg'):
                var.fields['exit_message'] = 'CONVERGED'
            return None

        def amat(it, args, kw, node):
            log.append(('amat_x', list(args)))
            return None
        ctx.summaries.update({'solver.residual': residual, 'fields.Field': field, 'solver.multigrid': mg, 'core.amat_x': amat,
                              'solver._print_one_liner': quiet, 'solver.MGParameters.cprint': quiet})
        pl = ctx.opts.setdefault('prelude', {})
        for nm in ('bicgstab', 'cgs', 'gcrotmk'):
            pl['sp.sparse.linalg.' + nm] = ssl_handler(log)
        pl['sp.sparse.linalg.LinearOperator'] = linop
        var = cx.Obj('MGParameters', dict(sslsolver='bicgstab', cycle=cycle, tol=tol, l2_refe=ref, ssl_maxit=z3.Int('ssl_maxit'),
                                          exit_message='', l2=z3.Real('l2_initial'), ssl_it=0, it=0, verb=0,
                                          runtime_at_cycle=cx.Vec([0.0]), error_at_cycle=cx.Vec([0.0]), time=cx.Obj('Timer', {})), mod='solver')
        m = mk_vmodel()
        return [m, s, e, var], {}, dict(var=var, s=s, e=e, log=log, m=m)
    res = cx.run_function('solver.krylov', mk, summaries={}, opts={})
    clause(col, 'returns_normally', res, lambda r: r.outcome == 'return')
    msg = lambda r: r.state['var'].fields['exit_message']
    raised = lambda r: any(x[0] == 'precond-raised' for x in r.state['log'])
    clause(col, 'K1_converged_iff_scipy_reports_success_and_no_convergence_error', res,
           lambda r: z3.BoolVal(msg(r) == 'CONVERGED') == z3.And(info == 0, z3.BoolVal(not raised(r))), sample=True)
    canary(col, 'canary/krylov_always_converged', res, lambda r: msg(r) == 'CONVERGED')
    if cycle is not None:
        canary(col, 'canary/converged_whenever_info_is_zero_even_if_the_preconditioner_failed', res,
               lambda r: z3.BoolVal(msg(r) == 'CONVERGED') == (info == 0))
    clause(col, 'K2_positive_info_is_max_iteration__negative_info_is_an_error_text', res,
           lambda r: z3.And(z3.Implies(z3.And(info > 0, z3.BoolVal(not raised(r))), z3.BoolVal(msg(r) == 'MAX. ITERATION REACHED, NOT CONVERGED')),
                            z3.Implies(z3.Or(info < 0, z3.BoolVal(raised(r))), z3.BoolVal(isinstance(msg(r), cx.Opaque) or (isinstance(msg(r), str) and msg(r) not in ('', 'CONVERGED'))))))

    def k3(r):
        if raised(r):
            return True
        ret = [x for x in r.state['log'] if x[0] == 'scipy-return']
        muts = [e for e in r.mutations() if e['store'] is store_of(r.state['e'])]
        return len(ret) == 1 and len(muts) >= 1 and muts[-1].get('value') is ret[0][1]
    clause(col, 'K3_returned_solution_is_written_into_the_callers_field', res, k3)
    clause(col, 'K4_stored_error_is_the_residual_of_the_field_handed_back', res,
           lambda r: r.state['var'].fields['l2'] == res_tok(store_of(r.state['s']), store_of(r.state['e'])))

    def amv(r):
        ok = True
        for x in r.state['log']:
            if x[0] == 'amat_x':
                rl = roles(x[1], None, None, r.state['m'])
                ok = ok and rl[6:] == AMAT_ROLES[6:] and all(isinstance(a, cx.NDArr) for a in x[1][:6]) \
                    and len({a.store.uid for a in x[1][:3]}) == 1 and len({a.store.uid for a in x[1][3:6]}) == 1 \
                    and x[1][0].store is not x[1][3].store and [a.view[1] for a in x[1][:6]] == list('xyzxyz') \
                    and x[1][0].store.val is not None
        return ok
    clause(col, 'K5_matvec_applies_the_operator_to_a_fresh_zero_field_with_model_in_role_order', res, amv)
    clause(col, 'K6_source_never_written', res, lambda r: all(e['store'] is not store_of(r.state['s']) for e in r.mutations()))
    # C05: the cycling state (current directions and the iterators they are drawn from, levels, cycle type) belongs to multigrid(); krylov and its
    # pre-conditioner wrapper hand `var` on and write nothing of it, so value and iterator cannot get out of step between two pre-conditioner calls
    CYCLING = {'sc_dir', 'lr_dir', 'sc_cycle', 'lr_cycle', 'raw_sc_cycle', 'raw_lr_cycle', 'clevel', 'cycle', 'cycmax', 'maxcycle', 'max_level', 'sslsolver'}
    clause(col, 'K7_krylov_and_its_preconditioner_wrapper_write_nothing_of_the_cycling_state', res,
           lambda r: not [e for e in r.events if e['kind'] in ('setattr', 'setattr-opaque', 'delattr') and e['obj'] is r.state['var'] and e['attr'] in CYCLING])
    return _pack(col, (OPERATOR_CLAUSES if prop == 'C02' else ('K7_',)) if prop else None)


# ------------------------------------------------------------------ solve
def task_solve(sslsolver, cycle, supplied, prop=None):
    col = ob.Collector(prop or PROP, f'solver.solve/ssl_{sslsolver}/cycle_{cycle}/efield_{"supplied" if supplied else "fresh"}')
    col.default_replay = replay_solves
    col.function('solver.solve')
    tol = z3.Real('tol')
    shape = z3.Ints('n0 n1 n2')
    dts, dte = z3.Ints('dtype_s dtype_e')
    tau = z3.Real('tiny100')
    ret_info, always = z3.Bool('return_info'), z3.Bool('always_return')
    hook = c05.max_level_hook()

    def mk(ctx, left=()):
        log = []
        grid = cx.Obj('TensorMesh', {})
        s = new_field('sfield', dtype=dts, grid=grid)
        e = new_field('efield', dtype=dte, grid=grid) if supplied else None
        model = cx.Obj('Model', dict(shape=tuple(shape), grid=grid), mod='models')
        # whatever an earlier call of solve left on its arguments is still there (the model meanwhile edited in place)
        for who, attr, value in left:
            dict(model=model, sfield=s, grid=grid)[who].fields[attr] = value

        def volume_model(it, args, kw, node):
            vm = mk_vmodel()
            log.append(('VolumeModel', list(args), dict(kw), vm))
            return vm

        def residual(it, args, kw, node):
            t = res_tok(store_of(args[1]), store_of(args[2]))
            log.append(('residual', args[2], store_of(args[2]).version, args[0]))
            it.ctx.assume(t >= 0)
            return t

        def field(it, args, kw, node):
            f = new_field(f'fresh-field@{getattr(node, "lineno", 0)}', dtype=kw.get('dtype'), val=ZERO, grid=args[0], freq=kw.get('frequency'))
            log.append(('Field', f, kw))
            return f

        def solver_summary(name):
            def f(it, args, kw, node):
                vm, sf, ef, var = args
                log.append((name, ef, store_of(ef).version, vm))
                bump(it, ef, name)
                l2 = res_tok(store_of(sf), store_of(ef))          # contract M1 / K4
                it.ctx.assume(l2 >= 0)
                var.fields['l2'] = l2
                var.fields['it'] = it.ctx.fresh_int('it_mg')
                var.fields['ssl_it'] = it.ctx.fresh_int('it_ssl')
                if it.ctx.branch(it.ctx.fresh_bool('solver_converged'), name):
                    var.fields['exit_message'] = 'CONVERGED'
                    # M2 (multigrid) / K-SCIPY convergence test (krylov)
                    it.ctx.assume(l2 <= var.fields['tol'] * var.fields['l2_refe'])
                else:
                    var.fields['exit_message'] = 'SOME FAILURE MESSAGE'
                return None
            return f

        def norm_(it, f, args, kw, node):
            a = args[0]
            t = NORM(a.store.uid, a.store.version)
            it.ctx.assume(z3.Or(t == 0, t >= tau))      # sources are exactly zero or not denormal-small
            return t

        def finfo(it, f, args, kw, node):
            return cx.Obj('finfo', dict(tiny=tau / 100))
        ctx.assume(tau > 0)
        ctx.summaries.update({'solver.residual': residual, 'fields.Field': field, 'models.VolumeModel': volume_model,
                              'solver.multigrid': solver_summary('solver.multigrid'), 'solver.krylov': solver_summary('solver.krylov'),
                              'solver._print_one_liner': quiet, 'solver.MGParameters.cprint': quiet,
                              'solver.MGParameters.__repr__': lambda it, a, k, n: 'repr',
                              'solver.MGParameters._max_level': quiet})
        pl = ctx.opts.setdefault('prelude', {})
        pl['sp.linalg.norm'] = norm_
        pl['np.finfo'] = finfo
        kw = dict(cycle=cycle, tol=tol, return_info=ret_info, always_return=always, semicoarsening=0, linerelaxation=0)
        if supplied:
            kw['efield'] = e
        return [model, s, sslsolver], dict(kw, verb=z3.Int('verb')), dict(s=s, e=e, log=log, model=model, grid=grid)
    pre = [z3.Int('verb') >= -1, z3.Int('verb') <= 5] + [x >= 2 for x in shape] + [tol > 0]
    res = cx.run_function('solver.solve', mk, pc0=pre, summaries={}, opts={})
    # state an earlier call leaves on the model, the source field or the grid (attribute stores), one representative value per attribute
    left = {}
    for r in res:
        for ev in r.events:
            if ev['kind'] in ('setattr', 'setattr-opaque'):
                for who in ('model', 'grid', 's'):
                    if ev['obj'] is r.state[who]:
                        left.setdefault(('sfield' if who == 's' else who, ev['attr']), ev['value'])
    res_again = cx.run_function('solver.solve', lambda ctx: mk(ctx, [(w, a, v) for (w, a), v in left.items()]), pc0=pre, summaries={}, opts={}) if left else []
    ok = [r for r in res if r.outcome == 'return']
    col.lia('some_path_returns', [], z3.BoolVal(len(ok) > 0))
    ref = NORM(0, 0)

    def var_of(r):
        for e in r.events:
            if e['kind'] == 'new' and e['cls'] == 'solver.MGParameters':
                return e['obj']
        return None

    def handed_back(r):
        """the Field object the caller ends up with"""
        if supplied:
            return r.state['e']
        v = r.value
        if isinstance(v, tuple):
            v = v[0]
        return v if isinstance(v, cx.Obj) and v.cls == 'Field' else None

    def info_of(r):
        v = r.value
        if isinstance(v, tuple):
            v = v[1]
        return v if isinstance(v, dict) else None

    def refnorm(r):
        return NORM(store_of(r.state['s']).uid, store_of(r.state['s']).version)

    # S5 dtype mismatch raises, before anything is written
    if supplied:
        clause(col, 'S5a_dtype_mismatch_raises_ValueError_and_nothing_else_does', res,
               lambda r: (dts != dte) if r.outcome == 'raise' else (dts == dte), pre)
        clause(col, 'S5b_no_write_before_the_dtype_check_fails', res,
               lambda r: (len(r.mutations()) == 0) if r.outcome == 'raise' else None, pre)

        def pec(r):
            if r.outcome != 'return':
                return None
            st = store_of(r.state['e'])
            want = {('x', 1, 0), ('x', 1, -1), ('x', 2, 0), ('x', 2, -1), ('y', 0, 0), ('y', 0, -1), ('y', 2, 0), ('y', 2, -1),
                    ('z', 0, 0), ('z', 0, -1), ('z', 1, 0), ('z', 1, -1)}
            got = set()
            first_use = None
            last_pec = -1
            for k, e in enumerate(r.events):
                if e['kind'] == 'mutate' and e['store'] is st and e['how'] == 'setitem' and isinstance(e.get('arr'), cx.NDArr) \
                        and isinstance(e['arr'].view, tuple) and e['arr'].view[0] == 'comp' and isinstance(e.get('key'), tuple):
                    key = e['key']
                    fixed = [(ax, v) for ax, v in enumerate(key) if not isinstance(v, slice)]
                    full = all(v == slice(None, None, None) for v in key if isinstance(v, slice))
                    if len(fixed) == 1 and full and e.get('value') in (0, 0.0):
                        got.add((e['arr'].view[1], fixed[0][0], fixed[0][1]))
                        last_pec = k
                if first_use is None and e['kind'] == 'call' and e['name'] in ('solver.residual', 'solver.krylov', 'solver.multigrid') \
                        and any(a is r.state['e'] for a in e['args']):
                    first_use = k
            return got == want and (first_use is None or last_pec < first_use)
        clause(col, 'S5c_PEC_zeroing_covers_exactly_the_twelve_boundary_faces_before_any_residual_or_solve', res, pec, pre, sample=True)

    # S1 exit status <=> message
    def s1(r):
        inf, var = info_of(r), var_of(r)
        if r.outcome != 'return' or inf is None:
            return None
        return inf['exit'] == int(var.fields['exit_message'] != 'CONVERGED') and inf['exit_message'] is var.fields['exit_message'] \
            or (inf['exit'] == int(var.fields['exit_message'] != 'CONVERGED') and inf['exit_message'] == var.fields['exit_message'])
    clause(col, 'S1_exit_status_zero_iff_message_CONVERGED', res, s1, pre)
    canary(col, 'canary/solve_always_reports_success', res,
           lambda r: (info_of(r)['exit'] == 0) if r.outcome == 'return' and info_of(r) is not None else None, pre)

    # S2/S4/S8: success certifies the object handed back
    def s2(r):
        inf = info_of(r)
        E = handed_back(r)
        if r.outcome != 'return' or inf is None or inf['exit'] != 0:
            return None
        if E is None:
            return False if not supplied and (isinstance(r.value, tuple) or isinstance(r.value, cx.Obj)) else None
        st, ss = store_of(E), store_of(r.state['s'])
        zero_src = refnorm(r) == 0
        zero_field = z3.BoolVal(st.val is not None and z3.is_rational_value(z3.simplify(st.val)) and z3.simplify(st.val).as_fraction() == 0)
        general = z3.And(inf['abs_error'] == RES(ss.uid, ss.version, st.uid, st.version), inf['abs_error'] <= tol * refnorm(r))
        return z3.If(zero_src, z3.And(zero_field, inf['abs_error'] == 0), general)
    clause(col, 'S2_S4_success_means_reported_error_is_the_residual_of_the_field_handed_back_and_below_tol__zero_source_gives_zero_field',
           res, s2, pre, sample=True)

    def s2b(r):
        """success without return_info (nothing reported): the field handed back still is the certified one"""
        E = handed_back(r)
        var = var_of(r)
        if r.outcome != 'return' or var is None or var.fields['exit_message'] != 'CONVERGED' or E is None:
            return None
        st, ss = store_of(E), store_of(r.state['s'])
        zero_field = z3.BoolVal(st.val is not None and z3.is_rational_value(z3.simplify(st.val)) and z3.simplify(st.val).as_fraction() == 0)
        return z3.If(refnorm(r) == 0, zero_field, RES(ss.uid, ss.version, st.uid, st.version) <= tol * refnorm(r))
    clause(col, 'S2b_field_handed_back_on_success_is_within_tolerance_or_zero_for_zero_source', res, s2b, pre)

    def s3(r):
        inf, var = info_of(r), var_of(r)
        if r.outcome != 'return' or inf is None:
            return None
        same = lambda a, b: (a is b) or (cx.is_sym(a) and cx.is_sym(b) and a.eq(b))
        return same(inf['ref_error'], var.fields['l2_refe']) and same(inf['abs_error'], var.fields['l2']) and same(inf['tol'], var.fields['tol'])
    clause(col, 'S3_info_fields_are_the_bookkeeping_values', res, s3, pre)

    def s6(r):
        if supplied or r.outcome != 'return':
            return None
        E = handed_back(r)
        if E is None:
            return None
        return E.fields['_field'].dtype is dts or (cx.is_sym(E.fields['_field'].dtype) and E.fields['_field'].dtype.eq(dts))
    if not supplied:
        clause(col, 'S6_fresh_field_has_the_dtype_of_the_source', res, s6, pre)

    def s7(r):
        if r.outcome != 'return':
            return None
        v = r.value
        is_f = lambda x: isinstance(x, cx.Obj) and x.cls == 'Field'
        form = z3.BoolVal(False)
        do_ret = z3.BoolVal(True) if not supplied else always
        if isinstance(v, tuple) and len(v) == 2 and is_f(v[0]) and isinstance(v[1], dict):
            form = z3.And(do_ret, ret_info)
        elif is_f(v):
            form = z3.And(do_ret, z3.Not(ret_info))
        elif isinstance(v, dict):
            form = z3.And(z3.Not(do_ret), ret_info)
        elif v is None:
            form = z3.And(z3.Not(do_ret), z3.Not(ret_info))
        return form
    clause(col, 'S7_return_form_follows_do_return_and_return_info', res, s7, pre)
    clause(col, 'S9_source_field_is_never_written', res,
           lambda r: all(e['store'] is not store_of(r.state['s']) for e in r.mutations()), pre)

    def s10(r):
        """C02: the operator every residual / multigrid / Krylov call applies is the VolumeModel built IN THIS CALL from the model and the source
        field given to this call (res_again: also when an earlier call left state on the model, the source field or the grid)"""
        from .c0910 import bind_call
        current = None
        used = 0
        for x in r.state['log']:
            if x[0] == 'VolumeModel':
                try:
                    b = bind_call('models.VolumeModel', x[1], x[2])
                except Exception:
                    from .cxutil import UNRECOGNISED
                    return UNRECOGNISED('the VolumeModel call cannot be bound to its signature')
                if b.get('model') is not r.state['model'] or b.get('sfield') is not r.state['s']:
                    return False
                current = x[3]
            elif x[0] in ('residual', 'solver.multigrid', 'solver.krylov'):
                used += 1
                if current is None or x[3] is not current:
                    return False
        return True if used or r.outcome != 'return' else None
    clause(col, 'S10_every_operator_application_uses_the_volume_model_built_in_this_call_from_the_given_model_and_source_field__whatever_an_earlier_call_left_behind',
           res + res_again, s10, pre)
    return _pack(col, OPERATOR_CLAUSES if prop else None)


# ------------------------------------------------------------------ solve_source
def task_solve_source():
    """solver.solve_source(model, source, frequency, **kwargs): the source field is get_source_field(model.grid, source, frequency) and the
    result is what solve(model, that field, **kwargs) returns -- so every clause about solve carries over, for every option"""
    col = ob.Collector(PROP, 'solver.solve_source')
    col.function('solver.solve_source')
    col.function('solver.solve')      # the parameter names of solve decide whether a keyword could be captured on the way

    def mk(ctx, extra):
        log = []

        def gsf(it, args, kw, node):
            sf = new_field('source-field')
            log.append(('get_source_field', list(args), dict(kw), sf))
            return sf

        def solve_(it, args, kw, node):
            out = cx.Opaque('what-solve-returns')
            log.append(('solve', list(args), dict(kw), out))
            return out
        ctx.summaries.update({'fields.get_source_field': gsf, 'solver.solve': solve_})
        model = cx.Obj('Model', dict(grid=cx.Obj('TensorMesh', {})))
        src, frq = cx.Opaque('the-source'), z3.Real('frequency')
        kw = dict(extra)
        return [model, src, frq], kw, dict(model=model, src=src, frq=frq, kw=kw, log=log)
    opts_sets = [{}, dict(efield=cx.Opaque('start-field'), tol=z3.Real('tol'), return_info=True, sslsolver='bicgstab', cycle=None, maxit=z3.Int('maxit'))]
    res = []
    for extra in opts_sets:
        res += cx.run_function('solver.solve_source', lambda ctx, extra=extra: mk(ctx, extra), summaries={}, opts={})

    def wiring(r):
        log = r.state['log']
        g = [x for x in log if x[0] == 'get_source_field']
        sv = [x for x in log if x[0] == 'solve']
        if r.outcome != 'return' or len(g) != 1 or len(sv) != 1:
            return False
        from .c0910 import bind_call
        try:
            bg = bind_call('fields.get_source_field', g[0][1], g[0][2])
            bs = bind_call('solver.solve', sv[0][1], sv[0][2])
        except Exception:
            from .cxutil import UNRECOGNISED
            return UNRECOGNISED('calls of get_source_field / solve cannot be bound to their signatures')
        ok = bg.get('grid') is r.state['model'].fields['grid'] and bg.get('source') is r.state['src'] and bg.get('frequency') is r.state['frq']
        ok = ok and bs.get('model') is r.state['model'] and bs.get('sfield') is g[0][3]
        given = r.state['kw']
        rest = dict(bs)
        rest.update(rest.pop('**', {}) or {})
        ok = ok and all(k in rest and rest[k] is v for k, v in given.items())
        return ok and r.value is sv[0][3]
    clause(col, 'source_field_of_the_given_source_on_the_model_grid_is_solved_with_every_given_option__result_handed_back_unchanged', res, wiring, sample=True)
    def exact(r):
        sv = [x for x in r.state['log'] if x[0] == 'solve']
        if len(sv) != 1:
            return False
        # what is handed to solve besides the model and the source field (positional and keyword forms are the same call)
        passed = set(sv[0][2]) | set(['model', 'sfield'][:len(sv[0][1])])
        if len(sv[0][1]) > 2:
            from .cxutil import UNRECOGNISED
            return UNRECOGNISED('options are handed to solve positionally')
        return passed - {'model', 'sfield'} == set(r.state['kw']) and {'model', 'sfield'} <= passed
    clause(col, 'no_option_is_added_or_dropped_on_the_way_to_solve', res, exact)
    canary(col, 'canary/start_field_is_dropped', [r for r in res if r.state['kw']],
           lambda r: z3.BoolVal('efield' not in [x for x in r.state['log'] if x[0] == 'solve'][0][2]))
    return col.pack()


def task_concrete():
    from . import c01_concrete
    col = ob.Collector(PROP, 'concrete')
    col.default_replay = replay_solves
    for f in ('solver.solve', 'solver.krylov', 'solver.multigrid', 'solver.residual'):
        col.function(f)
    seed = int(os.environ.get('VERIF_SEED', '0'))
    tier = os.environ.get('VERIF_TIER', 'quick')
    r = ob.guarded(c01_concrete.check, tier, seed)
    col.concrete('real_solves_success_certifies_field_independent_residual', r['reproduced'] is False, r,
                 bounded='8x8x8 / 8x4x6 stretched grids; cycle x sslsolver x fresh/supplied/zero-source/good-enough start; residual recomputed with the checker-side operator (contracts.spec)', cases=r.get('cases', 0))
    r = ob.guarded(c01_concrete.check_breakdown)
    col.concrete('krylov_breakdown_after_converged_preconditioner_is_reported_as_failure', r['reproduced'] is False, r,
                 bounded='one 8x8x8 problem, scipy bicgstab replaced by a stub within its contract (applies M once, returns info=-10)', cases=1)
    return col.pack()


def tasks(tier):
    t = [('contracts.c01', 'task_terminate', {}), ('contracts.c01', 'task_residual', {}), ('contracts.c01', 'task_multigrid', {}),
         ('contracts.c01', 'task_krylov', dict(cycle='F')), ('contracts.c01', 'task_krylov', dict(cycle=None)),
         ('contracts.c01', 'task_solve_source', {}), ('contracts.c01', 'task_concrete', {})]
    for ssl, cyc in ((False, 'F'), ('bicgstab', 'F'), ('bicgstab', None)):
        for sup in (False, True):
            t.append(('contracts.c01', 'task_solve', dict(sslsolver=ssl, cycle=cyc, supplied=sup)))
    # dependency closure: the residual token Res(s, e) means || s - A_spec e || for the model GIVEN only if the coefficients the solver reads from the
    # VolumeModel are those of that model in every anisotropy case (C02: constructor, eta_y / eta_z accessors) -- re-run here, with the bounded check
    # of the operator the real solver applies
    from . import c02_model
    t += c02_model.tasks(tier) + [('contracts.c02', 'task_concrete_solver', {})]
    return t


LEVEL = ('Deductive proof over the real source of the solver control code with ghost version counters and residual tokens: _terminate (all paths), '
         'residual wiring, the fine-grid loop of multigrid (stored error == residual of the final field; CONVERGED => below tolerance), krylov '
         '(exit mapping, returned solution written back, stored error == residual of the field handed back) and solve (exit status, info dict, PEC '
         'zeroing, dtype check, zero-source and good-enough branches, return forms), for symbolic tolerances/shapes/flags.')
ASSUMPTIONS = ['K-SCIPY: assumed contract of scipy.sparse.linalg.{bicgstab,cgs,gcrotmk} (see contracts/c01.py docstring)',
               'PEC after the Krylov solver: the returned x lies in x0 + span of operator / pre-conditioner outputs, which have zero tangential boundary rows (C02 O4-O6, C03/C04 frames)',
               'sources are exactly zero or have a norm >= 100*tiny',
               'fields.Field(grid, ndarray) wraps the given storage; fields.Field(grid, dtype=..) and Field.copy() allocate fresh storage',
               'C02 (amat_x == A_spec) gives the meaning of the token Res(s, e@v) = ||s - A_spec e||',
               'termination of the multigrid loop is proved only for maxit >= 1 without sslsolver (variant maxit - it)']
