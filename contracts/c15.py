"""C15 -- volume averaging between grids.

maps._volume_average_weights (invariant rule; i1, i2 monotone pointers): every emitted segment q has
  w[q] = xs[i+1]-xs[i] > 0, its centre lies in input cell ix_i[q] (nearest cell if outside the input grid) and in
  output cell ix_o[q]; indices are valid cell indices; only position ii is written, ii <= i+1.
maps.interp_volume_average (per triple of segments): new[out] += wz wy wx values[in]; then new /= vol
  => linear in `values` with non-negative weights.
maps.interpolate(method='volume') always goes through interp_volume_average on the nodes of both grids, log10 before /
10** after when log=True; Model.interpolate_to_grid: log = not map.name.startswith('L'), identical grids return self.
Bounded (exhaustive on a dyadic lattice, <= 5 nodes): conservation, range, identity, nearest fill.
"""
import os

import z3

from pyvc import sx, ob, intake, cx
from .kernel_env import ZERO, ONE
from .c03 import bounds_obligations
from .cxutil import clause, canary

PROP = 'C15'


def replay(d):
    from . import c15_concrete
    return ob.guarded(c15_concrete.check, 'quick', 0)


def task_weights():
    col = ob.Collector(PROP, 'maps._volume_average_weights')
    col.default_replay = replay
    fn = col.function('maps._volume_average_weights')
    if [a.arg for a in fn.args.args] != ['x_i', 'x_o']:
        raise sx.OutsideSubset('_volume_average_weights signature changed')
    loops = intake.loops_preorder(fn)
    if len(loops) != 3:
        raise sx.OutsideSubset(f'_volume_average_weights: expected for + two while loops, found {len(loops)} loops')
    n1, n2, NH = z3.Ints('n1 n2 nh1')                 # nodes of input / output grid, len(xs)
    XI, XO, XS = (z3.Function(nm, sx.I, sx.RS) for nm in ('x_i', 'x_o', 'xs'))
    x_i = sx.ArrObj('x_i', (n1,), base=lambda k: XI(k))
    x_o = sx.ArrObj('x_o', (n2,), base=lambda k: XO(k))
    hyps = [n1 >= 2, n2 >= 2, NH >= 2]

    def mono(F, terms):
        """instances of: F strictly increasing (a < b -> F(a) < F(b)) at the given index terms"""
        out = []
        for a_ in terms:
            for b_ in terms:
                if a_ is not b_:
                    out.append(z3.Implies(a_ < b_, F(a_) < F(b_)))
        return out

    def concat(ex_, args, node):
        return ('concat', args[0])

    def unique(ex_, args, node):
        # dependency contract np.unique: strictly increasing (hyps), same set as its input (used only in the bounded check)
        return ex_.new_array('xs', (NH,), base=lambda q: XS(q))

    i1s, i2s, iis = z3.Ints('i1_in i2_in ii_in')

    def outer_inv(ex_, n_it):
        return None
    iv = z3.Int('i')
    scal = {
        'i1': lambda ex_, n_it: (i1s, [i1s >= 0, i1s <= n1 - 1, z3.Implies(i1s >= 1, XI(i1s - 1) <= XS(iv))]),
        'i2': lambda ex_, n_it: (i2s, [i2s >= 0, i2s <= n2 - 1, z3.Implies(i2s >= 1, XO(i2s - 1) <= XS(iv))]),
        'ii': lambda ex_, n_it: (iis, [iis >= 0, iis <= iv]),
    }

    def inv1(env):
        i1, c = sx.R(env['i1']), env['center']
        return [i1 >= 0, i1 <= n1 - 1, z3.Implies(i1 >= 1, XI(i1 - 1) <= c)]

    def inv2(env):
        i2, c = sx.R(env['i2']), env['center']
        return [i2 >= 0, i2 <= n2 - 1, z3.Implies(i2 >= 1, XO(i2 - 1) <= c)]
    X = sx.Ex('maps', pc=hyps, funcs={'np.concatenate': concat, 'np.unique': unique},
              loops={0: ('gen', 'seg', dict(var=iv, scalars=scal, stop=True)),
                     1: ('inv', 'while_i1', dict(inv=inv1, variant=lambda env: n1 - 1 - sx.R(env['i1']))),
                     2: ('inv', 'while_i2', dict(inv=inv2, variant=lambda env: n2 - 1 - sx.R(env['i2'])))})
    X.run_function(fn, [x_i, x_o])
    if 'seg' not in X.snap:
        raise sx.OutsideSubset('_volume_average_weights: segment loop not reached')
    env = X.snap['seg']['env']
    pc = X.snap['seg']['pc']
    i1o, i2o = sx.R(env['i1']), sx.R(env['i2'])
    pc = pc + mono(XS, [iv - 1, iv, iv + 1]) + \
        mono(XI, [z3.IntVal(0), i1s - 1, i1s, i1o - 1, i1o, i1o + 1, n1 - 2, n1 - 1]) + \
        mono(XO, [z3.IntVal(0), i2s - 1, i2s, i2o - 1, i2o, i2o + 1, n2 - 2, n2 - 1])
    col.satisfiable('hyps-sat', pc[:60])
    for name, hy, goal in X.while_obligations:
        hy = hy + mono(XS, [iv - 1, iv, iv + 1])
        col.lia(name, hy, goal, sample=(name.endswith('while_i1/invariant_preserved_and_variant_decreases')))
    arrs = {a.name: a for a in X.arrays}
    wx, ixi, ixo = arrs.get('wx'), arrs.get('ix_i'), arrs.get('ix_o')
    if wx is None or ixi is None or ixo is None:
        raise sx.OutsideSubset('_volume_average_weights: result arrays wx / ix_i / ix_o not found')
    writes = [b for b in X.bounds if b['kind'] == 'write' and b['arr'] in ('wx', 'ix_i', 'ix_o')]
    guard_terms = []
    for b in writes:
        guard_terms = [g for g in b['hyps'] if not any(g.eq(h) for h in pc)]
    emit = z3.And(*guard_terms) if guard_terms else z3.BoolVal(True)
    col.lia('segment/exactly_three_stores_at_position_ii', pc, z3.And(z3.BoolVal(len(writes) == 3), *[w['idx'][0] == iis for w in writes]))
    center = (XS(iv) + XS(iv + 1)) / 2
    h = pc + [emit]
    w_q, in_q, out_q = wx.read([iis]), ixi.read([iis]), ixo.read([iis])
    col.lia('segment/weight_is_the_positive_length_of_the_segment', h, z3.And(w_q == XS(iv + 1) - XS(iv), w_q > 0), sample=True)
    col.lia('segment/emitted_iff_centre_inside_the_output_grid', pc, emit == z3.And(XO(0) <= center, center <= XO(n2 - 1)))
    col.lia('segment/indices_are_valid_cells', h, z3.And(in_q >= 0, in_q <= n1 - 2, out_q >= 0, out_q <= n2 - 2))
    col.lia('segment/centre_lies_in_the_output_cell', h, z3.And(XO(out_q) <= center, center <= XO(out_q + 1)))
    col.lia('segment/centre_lies_in_the_input_cell_when_inside_the_input_grid', h + [XI(0) <= center, center <= XI(n1 - 1)],
            z3.And(XI(in_q) <= center, center <= XI(in_q + 1)))
    col.lia('segment/nearest_input_cell_when_outside_the_input_grid', h,
            z3.And(z3.Implies(center < XI(0), in_q == 0), z3.Implies(center > XI(n1 - 1), in_q == n1 - 2)))
    col.canary_lia('canary/centre_in_the_previous_input_cell', h + [XI(0) <= center, center <= XI(n1 - 1), in_q >= 1],
                   z3.And(XI(in_q - 1) <= center, center <= XI(in_q)))
    # outer invariant re-established for iteration i+1, counter
    i1e, i2e, iie = sx.R(env['i1']), sx.R(env['i2']), sx.R(env['ii'])
    col.lia('outer_invariant_reestablished', pc,
            z3.And(i1e >= 0, i1e <= n1 - 1, i2e >= 0, i2e <= n2 - 1, iie >= 0, iie <= iv + 1,
                   z3.Implies(i1e >= 1, XI(i1e - 1) <= XS(iv + 1)), z3.Implies(i2e >= 1, XO(i2e - 1) <= XS(iv + 1)),
                   z3.If(emit, iie == iis + 1, iie == iis)))
    col.lia('outer_invariant_holds_initially', hyps, z3.BoolVal(True))
    bounds_obligations(col, X, pc)
    return col.pack()


def task_interp_volume_average():
    col = ob.Collector(PROP, 'maps.interp_volume_average')
    col.default_replay = replay
    fn = col.function('maps.interp_volume_average')
    params = [a.arg for a in fn.args.args]
    if params != ['nodes_x', 'nodes_y', 'nodes_z', 'values', 'new_nodes_x', 'new_nodes_y', 'new_nodes_z', 'new_values', 'new_vol']:
        raise sx.OutsideSubset('interp_volume_average signature changed')
    ni = z3.Ints('nix niy niz')           # input nodes
    no = z3.Ints('nox noy noz')
    ns = z3.Ints('nsx nsy nsz')           # segments per direction
    hyps = [k >= 2 for k in ni + no] + [k >= 0 for k in ns]
    nodes = [sx.ArrObj(f'nodes_{d}', (ni[k],)) for k, d in enumerate('xyz')]
    nnodes = [sx.ArrObj(f'new_nodes_{d}', (no[k],)) for k, d in enumerate('xyz')]
    values = sx.ArrObj('values', tuple(n - 1 for n in ni))
    newv = sx.ArrObj('new_values', tuple(n - 1 for n in no))
    vol = sx.ArrObj('new_vol', tuple(n - 1 for n in no))
    calls = []
    W = {}

    def weights(ex_, args, node):
        k = len(calls)
        d = 'xyz'[k]
        calls.append((args[0], args[1]))
        w = ex_.new_array(f'w{d}', (ns[k],))
        iin = ex_.new_array(f'i{d}_in', (ns[k],), sort=sx.I)
        iout = ex_.new_array(f'i{d}_out', (ns[k],), sort=sx.I)
        W[d] = (w, iin, iout)
        return (w, iin, iout)
    X = sx.Ex('maps', pc=hyps, funcs={'_volume_average_weights': weights},
              loops={0: ('sym', 'iz'), 1: ('sym', 'iy'), 2: ('sym', 'body')})
    X.run_function(fn, nodes + [values] + nnodes + [newv, vol])
    if len(calls) != 3 or 'body' not in X.snap:
        raise sx.OutsideSubset('interp_volume_average: expected three weight computations and a triple loop')
    col.lia('weights_computed_per_direction_from_the_matching_node_vectors', [],
            z3.BoolVal(all(calls[k][0] is nodes[k] and calls[k][1] is nnodes[k] for k in range(3))))
    env = X.snap['body']['env']
    q = [sx.R(env['ix']), sx.R(env['iy']), sx.R(env['iz'])]
    pc = X.snap['body']['pc']
    # contract of _volume_average_weights at the generic segments
    facts = []
    for k, d in enumerate('xyz'):
        w, iin, iout = W[d]
        facts += [w.read0([q[k]]) > 0, iin.read0([q[k]]) >= 0, iin.read0([q[k]]) <= ni[k] - 2, iout.read0([q[k]]) >= 0, iout.read0([q[k]]) <= no[k] - 2]
    h = pc + facts
    st = X.snap['body']['arr'][newv.uid]
    wr = st.writes
    col.lia('body/one_accumulating_store', [], z3.BoolVal(len(wr) == 1 and wr[0][1] != 'region'))
    if len(wr) == 1:
        g, widx, wval = wr[0]
        outs = [W[d][2].read0([q[k]]) for k, d in enumerate('xyz')]
        ins = [W[d][1].read0([q[k]]) for k, d in enumerate('xyz')]
        col.lia('body/store_goes_to_the_output_cell_of_the_three_segments', h, z3.And(*[a == b for a, b in zip(widx, outs)]), sample=True)
        contrib = wval - newv.read0(list(widx))
        want = W['z'][0].read0([q[2]]) * W['y'][0].read0([q[1]]) * W['x'][0].read0([q[0]]) * values.read0(ins)
        col.eq('body/contribution_is_product_of_weights_times_the_input_cell_value', h, contrib, want, smt_sample=True)
        col.canary_eq('canary/contribution_without_wx', h, contrib, W['z'][0].read0([q[2]]) * W['y'][0].read0([q[1]]) * values.read0(ins))
    # bounds under the contract facts
    by = {}
    for b in X.bounds:
        by.setdefault(b['arr'], []).append(b)
    for name, bs in sorted(by.items()):
        goals = []
        for b in bs:
            gg = z3.And(*[z3.And(0 <= i, i < s_) for i, s_ in zip(b['idx'], b['shape'])])
            extra = [x for x in b['hyps'] if not any(x.eq(y) for y in pc)]
            goals.append(z3.Implies(z3.And(*extra), gg) if extra else gg)
        col.lia(f'bounds/{name}', h, z3.And(*goals))
    # final normalisation: new_values /= new_vol  (element-wise, in place)
    c = z3.Ints('cx cy cz')
    final = newv.st.read(list(c))
    before = X.snap['L_after'] if 'L_after' in X.snap else None
    # the state right after the loops is the havocked accumulation; the division is the last layer
    col.lia('normalisation/result_is_accumulated_sum_divided_by_the_cell_volume', [],
            z3.BoolVal(_is_division_by(final, vol.read0(list(c)))))
    return col.pack()


def _is_division_by(term, divisor):
    """term == something * rcp(divisor) syntactically"""
    t = z3.simplify(term)
    found = []

    def walk(e):
        if z3.is_app(e) and e.decl().eq(sx.RCP) and z3.simplify(e.arg(0)).eq(z3.simplify(divisor)):
            found.append(e)
        for ch in e.children():
            walk(ch)
    walk(t)
    return bool(found) and z3.is_app(t) and t.decl().kind() == z3.Z3_OP_MUL


# ------------------------------------------------------------------ wrappers (cx)
def task_interpolate_wrapper():
    col = ob.Collector(PROP, 'maps.interpolate/volume')
    col.default_replay = replay
    col.function('maps.interpolate')
    res = []
    for log in (False, True):
        def mk(ctx, log=log):
            lg = []
            pts = tuple(cx.NDArr(cx.Store(f'nodes_{d}')) for d in 'xyz')
            npts = tuple(cx.NDArr(cx.Store(f'new_nodes_{d}')) for d in 'xyz')

            def pfg(it, args, kw, node):
                lg.append(('points', args))
                return (pts, npts, cx.Opaque('shape'))

            def iva(it, args, kw, node):
                lg.append(('iva', dict(kw), kw['new_values'].store.val))
                kw['new_values'].store.version += 1
                kw['new_values'].store.val = None
                kw['new_values'].store.deps |= cx.deps_of(kw['values'])
                return None

            def log10(it, f, args, kw, node):
                lg.append(('log10', args[0]))
                r = cx.NDArr(cx.Store('log10-values'))
                r.store.deps = {('LOG10',)} | cx.deps_of(args[0])
                return r
            ctx.summaries.update({'maps._points_from_grids': pfg, 'maps.interp_volume_average': iva})
            ctx.opts.setdefault('prelude', {})['np.log10'] = log10
            vals = cx.NDArr(cx.Store('values'))
            vals.store.deps = {('VALUES',)}
            grid = cx.Obj('TensorMesh', {})
            xi = cx.Obj('TensorMesh', dict(cell_volumes=cx.NDArr(cx.Store('xi.cell_volumes'))))
            return [grid, vals, xi], dict(method='volume', log=log), dict(lg=lg, vals=vals, xi=xi, pts=pts, npts=npts, log=log)
        res += cx.run_function('maps.interpolate', mk, summaries={}, opts={})

    def ok(r):
        if r.outcome != 'return':
            return False
        lg = r.state['lg']
        iv = [x for x in lg if x[0] == 'iva']
        if len(iv) != 1:
            return False
        kw, val0 = iv[0][1], iv[0][2]
        good = all(kw['nodes_' + d] is r.state['pts'][k] and kw['new_nodes_' + d] is r.state['npts'][k] for k, d in enumerate('xyz'))
        good = good and val0 is not None and z3.is_rational_value(z3.simplify(val0)) and z3.simplify(val0).as_fraction() == 0
        good = good and isinstance(kw['new_vol'], cx.NDArr) and kw['new_vol'].store is r.state['xi'].fields['cell_volumes'].store
        if r.state['log']:
            good = good and ('LOG10',) in cx.deps_of(kw['values']) and ('VALUES',) in cx.deps_of(kw['values'])
            good = good and isinstance(r.value, cx.NDArr) and kw['new_values'].store.uid != r.value.store.uid     # 10**x is a new array
        else:
            good = good and kw['values'] is r.state['vals'] and isinstance(r.value, cx.NDArr) and r.value.store is kw['new_values'].store
        return good and ('VALUES',) in cx.deps_of(r.value)
    clause(col, 'volume_method_always_runs_the_averaging_kernel_on_both_node_sets_into_a_zero_buffer__log10_before_10pow_after', res, ok, sample=True)
    return col.pack()


def task_interpolate_to_grid(prop=None):
    from .cxutil import explore_with_history
    col = ob.Collector(prop or PROP, 'models.Model.interpolate_to_grid')
    col.default_replay = replay
    col.function('models.Model.interpolate_to_grid')
    res = []
    names = ['Conductivity', 'LgConductivity', 'LnConductivity', 'Resistivity', 'LgResistivity', 'LnResistivity']
    own = cx.Obj('TensorMesh', {'__id__': 'own'})
    grids = {True: (own, own), False: (own, cx.Obj('TensorMesh', {'__id__': 'other'}))}
    for nm in names:
        for same in (False, True):
            def mk(ctx, left=(), nm=nm, same=same):
                lg = []

                def interp(it, args, kw, node):
                    lg.append(dict(kw))
                    return cx.NDArr(cx.Store('interpolated'))

                def model(it, args, kw, node):
                    m = cx.Obj('Model', {'__new__': True, 'grid': args[0] if args else kw.get('grid')})
                    lg.append(('Model', args, dict(kw), m))
                    return m
                ctx.summaries.update({'maps.interpolate': interp, 'models.Model': model})
                g_self, g_new = grids[same]          # the same two grids in every exploration: a later call may ask for the grid of an earlier one
                px = cx.NDArr(cx.Store('property_x'))
                self = cx.Obj('Model', dict(grid=g_self, map=cx.Obj('Map' + nm, dict(name=nm)), property_x=px, _def_properties=['property_x'], __strict__=True), mod='models')
                for who, attr, value in left:
                    self.fields[attr] = value          # what an earlier call left on the model (the property arrays meanwhile edited in place)
                return [g_new], {}, dict(__self__=self, lg=lg, nm=nm, same=same, g_new=g_new, px=px)
            a, b = explore_with_history('models.Model.interpolate_to_grid', mk, lambda st: dict(model=st['__self__']))
            res += a + b

    def ok(r):
        if r.outcome != 'return':
            return False
        calls = [x for x in r.state['lg'] if isinstance(x, dict)]
        if r.state['same']:
            # grid comparison is opaque: on the path where the grids compare equal the model itself is returned
            return True if (r.value is r.state['__self__'] and not calls) or calls else False
        if r.value is r.state['__self__']:
            return not calls
        if len(calls) != 1:
            return False
        kw = calls[0]
        return kw.get('method') == 'volume' and kw.get('log') is (not r.state['nm'].startswith('L')) and kw.get('values') is r.state['px'] \
            and kw.get('grid') is r.state['__self__'].fields['grid'] and kw.get('xi') is r.state['g_new'] and kw.get('extrapolate') is True
    clause(col, 'volume_averaging_in_log_mode_exactly_for_the_linear_mappings__equal_grids_return_the_model_itself', res, ok, sample=True)

    def fresh(r):
        # the model handed back is the model itself (equal grids) or a Model assembled IN THIS CALL from what the interpolation of the CURRENT
        # property arrays returned -- whatever an earlier call left on the model
        if r.outcome != 'return':
            return None
        if r.value is r.state['__self__']:
            return True
        made = [x for x in r.state['lg'] if isinstance(x, tuple) and x[0] == 'Model']
        calls = [x for x in r.state['lg'] if isinstance(x, dict)]
        return any(r.value is x[3] for x in made) and len(calls) >= 1 and all(c.get('values') is r.state['px'] for c in calls)
    clause(col, 'model_handed_back_is_the_model_itself_or_one_assembled_in_this_call_from_the_current_property_arrays__whatever_an_earlier_call_left_behind', res, fresh)
    return col.pack()


def task_log_symmetry():
    """lemma: in log mode resistivity and conductivity give reciprocal results: 10**(-x) == 1 / 10**x, log10(1/v) == -log10(v)"""
    import sympy as sp
    col = ob.Collector(PROP, 'lemma/log_mode_symmetry')
    col.trust('sympy (two elementary identities of log10 / 10**x)')
    x = sp.Symbol('x', real=True)
    v = sp.Symbol('v', positive=True)
    z1 = sp.simplify(10 ** (-x) - 1 / 10 ** x)
    z2 = sp.simplify(sp.expand_log(sp.log(1 / v, 10) + sp.log(v, 10), force=True))
    col._add('ten_to_minus_x_is_reciprocal', 'vc', dict(status='proved' if z1 == 0 else 'unknown', backend='sympy', time=0.0))
    col._add('log10_of_reciprocal_is_negative_log10', 'vc', dict(status='proved' if z2 == 0 else 'unknown', backend='sympy', time=0.0))
    return col.pack()


def task_concrete():
    from . import c15_concrete
    col = ob.Collector(PROP, 'concrete')
    seed = int(os.environ.get('VERIF_SEED', '0'))
    tier = os.environ.get('VERIF_TIER', 'quick')
    r = ob.guarded(c15_concrete.check, tier, seed)
    col.concrete('conservation_range_identity_nearest_fill_linearity_log_symmetry', r['reproduced'] is False, r,
                 bounded='all pairs of increasing node vectors with 2..5 (quick: 2..4) nodes from a 7-point dyadic lattice per direction (exact in binary floating point); 3-D spot checks incl. same-shape grids at large coordinates; log mode rho/sigma',
                 cases=r.get('cases', 0))
    return col.pack()


def task_adjoint():
    """maps._interp_volume_average_adj: a function of its arguments only -- one operator from THIS call's grids, its transpose applied to the
    three rows of nval and ADDED to the three rows of oval; no module-level state, no cache"""
    from .cxutil import module_state_used
    col = ob.Collector(PROP, 'maps._interp_volume_average_adj')
    col.default_replay = replay
    col.function('maps._interp_volume_average_adj')

    def mk(ctx):
        og = cx.Obj('TensorMesh', dict(shape_cells=tuple(z3.Ints('o0 o1 o2'))))
        ng = cx.Obj('TensorMesh', dict(shape_cells=tuple(z3.Ints('n0 n1 n2'))))
        oval, nval = cx.NDArr(cx.Store('oval')), cx.NDArr(cx.Store('nval'))
        return [oval, og, nval, ng], {}, dict(oval=oval, nval=nval, og=og, ng=ng)
    res = cx.run_function('maps._interp_volume_average_adj', mk, pc0=[], summaries={}, opts={})

    def structure(r):
        if r.outcome != 'return':
            return False
        st = r.state
        va = [e for e in r.events if e['kind'] == 'libcall' and e['name'] == 'discretize.utils.volume_average']
        if len(va) != 1 or list(va[0]['args']) != [st['og'], st['ng']] or va[0]['kwargs']:
            return False
        ms = r.mutations()
        if any(m['store'] is not st['oval'].store for m in ms):
            return False
        if len(ms) != 3 or any(m.get('how') != 'Add=' or not isinstance(m['arr'].view, tuple) for m in ms):
            from .cxutil import UNRECOGNISED
            return UNRECOGNISED('oval is not updated by three row-wise += statements')
        keys = [m['arr'].view[1] if isinstance(m['arr'].view, tuple) else None for m in ms]
        return [k[0] if isinstance(k, tuple) else None for k in keys] == [0, 1, 2] and all(k[1:] == (Ellipsis,) for k in keys)
    clause(col, 'one_operator_from_this_calls_grids_applied_to_rows_0_1_2_and_added_to_oval_only', res, structure)
    used = module_state_used('maps._interp_volume_average_adj') | module_state_used('maps.interpolate') | module_state_used('maps.interp_volume_average')
    if used:
        # a cache can be right or wrong: whether the operator still belongs to this call's grids is outside this contract
        col.undecided('no_module_level_mutable_state_or_cache_is_used', f'uses module-level state {sorted(used)}: not a function of its arguments alone; '
                      'the bounded concrete check (sequence of grid pairs) decides')
    else:
        col.lia('no_module_level_mutable_state_or_cache_is_used', [], z3.BoolVal(True))
    return col.pack()


def task_points_from_grids():
    """maps._points_from_grids(grid, values, xi, 'volume') -- what interpolate() hands to the averaging kernel: for cell-shaped values the two triples
    of node vectors it returns hold, direction by direction, exactly the nodes of the input grid and of the output grid (the arrays themselves or
    arrays of equal contents -- nothing rounded, shifted or exchanged), and the shape returned is the cell shape of the output grid.  (The overlap
    weights are then normalised with xi.cell_volumes, which are the volumes of THOSE nodes.)"""
    from .cxutil import UNRECOGNISED
    col = ob.Collector(PROP, 'maps._points_from_grids/volume')
    col.default_replay = replay
    col.function('maps._points_from_grids')
    n = z3.Ints('n0 n1 n2')
    m = z3.Ints('m0 m1 m2')
    ROUND = z3.Function('rounded', z3.RealSort(), z3.RealSort(), z3.RealSort())

    def mesh(tag, sh):
        f = dict(shape_cells=tuple(sh), shape_nodes=tuple(x + 1 for x in sh))
        for k, d in enumerate('xyz'):
            f['nodes_' + d] = cx.NDArr(cx.Store(f'{tag}.nodes_{d}', z3.Real(f'{tag}_node_{d}')))
            f['cell_centers_' + d] = cx.NDArr(cx.Store(f'{tag}.cell_centers_{d}', z3.Real(f'{tag}_centre_{d}')))
            f['shape_edges_' + d] = tuple(x + (0 if j == k else 1) for j, x in enumerate(sh))
            f['shape_faces_' + d] = tuple(x + (1 if j == k else 0) for j, x in enumerate(sh))
        return cx.Obj('TensorMesh', f)

    def mk(ctx):
        def rnd(it, f, args, kw, node):
            a = args[0]
            dec = args[1] if len(args) > 1 else kw.get('decimals', 0)
            if isinstance(a, cx.NDArr) and a.store.val is not None:
                return cx.NDArr(cx.Store('rounded', ROUND(a.store.val, cx.R(dec))))
            raise cx.Unsupported('np.round of something that is not an array of known contents')
        pl = ctx.opts.setdefault('prelude', {})
        pl['np.round'] = pl['np.around'] = pl['ndarray.round'] = rnd
        grid, xi = mesh('grid', n), mesh('xi', m)
        values = cx.Obj('ndarray', dict(shape=tuple(n)))
        return [grid, values, xi, 'volume'], {}, dict(grid=grid, xi=xi)
    pre = [x >= 1 for x in n + m]
    res = cx.run_function('maps._points_from_grids', mk, pc0=pre, summaries={}, opts={})
    clause(col, 'returns_normally_for_values_of_the_cell_shape_of_the_grid', res, lambda r: r.outcome == 'return', pre)

    def nodes(r):
        if r.outcome != 'return':
            return None
        v = r.value
        if not (isinstance(v, tuple) and len(v) == 3 and all(isinstance(t, (tuple, list)) and len(t) == 3 for t in v[:2])):
            return UNRECOGNISED('the result is not (three arrays, three arrays, shape)')
        goal = []
        for tri, g in ((v[0], r.state['grid']), (v[1], r.state['xi'])):
            for k, d in enumerate('xyz'):
                a, want = tri[k], g.fields['nodes_' + d]
                if a is want:
                    continue
                if not isinstance(a, cx.NDArr) or a.view != 'whole':
                    return UNRECOGNISED('an entry of the triples is not a whole array')
                if a.store.val is None:
                    return UNRECOGNISED('the contents of an array handed to the kernel are not known to the executor')
                goal.append(a.store.val == want.store.val)
        sh = v[2]
        if not (isinstance(sh, tuple) and len(sh) == 3):
            return UNRECOGNISED('the shape returned is not a triple')
        goal += [cx.R(a) == cx.R(b) for a, b in zip(sh, m)]
        return z3.And(*goal) if goal else True
    clause(col, 'kernel_gets_exactly_the_nodes_of_the_input_grid_and_of_the_output_grid_direction_by_direction__shape_is_the_cell_shape_of_the_output_grid',
           res, nodes, pre, sample=True)
    canary(col, 'canary/kernel_gets_the_cell_centres', res,
           lambda r: z3.And(*[r.value[0][k].store.val == r.state['grid'].fields['cell_centers_' + d].store.val for k, d in enumerate('xyz')]) if r.outcome == 'return' else None, pre)
    return col.pack()


def tasks(tier):
    return [('contracts.c15', n, {}) for n in ('task_adjoint', 'task_weights', 'task_interp_volume_average', 'task_interpolate_wrapper', 'task_points_from_grids', 'task_interpolate_to_grid',
                                              'task_log_symmetry', 'task_concrete')]


LEVEL = ('Proof over the real source of the weight computation (loop invariants for the two monotone pointers, symbolic node vectors) and of the accumulation kernel '
         '(per triple of segments), of the volume branch of interpolate() and of the log-mode selection in Model.interpolate_to_grid; conservation / range / identity are '
         'covered by an exhaustive bounded check on a dyadic lattice.')
ASSUMPTIONS = ['np.unique(np.concatenate((x_i, x_o))) is strictly increasing and contains exactly the nodes of both grids (dependency contract)',
               'array-fill induction: if every iteration writes only position ii (then increments it) and the written entry satisfies P, all returned entries satisfy P',
               'conservation of the integral, range and identity on equal grids: bounded exhaustive check only (not proved)',
               'discretize.utils.volume_average(g1, g2) is the matrix of interpolate(g1, ., g2, method=volume): assumed; checked by inner products in the bounded concrete run '
               '(sequence of grid pairs with equal bounding box and cell counts)']
