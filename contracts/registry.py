"""which properties are claimed, with the MANIFEST texts"""
TECH = 'contract-based deductive verification: sidecar contracts on the real source, self-written AST->SMT VC generator, z3 (polynomial normal form / LIA / NRA)'
TECH_LEAN = TECH + '; one purely mathematical lemma over the contracts (banded LDL^T recurrences => A x = b) machine-checked by Lean 4 / Mathlib'
NOTE = ('Exact real arithmetic instead of floating point; numba compilation trusted; the VC generator pyvc and z3 are trusted '
        '(guarded by canaries, hypothesis-satisfiability checks and concrete cross-checks on every run); dependency contracts of '
        'numpy/itertools/scipy listed in the evidence file are assumed.')
CLAIMED = {
    'C01': dict(ref='5 (C01)', tech=TECH, note=NOTE + ' Assumed contract K-SCIPY for the SciPy Krylov solvers (returns (x, info); info==0 iff its own convergence test passed; no promise about callback arguments). The meaning of the residual token rests on C02.',
                text='Proof with ghost version counters / residual tokens over all paths of _terminate, residual, the fine-grid loop of multigrid, krylov and solve: '
                     'exit status 0 iff CONVERGED; on success the reported error is the residual of the very field handed back (returned or caller-supplied) and below tol; '
                     'zero source zeroes that field; PEC zeroing of a supplied field covers exactly the twelve boundary faces before any use; dtype check; return forms; solve_source hands the source field of the given source and every option on to solve. '
                     'Plus bounded real solves with an independently assembled operator.'),
    'C02': dict(ref='5 (C02)', tech=TECH, note=NOTE,
                text='Proof, for every grid shape / stencil position / array content, that core.amat_x equals curl^T M_f curl + M_e on every '
                     'interior edge, that PEC rows are inert, frame and bounds; symmetry and curl-curl(grad)=0 on the code\'s own expression; '
                     'bounded jit==py_func==spec cross-check.'),
    'C03': dict(ref='5 (C03)', tech=TECH_LEAN, note=NOTE + ' Non-zero pivots of the LDL^T factorisation are a documented precondition.',
                text='Proof of the master identity (assembled block system == C02 operator restricted to the relaxed block, for all values of the '
                     'unknowns) for the point smoother and the three line smoothers through the real blocks_to_amat, both sweep directions, '
                     'symbolic grid and block position; write-back map, PEC frame, affinity, bounds; core.solve for every number of unknowns: per-cell loop invariants refine the code to the banded LDL^T '
                     'recurrences, and a Lean 4 / Mathlib lemma (re-checked on every run) shows that the recurrences solve the system (uniquely for non-zero pivots); smoothing() dispatch and frame.'),
    'C04': dict(ref='5 (C04)', tech=TECH, note=NOTE + ' WF(grid) (cell centres are node midpoints, coarse nodes every second node) is proved for meshes.BaseMesh and the coarse-grid construction of solver.restriction, and remains an assumption only for a third-party (discretize) finest grid; the numpy layout / sequence contracts used for RegularGridProlongator (broadcast/ravel/reshape in Fortran order, searchsorted, gather) are listed in the evidence.',
                text='Proof that core.restrict equals the transpose of the spec prolongation (piecewise constant x bilinear hats) on every interior coarse edge '
                     'for all seven patterns on arbitrarily stretched symbolic grids, given the contract of restrict_weights which is itself proved against the '
                     'linear hat functions; hat weights non-negative and summing to one; _restrict_model_parameters sums exactly the fine-cell children '
                     '(slice algebra); restriction()/_get_restriction_weights wiring incl. anisotropy aliasing on all paths; prolongation() adds the interpolated slice of coarse index I '
                     'to the interior of fine index 2I, 2I+1 (or I) of the same component and writes nothing else, for all seven patterns and any grid size; the interpolator class RegularGridProlongator itself '
                     '(executed from source on point-wise values) returns the bilinear hat interpolant for symbolic coarse / fine node vectors; meshes.BaseMesh establishes WF(grid) and the coarse nodes built by restriction() are every r-th fine node (induction base and step).'),
    'C05': dict(ref='5 (C05)', tech=TECH, note=NOTE + ' Callee summaries (restriction halves exactly the pattern directions; residual/smoothing do not touch cycling state) are assumed here and discharged under C04/C01.',
                text='Proof over all paths of _current_sc_dir/_current_lr_dir, _max_level (loop invariant with the spec function H), parameter '
                     'set-up, and multigrid (recursion invariant, V/W/F child-call structure, one generic fine-grid cycle): unbounded in shape, level and limits.'),
    'C07': dict(ref='5 (C07)', tech=TECH, note=NOTE + ' The two linear solves and the finite-difference convergence are outside the proof (bounded concrete check); the adjoint-state formula follows from the proved blocks, C02 symmetry and C09 transposes as a paper lemma.',
                text='Proof of the building blocks of the adjoint-state gradient: interp_edges_to_vol_averages is the exact transpose of the eta-derivative of the C02 operator (accumulation rule for a symbolic cell; derivative of the spec operator derived mechanically); '
                     'the assembly in Simulation.gradient uses per source-frequency pair its own forward / back-propagated fields and a fresh zero buffer, accumulates every pair exactly once, collects the anisotropy rows according to the model aliasing and '
                     'applies the chain factor of the mapping (C14 obligations re-run) after the sums, for all four anisotropy cases; the forward responses are sampled at Receiver.coordinates_abs(source), the position where the adjoint sources are placed '
                     '(absolute and source-relative receivers, sources with repeated electrodes); Simulation._get_responses stores in slot i the response of receiver i itself -- field of its own type (magnetic: get_magnetic_field of the '
                     'pair\'s model and the electric field), its own coordinates_abs, the simulation\'s interpolation -- for electric and magnetic receivers listed in any order, for a stored or a given electric field.'),
    'C09': dict(ref='5 (C09)', tech=TECH, note=NOTE + ' The linear SciPy interpolator is an assumed contract (bounded concrete check); reciprocity follows as a paper lemma from C02 symmetry and the transposes proved here; magnetic point source (discretize) and cubic interpolation not covered.',
                text='Proof that point_source locates the unique bracketing cell and stores the product of the 1-D hat weights (all other cells zero) for a symbolic grid and position; that _edge_curl_factor is the '
                     'volume-weighted discrete Faraday law using the C02 curl stencil; that get_receiver combines the per-component interpolants with the same rotation() factors and masks exactly the outermost cells; '
                     'that get_magnetic_field wires them with zeta = V/(mu_r s mu0) and writes nothing of its inputs (incl. the cached cell volumes of the grid); for several receivers sampled in one call each response is made of its OWN rotation factors '
                     '(a direction is left out only if its own factor is negligible).'),
    'C10': dict(ref='5 (C10)', tech=TECH, note=NOTE + ' The partition lemma (clipped length fractions of a segment sum to one over the cells) is not proved; dipole/point conversions and the square loop are covered by a bounded concrete check only.',
                text='Proof that the eight point-source weights of a component sum to one in every branch and are non-negative; that the cell body of _dipole_vector distributes exactly the clipped length fraction '
                     'over the four edges per component of that cell with non-negative weights and writes nothing else; that every consecutive electrode pair of a wire is discretised; that get_source_field scales the vector by '
                     'strength and -s mu0 and dispatches on the source type; a source given by its coordinates reaches the right Tx class with the given strength and length; rotation is the documented unit direction; '
                     'square loop and dipole / point conversions (closed, square, area, right-handed normal, round trip).'),
    'C11': dict(ref='5 (C11)', tech=TECH, note=NOTE + ' Order contracts of Executor.map / tqdm process_map / map are assumed; determinism of a worker is outside the proof (bounded concrete run only); the h5 round trip of io.save / io.load is an assumed contract over an abstract scratch directory.',
                text='Proof that process_map returns the results in input order in all four branches, that _compute, _bcompute and jvec build the i-th task from the i-th source-frequency pair and store the i-th result in that pair\'s slot '
                     '(three pairs, so a non-involutive permutation cannot hide; as_completed explored in every completion order), and that the worker wrapper forwards exactly its own task; file-based hand-over over an abstract scratch directory (fresh or left behind by an earlier simulation): '
                     'the worker reads its own task file and no other, starts from the field of that task, every file read was written earlier in the same computation, each slot loads the result of its own task whatever the order of completion; '
                     'plus bounded runs comparing 1 vs several workers and in-memory vs file-based execution (also in a re-used directory) bit for bit.'),
    'C12': dict(ref='5 (C12)', tech=TECH + '; provenance (taint) tags on array storages in the control executor',
                note=NOTE + ' Numerical callees are summarised by how they propagate provenance; one source / one frequency; in-memory execution; process_map order is C11.',
                text='Proof that every public operation of Simulation (compute, misfit, gradient, jvec, jtvec, get_efield, clean x3, model update + clean, to_dict) re-establishes the '
                     'cache-coherence invariant from every abstract pre-state satisfying it (plain, partially computed, computed, misfit cached, gradient cached, results only), with an arbitrary '
                     'history value in the shared solver options; forward tasks get tol_forward, adjoint/jvec tasks tol_gradient, all get the current model. Plus bounded operation sequences on a real simulation.'),
    'C13': dict(ref='5 (C13)', tech=TECH, note=NOTE + ' xarray behaviour (attribute-style access, copy(data=), sel, NaN-skipping sum) is an assumed dependency contract; sqrt/abs/conj are uninterpreted element-wise functions.',
                text='Proof over all paths and all scalar/array/absent combinations: the standard-deviation getter returns the explicit array or sqrt(nf^2+(re|d|)^2) in a fresh array or None; '
                     'setters reject non-positive values and keep arrays in fresh storage; add_noise writes only data[add_to]; misfit, select and to_dict write none of the noise parameters; '
                     'the misfit summand is std^-2 |syn-obs|^2 with weights in fresh storage; a selection cuts every data set to exactly the requested labels; after any history of assignments the getters and the standard deviation are made of the values assigned last. '
                     'Plus bounded checks on real surveys/simulations.'),
    'C14': dict(ref='5 (C14)', tech=TECH + '; exp/log identities of the Map classes decided by computer algebra (sympy) on terms read from the source',
                note=NOTE + ' sympy simplification trusted for the transcendental identities (numeric 50-digit cross-check); IEEE facts about NaN comparisons are axioms.',
                text='For each of the six mappings, read from the current source: forward is the documented map, backward o forward = id on positive conductivities, '
                     'forward o backward = id, derivative_chain factor = d backward/dp (for all values, symbolic). Model validation: on every path of the validator, the five setters, '
                     '_init_parameter and the constructor a stored property implies all(conductivity > 0) and all finite under IEEE semantics; None-properties cannot be assigned. '
                     'Coefficients depend on the property only through backward (C02 VolumeModel obligations re-run here).'),
    'C15': dict(ref='5 (C15)', tech=TECH, note=NOTE + ' Conservation of the integral, range and identity on equal grids are covered by an exhaustive bounded check on a dyadic lattice (not proved); np.unique contract assumed; pairing with the discretize adjoint not covered.',
                text='Proof (loop invariants for the two monotone pointers, symbolic node vectors) that every segment emitted by _volume_average_weights has positive length, valid cell indices, its centre in the stated output cell and in the stated (or nearest) input cell; '
                     'that interp_volume_average adds w_z w_y w_x values[in] to new[out] per triple of segments and divides by the cell volume (hence linear with non-negative weights); that interpolate(method=volume) always runs this kernel (log10 before / 10** after in log mode) '
                     'and that Model.interpolate_to_grid uses log mode exactly for the linear mappings.'),
    'C16': dict(ref='5 (C16)', tech=TECH + '; numpy sequences of arbitrary length as symbolic prefix-sum sequences; generic loop iteration under an invariant',
                note=NOTE + ' The sea-surface search (brentq), the cut of a user vector and estimate_gridding_opts are outside the proof; the first two are covered by the bounded concrete check only. np.linspace/np.unique element contracts assumed.',
                text='Proof along the call chain construct_mesh -> origin_and_widths -> _stretch/_seasurface: per-direction routing and RuntimeError when any direction has no grid; survey domain, centre part (node or cell centre) and computational domain '
                     '(domain -/+ min(lambda_factor*wavelength, max_buffer), or the from-centre variant) on all paths; search nest under a loop invariant for any number of iterations: what is returned is a successful use_up _stretch over the computational domain '
                     'of a successful _stretch over the survey domain for the current permitted cell number, else RuntimeError / None; _stretch for every nx and centre part (cell count, coverage, geometric growth with the given factor, positivity, origin/end consistent); '
                     '_seasurface warns exactly when the sea surface is not a node of what it returns; skin depth / wavelength / cell width closed forms; every accepted format of the direction-specific options (bool, tuple, list, dict; symbolic switches) reaches its direction; '
                     'the statement as a lemma over these contracts. Plus a bounded check of all postconditions on the real functions.'),
    'C18': dict(ref='5 (C18)', tech=TECH + '; the real parser executed on an abstract ConfigParser with an opaque unknown key',
                note=NOTE + ' Equality of computed results between CLI and API is only covered by the bounded concrete run; configparser / pathlib behaviour is modelled.',
                text='Proof obligations over the real configuration parser: the recognised key set of every section is observed from the parser itself; every recognised key reaches its destination; any other key is rejected with TypeError in every section; '
                     'terminal values win over file values (path, survey, model, output, save, load, cache, nproc, layered, function); documented keys are recognised and every emitted name (after the hand-over in cli.run) is accepted by the API; '
                     'the [data] section reaches Survey.select with all four keys whenever it is non-empty; every documented option written in the documented format (comma / semicolon / comment styles enumerated) arrives with the API value, '
                     'with the inline-comment rule of configparser modelled from the constructor arguments the parser really passes; layered options given by the user survive every save / load / cache / -l history and equal those of the API call with layered=True.'),
    'C20': dict(ref='5 (C20)', tech=TECH + '; element-wise lifting of boolean masks over the generic frequency',
                note=NOTE + ' Interpolating-spline and shape-preserving PCHIP behaviour of SciPy and the reference transform of empymod are assumed contracts; precondition fmin <= fmax.',
                text='Proof over all paths of the frequency bookkeeping properties and of Fourier.interpolate for the three coarse-frequency options: the three groups (below / within / above the band) are disjoint and exhaustive, '
                     'computed frequencies lie in the band, nothing is written above fmax, the band is filled with the data themselves (only when coarse and required frequencies are the same array) or their spline in log-frequency, '
                     'the part below fmin with the PCHIP through the documented extended point, and freq2time hands the filled spectrum and the unchanged settings to the reference transform.'),
}
NOT_APPLICABLE = {
    'C06': 'grid-independent convergence rate: empirical/spectral statement about floating-point iteration counts; no per-call contract expresses or decides it',
    'C08': 'J v / J^T w are compositions of iterative solves with third-party (discretize) operators; no contract within reach',
    'C17': 'file round trip through h5py/numpy/json and cls(**dict) registries: outside the verifiable subset, no contracts for the file libraries',
    'C19': 'numerical agreement with the external 1D modeller empymod: no contract for the dependency',
}
