"""C18 (K8) -- `-l / --layered` and the [layered] options have the effect of the API arguments `layered=` / `layered_opts=`, whatever way the simulation took.

The CLI hands the options of [layered] to `Simulation(..., layered_opts=...)`; `layered` arrives either with the same call (direct run) or -- on `--load` / `--cache` -- by the
assignment `sim.layered = <value>` to a simulation that was created, stored (to_dict) and re-created (from_dict) before, possibly with another value of `layered`.
The equivalent API call of a run with `-l` is always  Simulation(survey, model, layered=True, layered_opts=O)  with the options O the user wrote.

Under contract (executed from the current source by the control executor, nothing of it copied):
    simulations.Simulation.__init__ (gridding='same'), Simulation._set_layered_opts, the setter and the getter of Simulation.layered, Simulation.to_dict, Simulation.from_dict

Quantifier: every subset of the documented options (method: absent or one of the five documented names; radius: absent, None or a symbolic real; factor, minor: absent or a
symbolic real; merge / check_foci: absent or symbolic booleans; `ellipse` absent or empty) x every HISTORY below (constructor, store/re-create, assignments of `layered`).

Clauses (per history):
  (L1) an option the user gave is held by the simulation with the user's value after every history (given = present and not None);
  (L2) a history that ends with layered=True leaves the simulation with the SAME layered_opts as the API call Simulation(..., layered=True, layered_opts=O) on the same survey and model
       (same keys; given values identical; documented defaults; an estimated radius is meshes.skin_depth of the same frequency and conductivity);
  (L3) `sim.layered` is the value assigned last; (L4) no history raises (point / dipole survey, isotropic model).
On the API call itself:
  (A1) defaults as documented in the Simulation docstring: method 'cylinder'; for cylinder / prism: factor 1.2, minor 0.8, radius one skin depth of the LOWEST survey frequency -- only when not given.
"""
import itertools

import z3

from pyvc import cx, ob, intake
from .cxutil import clause, canary, UNRECOGNISED

PROP = 'C18'
METHODS = (None, 'cylinder', 'prism', 'midpoint', 'source', 'receiver')
F1, F2 = z3.Real('freq_1'), z3.Real('freq_2')
R, F, M = z3.Real('user_radius'), z3.Real('user_factor'), z3.Real('user_minor')
MERGE, FOCI = z3.Bool('user_merge'), z3.Bool('user_check_foci')
SKIN = z3.Function('skin_depth', z3.RealSort(), z3.RealSort(), z3.RealSort())
ABSENT = '<absent>'

# histories: ('new', L) = Simulation(survey, model, gridding='same', layered=L, layered_opts=O); ('set', L) = `sim.layered = L`; 'reload' = Simulation.from_dict(sim.to_dict())
HISTORIES = {
    'save_3D__load_with_-l': [('new', False), 'reload', ('set', True)],
    'save_with_-l__load_without': [('new', True), 'reload', ('set', False)],
    'save_with_-l__cache_without__load_with_-l': [('new', True), 'reload', ('set', False), 'reload', ('set', True)],
    'save_with_-l__load_with_-l': [('new', True), 'reload'],
    'API_new_3D__switch_on': [('new', False), ('set', True)],
    'API_new_3D__switch_off__switch_on': [('new', False), ('set', False), ('set', True)],
    'API_new_layered__switch_off__switch_on': [('new', True), ('set', False), ('set', True)],
    'API_new_layered__switch_on_again': [('new', True), ('set', True)],
}
REFERENCE = {True: [('new', True)], False: [('new', False)]}

TRUST = [
    'meshes.skin_depth (closed form proved under C16) is a function of (frequency, conductivity): modelled as the uninterpreted function skin_depth(f, c); a conductivity that is an opaque '
    'library result (np.min over the mapped lowest model layer) is identified by the call that produced it -- the same expression over the same, unchanged model gives the same value',
    'meshes.check_mesh has no effect on the simulation',
    'Survey.to_dict / Survey.from_dict and Model.to_dict / Model.from_dict give back an equal survey / model; io.save / io.load (between Simulation.to_dict and Simulation.from_dict in '
    'to_file / from_file) hand the plain values of the dictionary over unchanged (covered by the bounded CLI run only)',
]


def scenarios():
    """the user's layered_opts O: (description, builder of a fresh dict)"""
    out = []
    ell = [None, {}]
    for rad, fac, mi, foci in itertools.product((ABSENT, None, R), (ABSENT, F), (ABSENT, M), (ABSENT, FOCI)):
        e = {}
        if rad is not ABSENT:
            e['radius'] = rad
        if fac is not ABSENT:
            e['factor'] = fac
        if mi is not ABSENT:
            e['minor'] = mi
        if foci is not ABSENT:
            e['check_foci'] = foci
        if e:
            ell.append(e)
    for meth, e, merge in itertools.product(METHODS, ell, (ABSENT, MERGE)):
        if e is not None and 'check_foci' in e and merge is ABSENT and len(e) > 1:
            continue            # (check_foci is only combined with merge or alone: keeps the table small; both are pure pass-through options)
        o = {}
        if meth is not None:
            o['method'] = meth
        if e is not None:
            o['ellipse'] = dict(e)
        if merge is not ABSENT:
            o['merge'] = merge
        out.append(o)
    return out


def fresh_opts(o):
    return {k: (dict(v) if isinstance(v, dict) else v) for k, v in o.items()}


def given(o):
    """{path: value} of the options the user gave (present and not None)"""
    g = {}
    for k, v in o.items():
        if isinstance(v, dict):
            for kk, vv in v.items():
                if vv is not None:
                    g[(k, kk)] = vv
        elif v is not None:
            g[(k,)] = v
    return g


def lookup(d, path):
    for p in path:
        if not isinstance(d, dict) or p not in d:
            return ABSENT
        d = d[p]
    return d


def mk_inputs():
    survey = cx.Obj('Survey', {'sources': {'TxED-1': cx.Obj('TxElectricDipole', {}), 'TxED-2': cx.Obj('TxElectricDipole', {})},
                               'receivers': {'RxEP-1': cx.Obj('RxElectricPoint', {})}, 'frequencies': {'f-1': F1, 'f-2': F2},
                               'data': {'observed': cx.Opaque('observed'), 'synthetic': cx.Opaque('synthetic')}, 'name': None, '__strict__': True}, mod='surveys')
    model = cx.Obj('Model', dict(case='isotropic', map=cx.Obj('MapResistivity', {}, mod='maps'), property_x=cx.NDArr(cx.Store('model.property_x')), shape=(4, 4, 4),
                                 grid=cx.Obj('TensorMesh', {}), __strict__=True), mod='models')
    return survey, model


def cond_term(c):
    """the conductivity argument of skin_depth as a z3 term: a symbolic value as it is, an opaque value (np.min of the mapped lowest model layer) as a constant named by its
    provenance -- the same expression on the same model gives the same constant"""
    if z3.is_expr(c):
        return c
    if isinstance(c, (int, float)) and not isinstance(c, bool):
        return z3.RealVal(repr(c))
    if isinstance(c, cx.Opaque):
        return z3.Real('conductivity‹' + c.tag + '›')
    raise cx.Unsupported(f'conductivity argument of skin_depth: {c!r}')


def summaries(log):
    def skin(it, args, kw, node):
        a = list(args) + [kw[k] for k in ('frequency', 'conductivity') if k in kw][:2 - len(args)]
        extra = set(kw) - {'frequency', 'conductivity'}
        if len(a) != 2 or extra:
            raise cx.Unsupported('meshes.skin_depth called with other arguments than (frequency, conductivity)')
        f = cx.R(a[0])
        if not (z3.is_expr(f) and (z3.is_real(f) or z3.is_int(f))):
            raise cx.Unsupported(f'frequency argument of skin_depth: {a[0]!r}')
        f = z3.ToReal(f) if z3.is_int(f) else f
        v = SKIN(f, cond_term(a[1]))
        log.append(('skin_depth', v))
        return v

    def to_dict(it, args, kw, node):
        return {'__the_object__': args[0]}

    def from_dict(it, args, kw, node):
        d = args[-1]
        if not (isinstance(d, dict) and '__the_object__' in d):
            raise cx.Unsupported('Survey / Model.from_dict is not handed the dictionary of Survey / Model.to_dict')
        return d['__the_object__']
    return {'meshes.skin_depth': skin, 'meshes.check_mesh': lambda it, a, k, n: None, 'surveys.Survey.to_dict': to_dict, 'models.Model.to_dict': to_dict,
            'surveys.Survey.from_dict': from_dict, 'models.Model.from_dict': from_dict}


def setter_node():
    """(FunctionDef of the setter of Simulation.layered, sha256) or (None, None)"""
    import ast
    import hashlib
    src, _ = intake.module_ast('simulations')
    cnode, _, _ = intake.func('simulations.Simulation')
    for b in cnode.body:
        if isinstance(b, ast.FunctionDef) and b.name == 'layered' and any(isinstance(d, ast.Attribute) and d.attr == 'setter' for d in b.decorator_list):
            seg = ast.get_source_segment(src, b)
            return b, hashlib.sha256(seg.encode()).hexdigest()
    return None, None


def run_history(hist, o):
    """explore the history on the options o; state: opts (what the simulation holds at the end), flag (sim.layered), user (the dictionary the user handed in)"""
    def run(ctx):
        log = []
        ctx.summaries.update(summaries(log))
        it = cx.Interp(ctx, 'simulations')
        survey, model = mk_inputs()
        user = fresh_opts(o)
        st = dict(log=log, o=o, hist=hist)
        sim = None
        try:
            for step in hist:
                if step == 'reload':
                    d = it.call(it.getattr(sim, 'to_dict'), [], {})
                    fnode, _, _ = intake.func('simulations.Simulation.from_dict')
                    sim = it.call(cx.Closure(fnode, {}, it, qualname='simulations.Simulation.from_dict', self_obj=cx.ClassRef('simulations', 'Simulation')), [d], {})
                elif step[0] == 'new':
                    sim = it.call(cx.ClassRef('simulations', 'Simulation'), [survey, model], dict(gridding='same', layered=step[1], layered_opts=user))
                else:
                    it.setattr(sim, 'layered', step[1])
            st['opts'] = it.getattr(sim, 'layered_opts')
            st['flag'] = it.getattr(sim, 'layered')
        except cx._Raise as e:
            return 'raise', e.exc, st
        return 'return', None, st
    return cx.explore(run)


def final_flag(hist):
    return [s[1] for s in hist if s != 'reload'][-1]


def same(a, b):
    """z3 / python statement `a and b are the same option value`; None when it cannot be said"""
    if a is ABSENT or b is ABSENT:
        return a is b
    if isinstance(a, dict) and isinstance(b, dict):
        if set(a) != set(b):
            return False
        parts = [same(a[k], b[k]) for k in a]
        if any(p is None for p in parts):
            return None
        if any(p is False for p in parts):
            return False
        zs = [p for p in parts if p is not True]
        return z3.And(*zs) if zs else True
    if isinstance(a, dict) or isinstance(b, dict):
        return False
    if z3.is_expr(a) or z3.is_expr(b):
        if isinstance(a, (str, type(None))) or isinstance(b, (str, type(None))):
            return False
        x, y = cx.R(a), cx.R(b)
        if not (z3.is_expr(x) and z3.is_expr(y)):
            return None
        if z3.is_bool(x) != z3.is_bool(y):
            return False
        if not z3.is_bool(x):
            x, y = cx.num_pair(x, y)
        return x == y
    if a is None or b is None:
        return a is b
    if isinstance(a, (bool, str)) or isinstance(b, (bool, str)):
        return type(a) is type(b) and a == b
    if isinstance(a, (int, float)) and isinstance(b, (int, float)):
        return a == b
    return None


def conj(parts):
    if any(p is None for p in parts):
        return None
    if any(p is False for p in parts):
        return False
    zs = [p for p in parts if p is not True]
    return z3.And(*zs) if zs else True


def canary_if(col, oid, results, post, select):
    """a canary over the selected paths; none when no path is selected (the clauses it guards are undecided then -- an empty conjunction must not pass for an unrefuted canary)"""
    if any(select(r) and post(r) is not None for r in results):
        canary(col, oid, results, post, select=select)


def explain(d, results, post, what=lambda r: None):
    """a refuted clause names the first scenarios it fails on (options the user gave, what the simulation holds)"""
    if not isinstance(d, dict) or d.get('status') != 'refuted':
        return d
    out = []
    for r in results:
        g = post(r)
        bad = g is False
        if z3.is_expr(g):
            s = z3.Solver()
            s.set('timeout', 2000)
            s.add(*r.pc)
            s.add(z3.Not(g))
            bad = s.check() == z3.sat
        if bad:
            out.append(dict(user_layered_opts=str(r.state['o']), history=str(r.state['hist']), outcome=r.outcome if r.outcome == 'return' else f'{r.outcome}: {r.value!r}',
                            simulation_holds=str(r.state.get('opts')), layered=str(r.state.get('flag')), api_call_holds=what(r)))
            if len(out) >= 4:
                break
    d['failing'] = out
    if out:
        d['reason'] = f"e.g. layered_opts={out[0]['user_layered_opts']} after {out[0]['history']}: the simulation holds {out[0]['simulation_holds']}"[:600]
    return d


def task_history(hist):
    col = ob.Collector(PROP, f'simulations.Simulation.layered/{hist}')
    col.default_replay = replay
    for q in ('simulations.Simulation.__init__', 'simulations.Simulation._set_layered_opts', 'simulations.Simulation.to_dict', 'simulations.Simulation.from_dict'):
        try:
            col.function(q)
        except intake.IntakeError:
            pass                    # (a private helper may be renamed / inlined; the clauses do not mention it)
    snode, sha = setter_node()
    if snode is not None:
        col.functions['simulations.Simulation.layered.setter'] = sha
    for t in TRUST:
        col.trust(t)
    steps = HISTORIES[hist]
    last = final_flag(steps)
    results, refs = [], {}
    for i, o in enumerate(scenarios()):
        rs = run_history(steps, o)
        for r in rs:
            r.state['scenario'] = i
        results.extend(rs)
        if last:
            refs[i] = run_history(REFERENCE[True], o)
    no_setter = snode is None and any(s != 'reload' and s[0] == 'set' for s in steps)

    def shape(r):
        if no_setter:
            return UNRECOGNISED('Simulation.layered has no setter')
        if r.outcome == 'raise' and r.value.typ == 'AttributeError':
            return UNRECOGNISED(f'the simulation has no attribute {r.value.args}')
        return None

    def l1(r):
        s = shape(r)
        if s is not None:
            return s
        if r.outcome != 'return':
            return None            # (L4 speaks about exceptions)
        if not isinstance(r.state['opts'], dict):
            return UNRECOGNISED('Simulation.layered_opts is not a dictionary')
        return conj([same(lookup(r.state['opts'], p), v) for p, v in given(r.state['o']).items()])

    def l2(r):
        s = shape(r)
        if s is not None:
            return s
        if r.outcome != 'return':
            return None
        parts = []
        for q in refs[r.state['scenario']]:
            if q.outcome != 'return':
                return None        # (the API call itself raises: A1 / L4 of the reference task)
            e = same(r.state['opts'], q.state['opts'])
            if e is None:
                return UNRECOGNISED('an option held by the simulation is neither a plain nor a symbolic value')
            if e is False:
                return False
            # both path conditions hold together (same survey, same model): history path /\ reference path => same options
            parts.append(z3.Implies(z3.And(*q.pc) if q.pc else z3.BoolVal(True), e if e is not True else z3.BoolVal(True)))
        return z3.And(*parts) if parts else None

    def l3(r):
        s = shape(r)
        if s is not None:
            return s
        if r.outcome != 'return':
            return None
        return same(r.state['flag'], last)

    api = lambda r: '; '.join(str(q.state.get('opts')) for q in refs.get(r.state['scenario'], []))
    explain(clause(col, 'L1_an_option_the_user_gave_is_held_with_the_users_value', results, l1, sample=True), results, l1)
    if last:
        explain(clause(col, 'L2_same_layered_opts_as_the_API_call_with_layered_True', results, l2), results, l2, api)
    explain(clause(col, 'L3_layered_is_the_value_assigned_last', results, l3), results, l3)
    l4 = lambda r: shape(r) if shape(r) is not None else r.outcome == 'return'
    explain(clause(col, 'L4_no_exception', results, l4), results, l4)
    col.lia('scenarios_explored', [], z3.BoolVal(len({r.state['scenario'] for r in results}) == len(scenarios()) and len(scenarios()) >= 100))
    # canaries: the user's radius is NOT replaced by something else / the defaults are not other numbers
    with_radius = lambda r: r.outcome == 'return' and ('ellipse', 'radius') in given(r.state['o'])
    canary_if(col, 'canary/a_given_radius_is_replaced', results, lambda r: same(lookup(r.state['opts'], ('ellipse', 'radius')), R + 1), select=with_radius)
    if last:
        def pert(r):
            q = [x for x in refs[r.state['scenario']] if x.outcome == 'return'][0]
            want = fresh_opts(q.state['opts'])
            if isinstance(want.get('ellipse'), dict) and 'factor' in want['ellipse']:
                want['ellipse']['factor'] = want['ellipse']['factor'] + 0.1
            return same(r.state['opts'], want)
        canary_if(col, 'canary/L2_with_another_factor', results, pert, lambda r: r.outcome == 'return' and isinstance(r.state['opts'], dict)
               and isinstance(r.state['opts'].get('ellipse'), dict) and 'factor' in r.state['opts']['ellipse'])
    return col.pack()


def task_api():
    """A1: the API call itself"""
    col = ob.Collector(PROP, 'simulations.Simulation/layered_opts_of_the_API_call')
    col.default_replay = replay
    for q in ('simulations.Simulation.__init__', 'simulations.Simulation._set_layered_opts'):
        try:
            col.function(q)
        except intake.IntakeError:
            pass
    for t in TRUST[:2]:
        col.trust(t)
    on, off = [], []
    for i, o in enumerate(scenarios()):
        for flag, acc in ((True, on), (False, off)):
            rs = run_history(REFERENCE[flag], o)
            for r in rs:
                r.state['scenario'] = i
            acc.extend(rs)
    lowest = lambda f: z3.And(f <= F1, f <= F2, z3.Or(f == F1, f == F2))

    def attr_shape(r):
        if r.outcome == 'raise' and r.value.typ == 'AttributeError':
            return UNRECOGNISED(f'the simulation has no attribute {r.value.args}')
        return None

    def kept(r):
        if attr_shape(r) is not None:
            return attr_shape(r)
        if r.outcome != 'return':
            return None
        if not isinstance(r.state['opts'], dict):
            return UNRECOGNISED('Simulation.layered_opts is not a dictionary')
        return conj([same(lookup(r.state['opts'], p), v) for p, v in given(r.state['o']).items()])

    def defaults(r):
        if attr_shape(r) is not None:
            return attr_shape(r)
        if r.outcome != 'return':
            return None
        o, got = r.state['o'], r.state['opts']
        if not isinstance(got, dict):
            return UNRECOGNISED('Simulation.layered_opts is not a dictionary')
        g = given(o)
        meth = o.get('method', 'cylinder')
        parts = [same(got.get('method', ABSENT), meth)]
        if meth in ('cylinder', 'prism'):
            e = got.get('ellipse', ABSENT)
            if not isinstance(e, dict):
                return False
            parts.append(same(e.get('factor', ABSENT), g.get(('ellipse', 'factor'), 1.2)))
            parts.append(same(e.get('minor', ABSENT), g.get(('ellipse', 'minor'), 0.8)))
            if ('ellipse', 'radius') not in g:
                rad = e.get('radius', ABSENT)
                if rad is ABSENT or rad is None:
                    return False
                if not (z3.is_expr(rad) and z3.is_app(rad) and rad.decl().eq(SKIN)):
                    return UNRECOGNISED('the estimated radius is not the result of one call meshes.skin_depth(frequency, conductivity)')
                parts.append(lowest(rad.arg(0)))
        return conj(parts)

    def nothing_else(r):
        """no option appears that the user did not give and the documentation does not name (method; for cylinder / prism the three ellipse parameters)"""
        if attr_shape(r) is not None:
            return attr_shape(r)
        if r.outcome != 'return':
            return None
        o, got = r.state['o'], r.state['opts']
        if not isinstance(got, dict):
            return UNRECOGNISED('Simulation.layered_opts is not a dictionary')
        meth = o.get('method', 'cylinder')
        top = set(o) | {'method'} | ({'ellipse'} if meth in ('cylinder', 'prism') else set())
        if set(got) != top:
            return False
        if isinstance(got.get('ellipse'), dict):
            want = set(o.get('ellipse', {})) | ({'radius', 'factor', 'minor'} if meth in ('cylinder', 'prism') else set())
            return set(got['ellipse']) == want
        return 'ellipse' not in got or got['ellipse'] is o.get('ellipse', ABSENT) or same(got['ellipse'], o.get('ellipse', ABSENT)) is True

    explain(clause(col, 'A1_given_options_are_kept/layered=True', on, kept), on, kept)
    explain(clause(col, 'A1_given_options_are_kept/layered=False', off, kept), off, kept)
    explain(clause(col, 'A1_defaults_as_documented_only_where_nothing_is_given', on, defaults, sample=True), on, defaults)
    explain(clause(col, 'A1_no_other_option_appears', on, nothing_else), on, nothing_else)
    normal = lambda r: attr_shape(r) if attr_shape(r) is not None else r.outcome == 'return'
    explain(clause(col, 'A1_the_call_returns_normally', on + off, normal), on + off, normal)
    # canary: the estimate uses the HIGHEST frequency
    highest = lambda f: z3.And(f >= F1, f >= F2)
    est = lambda r: r.outcome == 'return' and isinstance(r.state['opts'], dict) and isinstance(r.state['opts'].get('ellipse'), dict) and ('ellipse', 'radius') not in given(r.state['o']) \
        and z3.is_expr(r.state['opts']['ellipse'].get('radius')) and z3.is_app(r.state['opts']['ellipse']['radius']) and r.state['opts']['ellipse']['radius'].decl().eq(SKIN)
    canary_if(col, 'canary/radius_estimated_from_the_highest_frequency', on, lambda r: highest(r.state['opts']['ellipse']['radius'].arg(0)), est)
    if any(est(r) for r in on):
        col.lia('estimate_branch_explored', [], z3.BoolVal(True))
    else:
        col.undecided('estimate_branch_explored', 'no path on which the radius is the result of one call meshes.skin_depth(frequency, conductivity)')
    return col.pack()


def replay(d):
    from . import c18_concrete
    return ob.guarded(c18_concrete.check_layered)


def tasks(tier):
    return [('contracts.c18_layered', 'task_api', {})] + [('contracts.c18_layered', 'task_history', dict(hist=h)) for h in HISTORIES]
