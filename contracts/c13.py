"""C13 -- misfit and data weights follow the documented noise model and stay untouched.

Control executor with abstract xarray objects (Dataset = named DataArrays + attrs; DataArray = storage
identity + point-wise symbolic value).  Contracts:
  standard_deviation getter:  explicit array wins (the stored object itself), else
        sqrt(noise_floor^2 + (relative_error |d_obs|)^2) in a FRESH array, else None
  setters: non-positive values rejected; a scalar stays an attribute, an array is broadcast into a fresh DataArray
  frame / ownership: add_noise writes only data[add_to]; select / to_dict / misfit write nothing of the
        survey's noise_floor / relative_error / standard_deviation storages
  misfit: sum over W |syn-obs|^2 / 2 with W = std^-2 (xarray NaN-skipping sum: dependency contract)
"""
import itertools
import os

import z3

from pyvc import cx, ob, prelude
from .cxutil import clause, canary, fresh_consts, UNRECOGNISED

PROP = 'C13'
ABS, SQRT, CONJ = prelude.PW['abs'], prelude.PW['sqrt'], prelude.PW['conj']
NF, RE, SD, DOBS, DSYN = z3.Reals('nf re sd d_obs d_syn')


def ds_hook(it, obj, attr):
    if obj.cls != 'Dataset':
        return NotImplemented
    items, attrs = obj.fields['__items__'], obj.fields['attrs']
    if attr in items:
        return items[attr]
    if attr in attrs:
        return attrs[attr]
    if attr in ('keys', 'items', 'values'):
        return cx.LibFn('dict.' + attr, bound=items)
    if attr in ('data_vars',):
        return items
    return NotImplemented


def mk_survey(nf, re, explicit, extra_items=()):
    items = {'observed': cx.DArr(cx.Store('data.observed', DOBS))}
    attrs = {'noise_floor': None, 'relative_error': None}
    for name, kind, sym in (('noise_floor', nf, NF), ('relative_error', re, RE)):
        if kind == 'scalar':
            attrs[name] = sym
        elif kind == 'array':
            attrs[name] = 'data._' + name
            items['_' + name] = cx.DArr(cx.Store('data._' + name, sym))
    if explicit:
        items['standard_deviation'] = cx.DArr(cx.Store('data.standard_deviation', SD))
    for k in extra_items:
        items[k] = cx.DArr(cx.Store('data.' + k, z3.Real('d_' + k)))
    ds = cx.Obj('Dataset', {'__items__': items, 'attrs': attrs})
    src = cx.Obj('TxElectricDipole', {})
    rec = cx.Obj('RxElectricPoint', {})
    sv = cx.Obj('Survey', {'_data': ds, 'sources': {'TxED-1': src}, 'receivers': {'RxEP-1': rec},
                           'frequencies': {'f-1': 1.0}, 'name': None, 'date': None, 'info': None}, mod='surveys')
    return sv, ds


def noise_stores(ds):
    it = ds.fields['__items__']
    return {k: it[k].store for k in ('_noise_floor', '_relative_error', 'standard_deviation') if k in it}


def snapshot(ds):
    return dict(keys=sorted(ds.fields['__items__']), attrs=dict(ds.fields['attrs']),
                objs={k: v for k, v in ds.fields['__items__'].items()},
                vers={k: v.store.version for k, v in ds.fields['__items__'].items()})


def untouched(r, ds, before, allowed_new=()):
    """noise parameters after == before: same attrs, same DataArray objects, storages not mutated"""
    items, attrs = ds.fields['__items__'], ds.fields['attrs']
    ok = all(attrs.get(k) is before['attrs'].get(k) or attrs.get(k) == before['attrs'].get(k) for k in ('noise_floor', 'relative_error'))
    for k in ('_noise_floor', '_relative_error', 'standard_deviation'):
        ok = ok and ((k in items) == (k in before['objs'])) and (k not in items or items[k] is before['objs'][k])
    ns = {s.uid for s in noise_stores(ds).values()} | {before['objs'][k].store.uid for k in before['objs'] if k in ('_noise_floor', '_relative_error', 'standard_deviation')}
    ok = ok and all(e['store'].uid not in ns for e in r.mutations())
    ok = ok and set(items) - set(before['keys']) <= set(allowed_new)
    return ok


def replay_survey(d):
    from . import c13_concrete
    return ob.guarded(c13_concrete.check, 'quick', 0)


KINDS = (None, 'scalar', 'array')


def task_std_getter():
    col = ob.Collector(PROP, 'surveys.Survey.standard_deviation')
    col.default_replay = replay_survey
    col.function('surveys.Survey.standard_deviation')
    res = []
    for nf, re, explicit in itertools.product(KINDS, KINDS, (False, True)):
        def run(ctx, nf=nf, re=re, explicit=explicit):
            ctx.opts['getattr_hook'] = ds_hook
            sv, ds = mk_survey(nf, re, explicit)
            it = cx.Interp(ctx, 'surveys')
            before = snapshot(ds)
            try:
                v = it.getattr(sv, 'standard_deviation')
            except cx._Raise as e:
                return 'raise', e.exc, dict(sv=sv, ds=ds, before=before, cfg=(nf, re, explicit))
            return 'return', v, dict(sv=sv, ds=ds, before=before, cfg=(nf, re, explicit))
        res += cx.explore(run)

    def value_ok(r):
        nf, re, explicit = r.state['cfg']
        if r.outcome != 'return':
            return False
        if explicit:
            return r.value is r.state['ds'].fields['__items__']['standard_deviation']
        if nf is None and re is None:
            return r.value is None
        if not isinstance(r.value, cx.NDArr) or r.value.store.val is None:
            return False
        want = z3.RealVal(0)
        if nf is not None:
            want = want + NF * NF
        if re is not None:
            want = want + (RE * ABS(DOBS)) * (RE * ABS(DOBS))
        # |re * d| == re * |d| for re > 0 (setter rejects non-positive values)
        return z3.Implies(z3.And(RE > 0, ABS(RE * DOBS) == RE * ABS(DOBS)), r.value.store.val == SQRT(want))
    clause(col, 'explicit_array_wins__else_sqrt_nf2_plus_re_absd_2__else_None', res, value_ok, sample=True)

    def fresh_ok(r):
        nf, re, explicit = r.state['cfg']
        if explicit or (nf is None and re is None) or r.outcome != 'return':
            return None
        own = {v.store.uid for v in r.state['ds'].fields['__items__'].values()}
        return r.value.store.uid not in own
    clause(col, 'computed_standard_deviation_is_a_fresh_array', res, fresh_ok)
    clause(col, 'getter_leaves_noise_parameters_and_data_untouched', res,
           lambda r: untouched(r, r.state['ds'], r.state['before']) and len(r.mutations()) == len([e for e in r.mutations() if e['store'].origin != 'data.observed' and not str(e['store'].origin).startswith('data.')]))
    canary(col, 'canary/std_without_relative_error_term', res,
           lambda r: (r.value.store.val == SQRT(NF * NF)) if (r.state['cfg'] == ('scalar', 'scalar', False) and r.outcome == 'return') else None)
    return col.pack()


def task_setters():
    col = ob.Collector(PROP, 'surveys.Survey/setters')
    col.default_replay = replay_survey
    col.function('surveys.Survey._set_nf_re')
    res = []
    for name, explicit in itertools.product(('noise_floor', 'relative_error'), (False, True)):
        for kind in ('none', 'scalarsym', 'array', 'str'):
            def mk(ctx, name=name, kind=kind, explicit=explicit):
                ctx.opts['getattr_hook'] = ds_hook
                sv, ds = mk_survey('scalar', 'scalar', explicit)
                val = {'none': None, 'scalarsym': cx.NDArr(cx.Store('given-value')), 'array': cx.NDArr(cx.Store('given-value')),
                       'str': 'data._' + name}[kind]
                return [name, val], {}, dict(__self__=sv, ds=ds, val=val, name=name, kind=kind, before=snapshot(ds))
            res += cx.run_function('surveys.Survey._set_nf_re', mk, summaries={}, opts={})

    def reject(r):
        v = r.state['val']
        if not isinstance(v, cx.NDArr):
            return r.outcome == 'return'
        P = z3.Bool(f"ANY{('cmp', 'LtE', 0.0, v.store.uid, v.store.version)!r}")
        return (P if r.outcome == 'raise' else z3.Not(P))
    clause(col, 'raises_ValueError_iff_any_value_is_not_bigger_than_zero', res, reject, sample=True)

    def stored(r):
        if r.outcome != 'return':
            return None
        ds, name, v = r.state['ds'], r.state['name'], r.state['val']
        a = ds.fields['attrs'][name]
        if not isinstance(v, cx.NDArr):
            return a is v or a == v
        if isinstance(a, str):
            da = ds.fields['__items__'].get('_' + name)
            return a == 'data._' + name and isinstance(da, cx.DArr) and da.store is not v.store
        return True       # size-1 input: stored as float attribute
    clause(col, 'scalar_stays_an_attribute__array_is_broadcast_into_a_fresh_DataArray', res, stored)

    def others_kept(r):
        # frame: setting one noise parameter touches neither the other one nor an explicitly set standard deviation
        if r.outcome != 'return':
            return None
        ds, name, before = r.state['ds'], r.state['name'], r.state['before']
        other = 'relative_error' if name == 'noise_floor' else 'noise_floor'
        items, attrs = ds.fields['__items__'], ds.fields['attrs']
        ok = attrs.get(other) is before['attrs'].get(other) or attrs.get(other) == before['attrs'].get(other)
        for k in ('_' + other, 'standard_deviation', 'observed'):
            ok = ok and ((k in items) == (k in before['objs'])) and (k not in items or (items[k] is before['objs'][k] and items[k].store.version == before['vers'][k]))
        return ok
    clause(col, 'setting_one_noise_parameter_leaves_the_other_and_an_explicit_standard_deviation_untouched', res, others_kept)
    # standard_deviation setter
    fnode, mod, cname = cx.Interp(cx.Ctx([]), 'surveys').find_setter(cx.Obj('Survey', {}, mod='surveys'), 'standard_deviation')
    rs = []
    for explicit, kind in itertools.product((False, True), ('none', 'array')):
        def run(ctx, explicit=explicit, kind=kind):
            ctx.opts['getattr_hook'] = ds_hook
            sv, ds = mk_survey('scalar', None, explicit)
            val = None if kind == 'none' else cx.NDArr(cx.Store('given-std'))
            it = cx.Interp(ctx, 'surveys')
            st = dict(ds=ds, val=val, explicit=explicit, before=snapshot(ds))
            try:
                it.call_closure(cx.Closure(fnode, {}, it, self_obj=sv), [val], {})
            except cx._Raise as e:
                return 'raise', e.exc, st
            return 'return', None, st
        rs += cx.explore(run)

    def sd_ok(r):
        v, ds = r.state['val'], r.state['ds']
        has = 'standard_deviation' in ds.fields['__items__']
        if v is None:
            return r.outcome == 'return' and not has
        P = z3.Bool(f"ANY{('cmp', 'LtE', 0.0, v.store.uid, v.store.version)!r}")
        if r.outcome == 'raise':
            return P
        return z3.And(z3.Not(P), z3.BoolVal(has and ds.fields['__items__']['standard_deviation'].store is v.store))
    clause(col, 'standard_deviation_setter/None_resets__nonpositive_rejected__array_stored', rs, sd_ok)
    return col.pack()


# ---- histories of explicit assignments: what is read back (and what the standard deviation is made of) is the value assigned LAST
def _size_one_item(it, f, args, kw, node):
    """local dependency contract: ndarray.item() of a size-one array is its (only) element"""
    v = f.bound
    if isinstance(v, cx.NDArr) and v.store.val is not None:
        return v.store.val
    return it.ctx.fresh_real('item')


def _float_of(it, f, args, kw, node):
    """local dependency contract: float(x) is a real number (never a str, never None); of a size-one array it is the element"""
    v = args[0] if args else 0.0
    if isinstance(v, cx.NDArr):
        return v.store.val if v.store.val is not None else it.ctx.fresh_real('float')
    if isinstance(v, cx.Opaque):
        return it.ctx.fresh_real('float')
    return prelude.TABLE['builtins.float'](it, f, args, kw, node)


def assigned(i):
    return z3.Real(f'assigned_{i + 1}')


def elem(v):
    """the value a noise parameter has at the generic datum: None, a real term, or UNRECOGNISED (value not tracked);
    False for something that is no noise parameter at all (e.g. the internal str flag)"""
    if v is None:
        return None
    if isinstance(v, (str, bool)):
        return False
    if isinstance(v, (int, float)):
        return z3.RealVal(repr(float(v)))
    if isinstance(v, cx.NDArr):
        if v.store.val is None or not z3.is_expr(cx.R(v.store.val)):
            return UNRECOGNISED('point-wise value of the array read back is not tracked')
        v = cx.R(v.store.val)
    if z3.is_expr(v):
        if not (z3.is_real(v) or z3.is_int(v)):
            return False
        if fresh_consts(v):
            return UNRECOGNISED('value read back depends on a value the executor could not track')
        return z3.ToReal(v) if z3.is_int(v) else v
    return UNRECOGNISED(f'value read back is not tracked ({type(v).__name__})')


STEP_KINDS = ('none', 'scalar', 'array')


def task_assign_then_read():
    """histories: a survey with (absent / scalar / array) noise parameters; noise_floor or relative_error is explicitly assigned once or twice
    (None / a scalar / an array, which may have one element or more; a non-positive value is rejected and must change nothing); then the
    parameter and the standard deviation are read through the public getters.  After two assignments the dataset is in every state the
    real setter can leave behind, so the clauses hold after every history of assignments by induction on its length."""
    col = ob.Collector(PROP, 'surveys.Survey/assign_then_read')
    col.default_replay = replay_survey
    for q in ('surveys.Survey.noise_floor', 'surveys.Survey.relative_error', 'surveys.Survey._set_nf_re', 'surveys.Survey.standard_deviation'):
        col.function(q)
    col.trust('ndarray.item() / float() of a size-one array: the value of its only element; float(x) is a real number (not a str, not None)')
    res = []
    hists = [(a,) for a in STEP_KINDS] + list(itertools.product(STEP_KINDS, STEP_KINDS))
    for name, other, kind0, steps in itertools.product(('noise_floor', 'relative_error'), ('scalar', 'array'), KINDS, hists):
        def run(ctx, name=name, other=other, kind0=kind0, steps=steps):
            ctx.opts['getattr_hook'] = ds_hook
            ctx.opts.setdefault('prelude', {}).update({'ndarray.item': _size_one_item, 'builtins.float': _float_of})
            nf, re = (kind0, other) if name == 'noise_floor' else (other, kind0)
            sv, ds = mk_survey(nf, re, False)
            it = cx.Interp(ctx, 'surveys')
            cur = None if kind0 is None else (NF if name == 'noise_floor' else RE)
            hist = [cur]
            for i, k in enumerate(steps):
                val = {'none': None, 'scalar': assigned(i), 'array': cx.NDArr(cx.Store(f'given-value-{i + 1}', assigned(i)))}[k]
                try:
                    it.setattr(sv, name, val)
                    cur = None if k == 'none' else assigned(i)
                except cx._Raise:
                    pass                      # rejected assignment: the previous value stays
                hist.append(cur)
            st = dict(ds=ds, name=name, other=other, cfg=(name, other, kind0, steps), cur=cur, hist=hist)
            try:
                st['read'] = it.getattr(sv, name)
                st['sd'] = it.getattr(sv, 'standard_deviation')
            except cx._Raise as e:
                return 'raise', e.exc, st
            return 'return', st['read'], st
        res += cx.explore(run)

    def read_ok(r, want=None):
        if r.outcome != 'return':
            return False
        want = r.state['cur'] if want is None else want[0]
        got = elem(r.state['read'])
        if isinstance(got, type(UNRECOGNISED)) or got is False:
            return got
        if want is None or got is None:
            return want is None and got is None
        return got == want
    clause(col, 'getter_returns_the_value_assigned_last__None_scalar_or_broadcast_array__rejected_assignment_changes_nothing', res, read_ok, sample=True)

    def sd_ok(r):
        if r.outcome != 'return':
            return False
        name, other = r.state['name'], r.state['other']
        mine, oth = r.state['cur'], (RE if name == 'noise_floor' else NF)
        nfv, rev = (mine, oth) if name == 'noise_floor' else (oth, mine)
        sd = r.state['sd']
        if isinstance(sd, cx.Opaque):
            return UNRECOGNISED('standard deviation is not tracked')
        if nfv is None and rev is None:
            return sd is None
        got = elem(sd)
        if got is None or got is False or isinstance(got, type(UNRECOGNISED)):
            return False if got is None else got
        want = z3.RealVal(0)
        hyp = []
        if nfv is not None:
            want = want + nfv * nfv
        if rev is not None:
            want = want + (rev * ABS(DOBS)) * (rev * ABS(DOBS))
            hyp = [rev > 0, ABS(rev * DOBS) == rev * ABS(DOBS)]       # |re d| == re |d| for re > 0 (non-positive values are rejected)
        return z3.Implies(z3.And(*hyp), got == SQRT(want)) if hyp else got == SQRT(want)
    clause(col, 'standard_deviation_is_made_of_the_values_assigned_last', res, sd_ok, sample=True)
    # canary: "what is read back is the value the parameter had BEFORE the last assignment" must be refuted
    canary(col, 'canary/getter_returns_the_value_before_the_last_assignment', res,
           lambda r: read_ok(r, want=(r.state['hist'][-2],)) if r.outcome == 'return' and not isinstance(elem(r.state['read']), type(UNRECOGNISED)) else None)
    return col.pack()


def task_add_noise():
    col = ob.Collector(PROP, 'surveys.Survey.add_noise')
    col.default_replay = replay_survey
    col.function('surveys.Survey.add_noise')
    res = []
    cfgs = list(itertools.product(KINDS, KINDS, (False, True), ('half_nf', 'value', None), ('observed', 'noise')))
    for nf, re, explicit, mina, add_to in cfgs:
        def mk(ctx, nf=nf, re=re, explicit=explicit, mina=mina, add_to=add_to):
            ctx.opts['getattr_hook'] = ds_hook
            ctx.summaries['surveys.random_noise'] = lambda it, a, k, n: cx.NDArr(cx.Store('noise'))
            sv, ds = mk_survey(nf, re, explicit)
            kw = dict(min_offset=z3.Real('min_offset'), add_to=add_to)
            if mina != 'half_nf':
                kw['min_amplitude'] = z3.Real('min_amp') if mina == 'value' else None
            return [], kw, dict(__self__=sv, ds=ds, before=snapshot(ds), cfg=(nf, re, explicit, mina, add_to))
        res += cx.run_function('surveys.Survey.add_noise', mk, pc0=[z3.Real('min_offset') >= 0], summaries={}, opts={})
    clause(col, 'returns_normally', res, lambda r: r.outcome == 'return')

    def frame(r):
        ds, before = r.state['ds'], r.state['before']
        add_to = r.state['cfg'][4]
        tgt = ds.fields['__items__'][add_to].store.uid if add_to in ds.fields['__items__'] else None
        only_target = all(e['store'].uid == tgt or not str(e['store'].origin).startswith('data.') for e in r.mutations())
        return untouched(r, ds, before, allowed_new=(add_to,)) and only_target
    clause(col, 'writes_only_the_dataset_named_by_add_to__noise_parameters_untouched', res, frame, sample=True)
    return col.pack()


def task_misfit():
    col = ob.Collector(PROP, 'simulations.Simulation.misfit')
    col.default_replay = replay_survey
    col.function('simulations.Simulation.misfit')
    res = []
    for nf, re, explicit in itertools.product(KINDS, KINDS, (False, True)):
        def run(ctx, nf=nf, re=re, explicit=explicit):
            ctx.opts['getattr_hook'] = ds_hook
            log = []

            def npsum(it, f, args, kw, node):
                log.append(args[0])
                return cx.DArr(cx.Store('sum-result'))
            ctx.opts.setdefault('prelude', {})['np.sum'] = npsum
            sv, ds = mk_survey(nf, re, explicit, extra_items=('synthetic',))
            ds.fields['__items__']['synthetic'] = cx.DArr(cx.Store('data.synthetic', DSYN))
            sim = cx.Obj('Simulation', dict(_misfit=None, _computed=True, survey=sv, data=ds), mod='simulations')
            it = cx.Interp(ctx, 'simulations')
            st = dict(ds=ds, before=snapshot(ds), log=log, cfg=(nf, re, explicit), sim=sim)
            try:
                v = it.getattr(sim, 'misfit')
            except cx._Raise as e:
                return 'raise', e.exc, st
            return 'return', v, st
        res += cx.explore(run)
    clause(col, 'raises_iff_no_standard_deviation_available', res,
           lambda r: (r.outcome == 'raise') == (r.state['cfg'] == (None, None, False)))

    def formula(r):
        if r.outcome != 'return':
            return None
        nf, re, explicit = r.state['cfg']
        if len(r.state['log']) != 1 or not isinstance(r.state['log'][0], cx.NDArr) or r.state['log'][0].store.val is None:
            return False
        if explicit:
            std = SD
        else:
            want = z3.RealVal(0)
            if nf is not None:
                want = want + NF * NF
            if re is not None:
                want = want + ABS(RE * DOBS) * ABS(RE * DOBS)
            std = SQRT(want)
        res_ = DSYN - DOBS
        return z3.Implies(std != 0, r.state['log'][0].store.val == (1 / (std * std)) * (CONJ(res_) * res_))
    clause(col, 'summand_is_weight_times_abs_residual_squared_with_weight_std_to_minus_two', res, formula, sample=True)
    clause(col, 'misfit_leaves_noise_parameters_untouched__weights_and_residual_are_new_datasets', res,
           lambda r: untouched(r, r.state['ds'], r.state['before'], allowed_new=('weights', 'residual')) if r.outcome == 'return' else None)

    def weights_fresh(r):
        if r.outcome != 'return':
            return None
        it_ = r.state['ds'].fields['__items__']
        w = it_.get('weights')
        others = {v.store.uid for k, v in it_.items() if k != 'weights'}
        return isinstance(w, cx.NDArr) and w.store.uid not in others
    clause(col, 'weights_do_not_share_storage_with_the_standard_deviation', res, weights_fresh)
    return col.pack()


def task_to_dict_select():
    col = ob.Collector(PROP, 'surveys.Survey/to_dict_select')
    col.default_replay = replay_survey
    col.function('surveys.Survey.to_dict')
    col.function('surveys.Survey.select')
    res = []
    for nf, re, explicit in itertools.product(('scalar', 'array'), (None, 'array'), (False, True)):
        def mk(ctx, nf=nf, re=re, explicit=explicit):
            ctx.opts['getattr_hook'] = ds_hook
            sv, ds = mk_survey(nf, re, explicit)
            for o in list(sv.fields['sources'].values()) + list(sv.fields['receivers'].values()):
                o.fields['to_dict'] = cx.Closure(__import__('ast').parse('lambda: {}').body[0].value, {}, cx.Interp(ctx, 'surveys'))
            return [], dict(copy=False), dict(__self__=sv, ds=ds, before=snapshot(ds))
        res += cx.run_function('surveys.Survey.to_dict', mk, summaries={}, opts={})
    clause(col, 'to_dict/writes_nothing_and_reports_noise_parameters_as_stored', res,
           lambda r: r.outcome == 'return' and untouched(r, r.state['ds'], r.state['before']) and len(r.mutations()) == 0
           and r.value['noise_floor'] is r.state['ds'].fields['attrs']['noise_floor']
           and r.value['relative_error'] is r.state['ds'].fields['attrs']['relative_error']
           and sorted(r.value['data']) == r.state['before']['keys'])
    # select
    rs = []
    for nf, explicit in itertools.product(('scalar', 'array'), (False, True)):
        def mk(ctx, nf=nf, explicit=explicit):
            ctx.opts['getattr_hook'] = ds_hook
            log = []
            sv, ds = mk_survey(nf, None, explicit)
            for o in list(sv.fields['sources'].values()) + list(sv.fields['receivers'].values()):
                o.fields['to_dict'] = cx.Closure(__import__('ast').parse('lambda: {}').body[0].value, {}, cx.Interp(ctx, 'surveys'))

            def from_dict(it, args, kw, node):
                log.append(('from_dict', args[-1]))
                return cx.Obj('Survey', {'__from__': args[-1]}, mod='surveys')
            ctx.summaries['surveys.Survey.from_dict'] = from_dict
            return [], dict(sources=['TxED-1'], receivers=['RxEP-1'], frequencies=['f-1'], remove_empty=False), \
                dict(__self__=sv, ds=ds, before=snapshot(ds), log=log)
        rs += cx.run_function('surveys.Survey.select', mk, summaries={}, opts={})

    def sel_ok(r):
        if r.outcome != 'return' or len(r.state['log']) != 1:
            return False
        d = r.state['log'][0][1]
        sels = [e for e in r.events if e['kind'] == 'sel']
        keys_ok = sorted(d['data']) == r.state['before']['keys'] and len(sels) == len(r.state['before']['keys'])
        lab_ok = all(e['labels'] == dict(src=['TxED-1'], rec=['RxEP-1'], freq=['f-1']) for e in sels)
        names_ok = list(d['sources']) == ['TxED-1'] and list(d['receivers']) == ['RxEP-1'] and list(d['frequencies']) == ['f-1']
        return keys_ok and lab_ok and names_ok and untouched(r, r.state['ds'], r.state['before']) and len(r.mutations()) == 0
    clause(col, 'select/every_dataset_is_cut_to_exactly_the_requested_labels__original_untouched', rs, sel_ok)
    return col.pack()


def task_concrete():
    from . import c13_concrete
    col = ob.Collector(PROP, 'concrete')
    seed = int(os.environ.get('VERIF_SEED', '0'))
    tier = os.environ.get('VERIF_TIER', 'quick')
    r = ob.guarded(c13_concrete.check, tier, seed)
    col.concrete('noise_model_misfit_and_frames_on_real_survey_and_simulation', r['reproduced'] is False, r,
                 bounded='survey shapes (1,1,1),(2,3,2); scalar / per-axis / full-array noise parameters; explicit std; NaN gaps; add_noise x3; select; copy; to_dict; misfit',
                 cases=r.get('cases', 0))
    return col.pack()


def tasks(tier):
    return [('contracts.c13', n, {}) for n in ('task_std_getter', 'task_setters', 'task_assign_then_read', 'task_add_noise', 'task_misfit', 'task_to_dict_select', 'task_concrete')] \
        + [('contracts.c13_select', 'task_select_by_name', {})] \
        + [('contracts.c12', 'task_op', dict(op=o)) for o in ('misfit', 'clean_computed', 'clean_all', 'model_update')]
    # (closure: the misfit belongs to the standard deviation set NOW only if the weights a misfit evaluation leaves in the survey data go away with
    #  every clean -- C12's `leaves_the_plain_state`)


LEVEL = ('Control-executor proof over the real source of the Survey noise model and Simulation.misfit with abstract xarray objects: '
         'element-wise standard-deviation and misfit formulas, rejection of non-positive values, and frame/ownership obligations '
         '(which storages an operation may write; which results must be fresh) on every path and every combination of scalar/array/absent parameters.')
ASSUMPTIONS = ['xarray: Dataset attribute-style access to variables and attrs; DataArray.copy(data=X) holds X itself; .sel with label lists returns the selected sub-cube as new data; sum() skips NaN',
               'sqrt / abs / conj treated as uninterpreted element-wise functions (congruence); |re d| = re |d| for re > 0',
               'random_noise returns a fresh array (its distribution is not part of the property)',
               'select by name (contracts/c13_select.py): label-aware xarray model -- .sel picks by label in the order asked for; a Dataset attaches unlabelled variables '
               'by position and re-indexes labelled ones by label; concrete names (3 x 2 x 2 survey, every ordered sub-list per axis), symbolic values; '
               'electrodes survive to_dict / from_dict; the path on which the setter rejects the (positive) scalar the original holds is excluded']
