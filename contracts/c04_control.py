"""C04 -- wiring of solver.restriction and solver._get_restriction_weights (control executor) and the
bounded concrete cross-checks of restriction / prolongation on the real functions."""
import os

import z3

from pyvc import cx, ob
from .cxutil import clause
from .c04 import PROP, COARSENED

CASES = ('isotropic', 'HTI', 'VTI', 'triaxial')


def mk_grid(tag):
    f = dict(origin=cx.Opaque(tag + 'origin'), shape_nodes=tuple(z3.Ints(f'{tag}n0 {tag}n1 {tag}n2')),
             shape_cells=tuple(z3.Ints(f'{tag}m0 {tag}m1 {tag}m2')))
    for d in 'xyz':
        f['nodes_' + d] = cx.NDArr(cx.Store(f'{tag}nodes_{d}'))
        f['cell_centers_' + d] = cx.NDArr(cx.Store(f'{tag}cell_centers_{d}'))
    f['h'] = [cx.NDArr(cx.Store(f'{tag}h{k}')) for k in range(3)]
    return cx.Obj('TensorMesh', f)


def mk_model(case):
    ex = cx.NDArr(cx.Store('eta_x'))
    ey = cx.NDArr(cx.Store('eta_y')) if case in ('HTI', 'triaxial') else ex
    ez = cx.NDArr(cx.Store('eta_z')) if case in ('VTI', 'triaxial') else ex
    return cx.Obj('VolumeModel', dict(case=case, grid=mk_grid('f_'), eta_x=ex, eta_y=ey, eta_z=ez, zeta=cx.NDArr(cx.Store('zeta'))))


def summaries(log):
    def rmp(it, args, kw, node):
        p, sc = args
        return cx.NDArr(cx.Store(('restricted', p.store.uid, sc)))

    def basemesh(it, args, kw, node):
        b = dict(zip(('h', 'origin'), args))          # effective parameters of BaseMesh(h, origin) by name
        b.update(kw)
        h, origin = b.get('h'), b.get('origin')
        g = mk_grid('c_')
        g.fields['__built_from__'] = (h, origin)
        log.append(('BaseMesh', h, origin, g))
        return g

    def field(it, args, kw, node):
        f = cx.Obj('Field', dict(grid=args[0], fx=cx.NDArr(cx.Store('zero-fx', z3.RealVal(0))), fy=cx.NDArr(cx.Store('zero-fy', z3.RealVal(0))),
                                 fz=cx.NDArr(cx.Store('zero-fz', z3.RealVal(0))), kwargs=kw))
        log.append(('Field', f))
        return f

    def grw(it, args, kw, node):
        w = tuple(cx.Opaque(f'w{d}') for d in 'xyz')
        log.append(('weights', args, w))
        return w

    def restrict(it, args, kw, node):
        log.append(('restrict', args))
        return None
    return {'solver._restrict_model_parameters': rmp, 'meshes.BaseMesh': basemesh, 'fields.Field': field,
            'solver._get_restriction_weights': grw, 'core.restrict': restrict}


def np_diff(it, f, args, kw, node):
    return cx.NDArr(cx.Store(('diff', args[0])))


def replay_control(sc):
    def rp(d):
        from . import c04_concrete
        r = ob.guarded(c04_concrete.check_model_restriction, (sc,), (0,))
        if not r['reproduced']:
            r = ob.guarded(c04_concrete.check_restriction, (sc,), [(4, 6, 8)], (0,))
        return r
    return rp


def task_restriction(sc):
    col = ob.Collector(PROP, f'solver.restriction/sc{sc}')
    col.default_replay = replay_control(sc)
    col.function('solver.restriction')
    results = []
    for case in CASES:
        def mk(ctx, case=case):
            log = []
            ctx.summaries.update(summaries(log))
            model = mk_model(case)
            sfield = cx.Obj('Field', {})
            res = cx.Obj('Field', dict(fx=cx.NDArr(cx.Store('res-fx')), fy=cx.NDArr(cx.Store('res-fy')), fz=cx.NDArr(cx.Store('res-fz'))))
            return [model, sfield, res, sc], {}, dict(model=model, log=log, res=res, case=case)
        results += cx.run_function('solver.restriction', mk, summaries={}, opts=dict(prelude={'np.diff': np_diff}))
    co = COARSENED[sc]
    clause(col, 'returns_normally_with_three_objects', results,
           lambda r: r.outcome == 'return' and isinstance(r.value, tuple) and len(r.value) == 3)

    def grid_ok(r):
        bm = [e for e in r.state['log'] if e[0] == 'BaseMesh']
        if len(bm) != 1:
            return False
        h, origin, g = bm[0][1], bm[0][2], bm[0][3]
        fg = r.state['model'].fields['grid']
        ok = origin is fg.fields['origin'] and isinstance(h, list) and len(h) == 3 and r.value[0].fields.get('grid') is g
        for k, d in enumerate('xyz'):
            a = h[k]
            ok = ok and isinstance(a, cx.NDArr) and isinstance(a.store.origin, tuple) and a.store.origin[0] == 'diff'
            if not ok:
                return False
            src = a.store.origin[1]
            ok = ok and isinstance(src, cx.NDArr) and src.store is fg.fields['nodes_' + d].store and isinstance(src.view, tuple) \
                and src.view[0] == 'slice' and src.view[1] is None and src.view[2] is None and src.view[3] == (2 if co[k] else 1)
        return ok
    clause(col, 'coarse_grid_is_every_second_node_in_the_coarsened_directions_same_origin', results, grid_ok, sample=True)

    def model_ok(r):
        m, cm = r.state['model'], r.value[0]
        ok = cm.fields.get('case') == m.fields['case']
        for nm in ('eta_x', 'eta_y', 'eta_z', 'zeta'):
            c = cm.fields.get(nm)
            ok = ok and isinstance(c, cx.NDArr) and c.store.origin == ('restricted', m.fields[nm].store.uid, sc)
        # aliasing as in the fine model
        for a, b in (('eta_x', 'eta_y'), ('eta_x', 'eta_z'), ('eta_y', 'eta_z')):
            ok = ok and ((cm.fields[a].store is cm.fields[b].store) == (m.fields[a].store is m.fields[b].store))
        return ok
    clause(col, 'every_coarse_parameter_is_the_restriction_of_the_same_fine_parameter', results, model_ok, sample=True)

    def fields_ok(r):
        log = r.state['log']
        fl = [e[1] for e in log if e[0] == 'Field']
        rs = [e for e in log if e[0] == 'restrict']
        ws = [e for e in log if e[0] == 'weights']
        if len(fl) != 2 or len(rs) != 1 or len(ws) != 1:
            return False
        cm, cs, ce = r.value
        a = rs[0][1]
        res = r.state['res']
        ok = cs is fl[0] and ce is fl[1] and cs is not ce
        ok = ok and a[0] is cs.fields['fx'] and a[1] is cs.fields['fy'] and a[2] is cs.fields['fz']
        ok = ok and a[3] is res.fields['fx'] and a[4] is res.fields['fy'] and a[5] is res.fields['fz']
        ok = ok and tuple(a[6:9]) == tuple(ws[0][2]) and a[9] == sc
        ok = ok and ws[0][1][0] is r.state['model'].fields['grid'] and ws[0][1][1] is cm.fields['grid'] and ws[0][1][2] == sc
        ok = ok and cs.fields['grid'] is cm.fields['grid'] and ce.fields['grid'] is cm.fields['grid']
        # the coarse field is freshly allocated (zero) and handed to nobody
        ok = ok and all(x is not ce.fields[k] for x in a[:6] for k in ('fx', 'fy', 'fz'))
        return ok
    clause(col, 'residual_restricted_into_fresh_source_field__coarse_field_zero', results, fields_ok)
    return col.pack()


def task_get_weights(sc):
    col = ob.Collector(PROP, f'solver._get_restriction_weights/sc{sc}')
    col.default_replay = replay_control(sc)
    col.function('solver._get_restriction_weights')
    co = COARSENED[sc]

    def mk(ctx):
        log = []

        def rw(it, args, kw, node):
            t = tuple(cx.Opaque(f'rw{len(log)}_{k}') for k in range(3))
            log.append((args, t))
            return t
        ctx.summaries['core.restrict_weights'] = rw
        g, cg = mk_grid('f_'), mk_grid('c_')
        return [g, cg, sc], {}, dict(g=g, cg=cg, log=log)
    res = cx.run_function('solver._get_restriction_weights', mk, summaries={})

    def ok(r):
        if r.outcome != 'return' or not isinstance(r.value, tuple) or len(r.value) != 3:
            return False
        g, cg, log = r.state['g'], r.state['cg'], r.state['log']
        good = True
        n_calls = 0
        for k, d in enumerate('xyz'):
            w = r.value[k]
            if co[k]:
                hit = [e for e in log if e[1] is w or tuple(e[1]) == tuple(w)]
                if len(hit) != 1:
                    return False
                n_calls += 1
                a = hit[0][0]
                good = good and a[0] is g.fields['nodes_' + d] and a[1] is g.fields['cell_centers_' + d] and a[2] is g.fields['h'][k] \
                    and a[3] is cg.fields['nodes_' + d] and a[4] is cg.fields['cell_centers_' + d] and a[5] is cg.fields['h'][k]
            else:
                good = good and isinstance(w, tuple) and len(w) == 3 and all(isinstance(x, cx.NDArr) for x in w)
                if not good:
                    return False
                vals = [x.store.val for x in w]
                good = good and all(v is not None for v in vals) and \
                    [str(z3.simplify(v)) for v in vals] == ['0', '1', '0']
        return good and n_calls == len(log)
    clause(col, 'hat_weights_for_coarsened_directions__dummy_0_1_0_otherwise', res, ok, sample=True)
    return col.pack()


def task_concrete():
    from . import c04_concrete
    col = ob.Collector(PROP, 'concrete')
    for f in ('solver.restriction', 'solver.prolongation', 'solver.RegularGridProlongator', 'core.restrict', 'core.restrict_weights'):
        col.function(f)
    seed = int(os.environ.get('VERIF_SEED', '0'))
    tier = os.environ.get('VERIF_TIER', 'quick')
    shapes = [(4, 6, 8)] if tier == 'quick' else [(4, 6, 8), (2, 4, 2), (8, 4, 6), (6, 2, 10)]
    r = ob.guarded(c04_concrete.check_restriction, range(7), shapes, (seed,))
    col.concrete('restriction_is_transposed_prolongation_on_real_function', r['reproduced'] is False, r,
                 bounded=f'7 patterns x shapes {shapes} x real/complex, stretched grids', cases=r['cases'])
    r = ob.guarded(c04_concrete.check_prolongation, range(7), shapes, (seed,))
    col.concrete('prolongation_adds_P_times_coarse_field_boundary_untouched', r['reproduced'] is False, r,
                 bounded=f'7 patterns x shapes {shapes}, stretched grids (stands in for RegularGridProlongator + solver.prolongation)', cases=r['cases'])
    r = ob.guarded(c04_concrete.check_weights, (2, 3, 5, 8), (seed, seed + 1))
    col.concrete('restrict_weights_are_hat_weights', r['reproduced'] is False, r, bounded='n in (2,3,5,8) coarse nodes', cases=r['cases'])
    r = ob.guarded(c04_concrete.check_model_restriction, range(7), (seed,))
    col.concrete('coarse_model_is_sum_of_children_all_cases', r['reproduced'] is False, r,
                 bounded='7 patterns x 4 anisotropy cases x mu_r on/off x 2 shapes', cases=r['cases'])
    return col.pack()


def tasks(tier):
    t = [('contracts.c04_control', 'task_restriction', dict(sc=s)) for s in range(7)]
    t += [('contracts.c04_control', 'task_get_weights', dict(sc=s)) for s in range(7)]
    t.append(('contracts.c04_control', 'task_concrete', {}))
    return t
