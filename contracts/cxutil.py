"""helpers shared by the control-level contracts (cx based)"""
import z3

from pyvc import cx, intake


class _Unrecognised:
    """returned by a clause when the code no longer has the SHAPE the contract talks about (so the clause can say neither yes nor no):
    the obligation becomes undecided instead of refuted -- a harmless restructuring must not look like a violation"""

    def __init__(self, why=''):
        self.why = why

    def __call__(self, why):
        return _Unrecognised(why)


UNRECOGNISED = _Unrecognised()


def pcs(r):
    return z3.And(*r.pc) if r.pc else z3.BoolVal(True)


def clause(col, oid, results, post, hyps=(), select=None, sample=False):
    """one obligation per contract clause: for every explored path (selected by `select`)
    path-condition => post(path).  post returns a z3 Bool or python bool."""
    goals = []
    n = 0
    for r in results:
        if select is not None and not select(r):
            continue
        try:
            g = post(r)
        except (LookupError, AttributeError, TypeError, z3.Z3Exception) as e:
            # the value a clause looks at does not have the expected form any more (e.g. no longer a term): nothing can be concluded
            return col.undecided(oid, f'the clause cannot be evaluated on this path ({type(e).__name__}: {str(e)[:120]})')
        if g is None:
            continue
        if isinstance(g, _Unrecognised):
            return col.undecided(oid, 'the code does not have the shape this clause talks about' + (f': {g.why}' if g.why else ''))
        n += 1
        g = z3.BoolVal(g) if isinstance(g, bool) else g
        goals.append(z3.Implies(pcs(r), g))
    if not goals:
        return col.undecided(oid, 'no path selected for this clause')
    return col.lia(oid, list(hyps), z3.And(*goals), sample=sample)


def canary(col, oid, results, post, hyps=(), select=None):
    goals = []
    for r in results:
        if select is not None and not select(r):
            continue
        try:
            g = post(r)
        except (LookupError, AttributeError, TypeError, z3.Z3Exception) as e:
            # a deliberately wrong clause that cannot even be stated on the code under test says nothing about the checker
            return col.undecided(oid, f'canary cannot be evaluated on this path ({type(e).__name__}: {str(e)[:120]})')
        if g is None or isinstance(g, _Unrecognised):
            continue
        g = z3.BoolVal(g) if isinstance(g, bool) else g
        goals.append(z3.Implies(pcs(r), g))
    return col.canary_lia(oid, list(hyps), z3.And(*goals) if goals else z3.BoolVal(True))


def explore_with_history(qualname, mk, watch, pc0=(), max_states=4):
    """`whatever an earlier call left behind`: explores qualname once with fresh arguments (mk(ctx, left=())), collects the attributes the call
    stores on the caller's long-lived objects (watch(state) -> {name: object}; attribute stores are the only way a call can leave state on them
    in the abstract state of the executor, array contents are versioned stores of their own), and explores it AGAIN for every distinct state so
    left behind (at most max_states, one per path that differs in the set of values) with those attributes installed on the fresh objects:
    mk(ctx, left=[(name, attr, value), ...]).  The values are the objects of the first run as they were at the END of that run (in-place writes
    included).  Returns (first, again); `again` is empty if nothing is left behind, which is the case on code without caches."""
    first = cx.run_function(qualname, mk, pc0=list(pc0), summaries={}, opts={})
    states = []
    for r in first:
        left = {}
        objs = watch(r.state)
        for ev in r.events:
            if ev['kind'] in ('setattr', 'setattr-opaque'):
                for who, o in objs.items():
                    if ev['obj'] is o:
                        left[(who, ev['attr'])] = ev['value']
        if left and not any(set(left) == set(l) and all(left[k] is l[k] for k in left) for l in states):
            states.append(left)
    again = []
    for left in states[:max_states]:
        again += cx.run_function(qualname, lambda ctx, left=left: mk(ctx, left=[(w, a, v) for (w, a), v in left.items()]), pc0=list(pc0), summaries={}, opts={})
    return first, again


def fresh_consts(e):
    """constants introduced by the executor on a path (named <tag>!<n>)"""
    out = {}
    seen = set()

    def walk(t):
        if t.get_id() in seen:
            return
        seen.add(t.get_id())
        if z3.is_const(t) and t.decl().kind() == z3.Z3_OP_UNINTERPRETED and '!' in t.decl().name():
            out[t.decl().name()] = t
        for c in t.children():
            walk(c)
    walk(e)
    return list(out.values())


def coverage(col, oid, results, hyps=()):
    """the explored path conditions cover the precondition (exploration is exhaustive); symbols
    introduced on a path (opaque truth values) are existentially quantified"""
    alts = []
    for r in results:
        p = pcs(r)
        fc = fresh_consts(p)
        alts.append(z3.Exists(fc, p) if fc else p)
    return col.lia(oid, list(hyps), z3.Or(*alts) if alts else z3.BoolVal(False))


def single_loop(qualname, kind):
    fn, _, _ = intake.func(qualname)
    import ast
    ls = [l for l in intake.loops_preorder(fn) if isinstance(l, kind)]
    return fn, ls


def mx(*xs):
    r = xs[0]
    for x in xs[1:]:
        r = z3.If(r >= x, r, x)
    return r


def mn(*xs):
    r = xs[0]
    for x in xs[1:]:
        r = z3.If(r <= x, r, x)
    return r


def merge_values(results, getter):
    """value of something at a program point as a single term: ite-chain over the explored paths
    (exactly one path condition holds).  Python bools/ints are lifted; non-numeric values must agree."""
    vals = [(pcs(r), getter(r)) for r in results]
    first = vals[0][1]
    if all((v is first) or (not z3.is_expr(v) and not z3.is_expr(first) and type(v) is type(first) and v == first
                            and isinstance(v, (int, float, str, bool, type(None)))) for _, v in vals):
        return first
    lifted = []
    for c, v in vals:
        if isinstance(v, bool):
            v = z3.BoolVal(v)
        elif isinstance(v, int):
            v = z3.IntVal(v)
        elif isinstance(v, float):
            v = z3.RealVal(repr(v))
        if not z3.is_expr(v):
            return None
        lifted.append((c, v))
    srt = lifted[0][1].sort()
    if any(v.sort() != srt for _, v in lifted):
        if all(z3.is_int(v) or z3.is_real(v) for _, v in lifted):
            lifted = [(c, z3.ToReal(v) if z3.is_int(v) else v) for c, v in lifted]
        else:
            return None
    out = lifted[-1][1]
    for c, v in reversed(lifted[:-1]):
        out = z3.If(c, v, out)
    return out


def assigned_names(stmts):
    import ast
    out = set()
    for n in ast.walk(ast.Module(body=list(stmts), type_ignores=[])):
        if isinstance(n, (ast.Assign, ast.AugAssign, ast.AnnAssign)):
            tg = n.targets if isinstance(n, ast.Assign) else [n.target]
            for t in tg:
                for e in ([t] if not isinstance(t, (ast.Tuple, ast.List)) else t.elts):
                    if isinstance(e, ast.Name):
                        out.add(e.id)
        elif isinstance(n, ast.For) and isinstance(n.target, ast.Name):
            out.add(n.target.id)
    return out


def generic_for_loops(inv_fixed, on_elem=None):
    """loop hook: every `for` loop is executed from an arbitrary state satisfying the invariant `name == value` (inv_fixed):
         (A) the loop is exhausted (zero or more complete iterations): names assigned in the body are arbitrary, the
             invariant holds, the else-part runs;
         (B) one generic iteration starting in an invariant state, target bound to an arbitrary element of the sequence:
             a `break` leaves the loop with the state reached; otherwise the invariant must hold again (an 'inv_fail'
             event is recorded when it does not) and the path ends.
       The invariant is also checked on entry.  Sound for any number of iterations by induction on the iteration count."""
    import ast

    def names_of(s):
        out = assigned_names(s.body)
        for e in ast.walk(s.target):
            if isinstance(e, ast.Name):
                out.add(e.id)
        return out

    def check(it, env, where, s):
        for k, v in inv_fixed.items():
            if k in env and not (env[k] is v or (type(env[k]) is type(v) and env[k] == v)):
                it.ctx.event('inv_fail', where=where, name=k, line=s.lineno)

    def hook(it, s, env):
        ctx = it.ctx
        seq = it.ev(s.iter, env)
        check(it, env, 'entry', s)
        names = names_of(s)
        exhausted = ctx.branch(ctx.fresh_bool(f'loop{s.lineno}_exhausted'), 'generic loop')
        for n in names:
            if n in inv_fixed:
                env[n] = inv_fixed[n]
            else:
                o = cx.Opaque(f'havoc:{n}@{s.lineno}')
                o.havoc = (n, s.lineno)
                env[n] = o
        if exhausted:
            ctx.event('loop_exhausted', line=s.lineno)
            it.exec_block(s.orelse, env)
            return None
        elem = on_elem(it, s, seq) if on_elem is not None else None
        if elem is None:
            elem = cx.Opaque(f'elem@{s.lineno}')
            elem.elem_of = seq
        ctx.event('generic_iteration', line=s.lineno, seq=seq, elem=elem)
        it.bind_target(s.target, elem, env)
        try:
            it.exec_block(s.body, env)
        except cx._Break:
            ctx.event('loop_break', line=s.lineno)
            return None
        except cx._Continue:
            pass
        check(it, env, 'iteration', s)
        raise cx._Stop(('generic-iteration-end', s.lineno))
    return hook


def module_state_used(qualname):
    """see pyvc.intake.hidden_state"""
    return intake.hidden_state(qualname)
