"""Concrete evaluation of the C04 contracts on the real functions (replay + bounded cross-check)."""
import itertools

import numpy as np

COARSENED = {0: (1, 1, 1), 1: (0, 1, 1), 2: (1, 0, 1), 3: (1, 1, 0), 4: (1, 0, 0), 5: (0, 1, 0), 6: (0, 0, 1)}


def hat(nodes, j, J, coarsened):
    """weight of coarse node J at fine node j (fine node coordinates `nodes`)"""
    if not coarsened:
        return 1.0 if j == J else 0.0
    if j == 2 * J:
        return 1.0
    if j == 2 * J - 1 and J >= 1:
        return (nodes[j] - nodes[2 * J - 2]) / (nodes[2 * J] - nodes[2 * J - 2])
    if j == 2 * J + 1 and 2 * J + 2 < len(nodes):
        return (nodes[2 * J + 2] - nodes[j]) / (nodes[2 * J + 2] - nodes[2 * J])
    return 0.0


def edge_shape(c, n):
    a, b, d = n
    return dict(x=(a, b + 1, d + 1), y=(a + 1, b, d + 1), z=(a + 1, b + 1, d))[c]


def interior(c, I, n):
    ax = 'xyz'.index(c)
    return all((0 <= I[k] <= n[k] - 1) if k == ax else (1 <= I[k] <= n[k] - 1) for k in range(3))


def P_entry(c, fine, coarse, nodes, co):
    ax = 'xyz'.index(c)
    w = 1.0
    for k in range(3):
        if k == ax:
            par = fine[k] // 2 if co[k] else fine[k]
            if par != coarse[k]:
                return 0.0
        else:
            w *= hat(nodes[k], fine[k], coarse[k], co[k])
            if w == 0.0:
                return 0.0
    return w


# fine widths whose PAIRS add up to the same coarse widths in two directions although the pairs are split differently
PAIRS = {'xy': ([1.0, 3.0, 2.0, 2.0], [2.0, 2.0, 1.0, 3.0], [1.5, 0.5, 1.0, 2.0]), 'xz': ([1.0, 3.0, 2.0, 2.0], [0.7, 1.3, 2.0, 0.5], [2.0, 2.0, 1.0, 3.0]),
         'yz': ([0.7, 1.3, 2.0, 0.5], [3.0, 1.0, 0.5, 3.5], [1.0, 3.0, 2.0, 2.0])}


def make(shape, seed, cplx=True, case='isotropic', mu=False, far=False):
    import emg3d
    rng = np.random.default_rng(seed)
    if isinstance(shape, str):          # one of the PAIRS grids
        h = [np.array(v) for v in PAIRS[shape]]
        shape = tuple(len(v) for v in h)
    else:
        h = [rng.uniform(0.5, 2.0, n) for n in shape]
    # far=True: a grid far away from the coordinate origin (coordinates 1e5 times the cell widths, as with projected map coordinates)
    origin = (2.0e5, -3.0e5, 1.5e5) if far else (rng.uniform(-5, 5), 1.0, -3.0)
    grid = emg3d.TensorMesh(h, origin=origin)
    kw = dict(property_x=rng.uniform(0.5, 2, shape))
    if case in ('HTI', 'triaxial'):
        kw['property_y'] = rng.uniform(0.5, 2, shape)
    if case in ('VTI', 'triaxial'):
        kw['property_z'] = rng.uniform(0.5, 2, shape)
    if mu:
        kw['mu_r'] = rng.uniform(0.5, 2, shape)
    model = emg3d.Model(grid, **kw)
    sfield = emg3d.Field(grid, frequency=1.0 if cplx else -1.0)
    res = emg3d.Field(grid, frequency=1.0 if cplx else -1.0)
    res.field = rng.standard_normal(res.field.size) + (1j * rng.standard_normal(res.field.size) if cplx else 0)
    vm = emg3d.models.VolumeModel(model, sfield)
    return grid, model, vm, sfield, res, rng


def check_restriction(patterns, shapes, seeds):
    from emg3d import solver
    cases = 0
    for sc in patterns:
        co = COARSENED[sc]
        for shape_ in list(shapes) + list(PAIRS):
            for seed in seeds:
                for cplx in (True, False):
                    cases += 1
                    grid, model, vm, sfield, res, rng = make(shape_, seed, cplx)
                    shape = tuple(grid.shape_cells)
                    cmodel, cs, ce = solver.restriction(vm, sfield, res, sc)
                    nodes = [grid.nodes_x, grid.nodes_y, grid.nodes_z]
                    cn = tuple(n // 2 if k else n for n, k in zip(shape, co))
                    # coarse grid = every second node
                    for k, nm in enumerate(('nodes_x', 'nodes_y', 'nodes_z')):
                        want = nodes[k][::2] if co[k] else nodes[k]
                        if not np.allclose(getattr(cmodel.grid, nm), want, rtol=1e-12, atol=1e-12):
                            return dict(reproduced=True, cases=cases, clause='coarse grid is every second node', sc_dir=sc, shape=shape)
                    for c in 'xyz':
                        got = getattr(cs, 'f' + c)
                        rf = getattr(res, 'f' + c)
                        for I in itertools.product(*[range(s) for s in edge_shape(c, cn)]):
                            if not interior(c, I, cn):
                                continue
                            tot = 0.0
                            ax = 'xyz'.index(c)
                            rngs = []
                            for k in range(3):
                                base = 2 * I[k] if co[k] else I[k]
                                if k == ax:
                                    rngs.append([base, base + 1] if co[k] else [base])
                                else:
                                    rngs.append([base - 1, base, base + 1] if co[k] else [base])
                            for F in itertools.product(*rngs):
                                tot += P_entry(c, F, I, nodes, co) * rf[F]
                            if abs(got[I] - tot) > 1e-9 * max(1.0, abs(tot)):
                                return dict(reproduced=True, cases=cases, clause='restriction == transpose of prolongation', sc_dir=sc,
                                            shape=shape, seed=seed, complex=cplx, component=c, coarse_edge=I, got=str(got[I]), want=str(tot),
                                            how='contracts.c04_concrete.check_restriction: emg3d.solver.restriction vs explicit P^T from linear hat weights')
                    if np.abs(ce.field).max() != 0:
                        return dict(reproduced=True, cases=cases, clause='coarse field starts at zero', sc_dir=sc)
    return dict(reproduced=False, cases=cases)


def check_prolongation(patterns, shapes, seeds):
    from emg3d import solver
    import emg3d
    cases = 0
    for sc in patterns:
        co = COARSENED[sc]
        for shape in shapes:
            for seed, far in [(sd, fr) for sd in seeds for fr in (False, True)]:
                cases += 1
                grid, model, vm, sfield, res, rng = make(shape, seed, True, far=far)
                cmodel, cs, ce = solver.restriction(vm, sfield, res, sc)
                ce.field = rng.standard_normal(ce.field.size) + 1j * rng.standard_normal(ce.field.size)
                cn = tuple(n // 2 if k else n for n, k in zip(shape, co))
                for c in 'xyz':           # PEC on the coarse field
                    a = getattr(ce, 'f' + c)
                    for I in itertools.product(*[range(s) for s in a.shape]):
                        if not interior(c, I, cn):
                            a[I] = 0
                ef = emg3d.Field(grid, frequency=1.0)
                ef.field = rng.standard_normal(ef.field.size) + 1j * rng.standard_normal(ef.field.size)
                before = ef.field.copy()
                e0 = {c: getattr(ef, 'f' + c).copy() for c in 'xyz'}
                solver.prolongation(ef, ce, sc)
                nodes = [grid.nodes_x, grid.nodes_y, grid.nodes_z]
                for c in 'xyz':
                    new = getattr(ef, 'f' + c)
                    cf = getattr(ce, 'f' + c)
                    ax = 'xyz'.index(c)
                    for F in itertools.product(*[range(s) for s in new.shape]):
                        if not interior(c, F, shape):
                            if new[F] != e0[c][F]:
                                return dict(reproduced=True, cases=cases, clause='prolongation never touches boundary edges', sc_dir=sc, shape=shape, edge=(c, F))
                            continue
                        tot, wsum = 0.0, 0.0
                        rngs = []
                        for k in range(3):
                            if k == ax:
                                rngs.append([F[k] // 2 if co[k] else F[k]])
                            else:
                                rngs.append([F[k] // 2, F[k] // 2 + 1] if co[k] else [F[k]])
                        for I in itertools.product(*rngs):
                            if any(I[k] >= cf.shape[k] for k in range(3)):
                                continue
                            w = P_entry(c, F, I, nodes, co)
                            if w < 0:
                                return dict(reproduced=True, cases=cases, clause='prolongation weights non-negative', sc_dir=sc)
                            wsum += w
                            tot += w * cf[I]
                        if abs(wsum - 1) > 1e-12:
                            return dict(reproduced=True, cases=cases, clause='prolongation weights sum to one (checker spec)', sc_dir=sc, edge=(c, F), wsum=wsum)
                        if abs(new[F] - (e0[c][F] + tot)) > 1e-9 * max(1.0, abs(tot)):
                            return dict(reproduced=True, cases=cases, clause='prolongation adds P * coarse field', sc_dir=sc, shape=shape,
                                        seed=seed, far_from_origin=far, origin=[float(v) for v in grid.origin], edge=(c, F), got=str(new[F]), want=str(e0[c][F] + tot),
                                        how='contracts.c04_concrete.check_prolongation: emg3d.solver.prolongation vs explicit P from linear hat weights')
    return dict(reproduced=False, cases=cases)


def check_weights(ns, seeds):
    import emg3d.core as core
    cases = 0
    for n in ns:
        for seed in seeds:
            rng = np.random.default_rng(seed)
            h = rng.uniform(0.5, 2.0, 2 * (n - 1))
            nodes = np.r_[0.3, 0.3 + np.cumsum(h)]
            cc = (nodes[1:] + nodes[:-1]) / 2
            cnodes = nodes[::2]
            ch = np.diff(cnodes)
            ccc = (cnodes[1:] + cnodes[:-1]) / 2
            for impl_name, impl in (('py_func', core.restrict_weights.py_func), ('jit', core.restrict_weights)):
                wl, w0, wr = impl(nodes, cc, h, cnodes, ccc, ch)
                cases += 1
                for J in range(1, n - 1):
                    exp = (hat(nodes, 2 * J - 1, J, True), 1.0, hat(nodes, 2 * J + 1, J, True))
                    if max(abs(wl[J] - exp[0]), abs(w0[J] - 1), abs(wr[J] - exp[2])) > 1e-12:
                        return dict(reproduced=True, cases=cases, n=n, seed=seed, impl=impl_name, J=J, got=(wl[J], w0[J], wr[J]), want=exp,
                                    how='contracts.c04_concrete.check_weights: emg3d.core.restrict_weights vs linear hat weights')
    return dict(reproduced=False, cases=cases)


def check_model_restriction(patterns, seeds, shapes=((4, 6, 8), (2, 4, 2))):
    from emg3d import solver
    cases = 0
    for sc in patterns:
        co = COARSENED[sc]
        for shape in shapes:
            for seed in seeds:
                for case in ('isotropic', 'HTI', 'VTI', 'triaxial'):
                    for mu in (False, True):
                        cases += 1
                        grid, model, vm, sfield, res, rng = make(shape, seed, True, case, mu)
                        cmodel, cs, ce = solver.restriction(vm, sfield, res, sc)
                        for nm in ('eta_x', 'eta_y', 'eta_z', 'zeta'):
                            fine = getattr(vm, nm)
                            coarse = getattr(cmodel, nm)
                            want = fine
                            for k in range(3):
                                if co[k]:
                                    sl0 = [slice(None)] * 3
                                    sl1 = [slice(None)] * 3
                                    sl0[k] = slice(0, None, 2)
                                    sl1[k] = slice(1, None, 2)
                                    want = want[tuple(sl0)] + want[tuple(sl1)]
                            if coarse.shape != want.shape or np.abs(coarse - want).max() > 1e-12 * np.abs(want).max():
                                return dict(reproduced=True, cases=cases, clause='coarse parameter == sum of fine-cell children', sc_dir=sc,
                                            case=case, mu_r=mu, parameter=nm, shape=shape, seed=seed,
                                            how='contracts.c04_concrete.check_model_restriction: emg3d.solver.restriction on a VolumeModel')
        # the sum of the children does not depend on how the parameter array lies in memory: Fortran-ordered, C-ordered, strided view
        rng = np.random.default_rng(7)
        for shape in ((4, 6, 8), (8, 4, 4)):
            base = rng.standard_normal((2 * shape[0], shape[1], shape[2])) + 1j * rng.standard_normal((2 * shape[0], shape[1], shape[2]))
            layouts = (('Fortran-ordered', np.asfortranarray(base[::2])), ('C-ordered', np.ascontiguousarray(base[::2])), ('strided view', base[::2]))
            for lname, param in layouts:
                cases += 1
                want = param
                for k in range(3):
                    if co[k]:
                        sl0 = [slice(None)] * 3
                        sl1 = [slice(None)] * 3
                        sl0[k] = slice(0, None, 2)
                        sl1[k] = slice(1, None, 2)
                        want = want[tuple(sl0)] + want[tuple(sl1)]
                got = solver._restrict_model_parameters(param, sc)
                if got.shape != want.shape or np.abs(got - want).max() > 1e-12 * np.abs(want).max():
                    return dict(reproduced=True, cases=cases, clause='coarse parameter == sum of fine-cell children, whatever the memory layout of the parameter array', sc_dir=sc,
                                layout=lname, shape=shape, how='contracts.c04_concrete.check_model_restriction: emg3d.solver._restrict_model_parameters(param, sc_dir)')
    return dict(reproduced=False, cases=cases)
