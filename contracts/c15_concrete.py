"""Concrete cross-check / replay for C15: exhaustive small node vectors on a dyadic lattice (exact in binary floating point)."""
import itertools

import numpy as np

LATTICE = [0.0, 0.5, 1.0, 1.75, 2.5, 4.0, 6.25]


def vectors(maxn):
    out = []
    for n in range(2, maxn + 1):
        for c in itertools.combinations(LATTICE, n):
            out.append(np.array(c))
    return out


def interp1d(nodes_in, vals, nodes_out, log=False):
    """1-D use of the real 3-D routine (trivial y, z)"""
    import emg3d
    g_in = emg3d.TensorMesh([np.diff(nodes_in), [1.0], [1.0]], origin=(nodes_in[0], 0, 0))
    g_out = emg3d.TensorMesh([np.diff(nodes_out), [1.0], [1.0]], origin=(nodes_out[0], 0, 0))
    return emg3d.maps.interpolate(g_in, vals.reshape(-1, 1, 1), g_out, method='volume', log=log)[:, 0, 0]


def check(tier='quick', seed=0):
    import emg3d
    rng = np.random.default_rng(seed)
    vecs = vectors(4 if tier == 'quick' else 5)
    cases = 0

    def fail(**kw):
        kw.update(reproduced=True, cases=cases, how='contracts.c15_concrete.check: emg3d.maps.interpolate(method="volume") on dyadic node vectors')
        return kw
    step = 3 if tier == 'quick' else 1
    for a in vecs[::step]:
        vals = np.array([2.0 ** int(k) for k in rng.integers(-6, 7, len(a) - 1)])       # powers of two: exact products
        for b in vecs:
            cases += 1
            out = interp1d(a, vals, b)
            hb = np.diff(b)
            # reference: exact overlap integration, nearest value outside the input grid
            ref = np.zeros(len(b) - 1)
            for j in range(len(b) - 1):
                pts = np.unique(np.r_[b[j], b[j + 1], a[(a > b[j]) & (a < b[j + 1])]])
                tot = 0.0
                for lo, hi in zip(pts[:-1], pts[1:]):
                    c = 0.5 * (lo + hi)
                    idx = min(max(np.searchsorted(a, c, side='right') - 1, 0), len(a) - 2)
                    tot += (hi - lo) * vals[idx]
                ref[j] = tot / hb[j]
            if np.abs(out - ref).max() > 1e-12 * np.abs(ref).max():
                return fail(clause='volume average == exact overlap integral / cell width (nearest fill outside)', nodes_in=a.tolist(), nodes_out=b.tolist(),
                            values=vals.tolist(), got=out.tolist(), want=ref.tolist())
            if out.min() < vals.min() * (1 - 1e-12) or out.max() > vals.max() * (1 + 1e-12):
                return fail(clause='result leaves the range of the input values', nodes_in=a.tolist(), nodes_out=b.tolist())
            if a[0] == b[0] and a[-1] == b[-1]:
                if abs(np.sum(out * hb) - np.sum(vals * np.diff(a))) > 1e-12 * np.sum(vals * np.diff(a)):
                    return fail(clause='integral not conserved between grids covering the same interval', nodes_in=a.tolist(), nodes_out=b.tolist())
                lo = interp1d(a, vals, b, log=True)
                if abs(np.sum(np.log10(lo) * hb) - np.sum(np.log10(vals) * np.diff(a))) > 1e-9 * max(1.0, abs(np.sum(np.log10(vals) * np.diff(a)))):
                    return fail(clause='integral of the logarithm not conserved in log mode', nodes_in=a.tolist(), nodes_out=b.tolist())
                lr = interp1d(a, 1.0 / vals, b, log=True)
                if np.abs(lr * lo - 1).max() > 1e-9:
                    return fail(clause='log mode: resistivity and conductivity do not give reciprocal results', nodes_in=a.tolist(), nodes_out=b.tolist())
            if len(a) == len(b) and np.array_equal(a, b) and not np.array_equal(out, vals):
                return fail(clause='identity between equal grids', nodes=a.tolist())
    # 3-D spot checks: same-shape grids with shifted interior nodes, also far away from the origin; linearity
    for off in ((0.0, 0.0, 0.0), (5e5, 6.2e6, -2000.0), (5e5, 6.2e6, -4e5)):
        for k in range(3 if tier == 'quick' else 12):
            cases += 1
            n = [int(x) for x in rng.integers(2, 6, 3)]
            h1 = [rng.uniform(5, 15, m) for m in n]
            g1 = emg3d.TensorMesh(h1, origin=off)
            nodes2 = []
            for v in (g1.nodes_x, g1.nodes_y, g1.nodes_z):
                w = v.copy()
                if len(w) > 2:
                    w[1:-1] += rng.uniform(-2.5, 2.5, len(w) - 2)
                nodes2.append(np.sort(w))
            g2 = emg3d.TensorMesh([np.diff(v) for v in nodes2], origin=off)
            vals = 10 ** rng.uniform(-4, 4, g1.shape_cells)
            out = emg3d.maps.interpolate(g1, vals, g2, method='volume')
            i1, i2 = np.sum(vals * g1.cell_volumes.reshape(g1.shape_cells, order='F')), np.sum(out * g2.cell_volumes.reshape(g2.shape_cells, order='F'))
            if abs(i1 - i2) > 1e-9 * abs(i1):
                return fail(clause='3-D integral not conserved between same-shape grids covering the same region', origin=off, shape=n, rel=float(abs(i1 - i2) / abs(i1)))
            v2 = 10 ** rng.uniform(-4, 4, g1.shape_cells)
            lin = emg3d.maps.interpolate(g1, 0.3 * vals + 0.7 * v2, g2, method='volume')
            if np.abs(lin - (0.3 * out + 0.7 * emg3d.maps.interpolate(g1, v2, g2, method='volume'))).max() > 1e-9 * np.abs(lin).max():
                return fail(clause='volume averaging is not linear in the values', origin=off, shape=n)
            model = emg3d.Model(g1, vals, mapping='Resistivity')
            m2 = model.interpolate_to_grid(g2)
            m3 = emg3d.Model(g1, 1.0 / vals, mapping='Conductivity').interpolate_to_grid(g2)
            if np.abs(m2.property_x * m3.property_x - 1).max() > 1e-9:
                return fail(clause='Model.interpolate_to_grid: resistivity and conductivity models give different physical models', origin=off)
            if model.interpolate_to_grid(g1) is not model:
                return fail(clause='identical grid must return the model itself')
            # all six mappings describe the same medium: the interpolated medium must be the same, namely the volume average of log10(sigma)
            sig = 1.0 / vals
            want = 10 ** emg3d.maps.interpolate(g1, np.log10(sig), g2, method='volume')
            for name in ('Conductivity', 'LgConductivity', 'LnConductivity', 'Resistivity', 'LgResistivity', 'LnResistivity'):
                mp = getattr(emg3d.maps, 'Map' + name)()
                got = mp.backward(emg3d.Model(g1, mp.forward(sig), mapping=name).interpolate_to_grid(g2).property_x)
                if np.abs(got / want - 1).max() > 1e-9:
                    return fail(clause='Model.interpolate_to_grid: the interpolated medium depends on the mapping (must be the volume average of log10 sigma)',
                                mapping=name, origin=off, max_rel_dev=float(np.abs(got / want - 1).max()))
    # the transpose used for gradients: <interpolate(v), w> == <v, adj(w)> for a SEQUENCE of grid pairs in one process that share
    # the bounding box and the cell counts but differ in their interior nodes (and for pairs that differ in everything)
    try:
        import discretize  # noqa: F401
        have = True
    except ImportError:
        have = False
    if have:
        base = emg3d.TensorMesh([np.full(6, 10.0), np.full(4, 10.0), np.full(5, 8.0)], origin=(0.0, -20.0, -40.0))
        comps = []
        for k in range(4 if tier == 'quick' else 10):
            nodes = []
            for v in (base.nodes_x, base.nodes_y, base.nodes_z):
                w = v.copy()
                if k:
                    w[1:-1] += rng.uniform(-3.0, 3.0, len(w) - 2)
                nodes.append(np.sort(w))
            comps.append(emg3d.TensorMesh([np.diff(v) for v in nodes], origin=(0.0, -20.0, -40.0)))
        comps.append(emg3d.TensorMesh([np.full(3, 20.0), np.full(8, 5.0), np.full(2, 20.0)], origin=(0.0, -20.0, -40.0)))
        for g2 in comps:
            cases += 1
            v = rng.standard_normal(base.shape_cells)
            w3 = rng.standard_normal((3, *g2.shape_cells))
            fwd = emg3d.maps.interpolate(base, v, g2, method='volume')
            back = np.zeros((3, *base.shape_cells))
            emg3d.maps._interp_volume_average_adj(back, base, w3, g2)
            for c in range(3):
                lhs, rhs = np.sum(fwd * w3[c]), np.sum(v * back[c])
                if abs(lhs - rhs) > 1e-9 * max(abs(lhs), abs(rhs), 1.0):
                    return fail(clause='the transpose used for gradients is not the transpose of interpolate(method=volume) for this grid pair '
                                       '(sequence of pairs with equal bounding box and cell counts)', component=c, lhs=float(lhs), rhs=float(rhs),
                                nodes_x=g2.nodes_x.tolist())
    return dict(reproduced=False, cases=cases)
