"""Concrete evaluation of the C02 contract on the real core.amat_x (compiled and .py_func).
Used as cross-check on every run, as bounded jit==py_func stand-in, and as replay."""
import itertools

import numpy as np

from . import spec


def _acc(a):
    def f(*i):
        if all(0 <= k < s for k, s in zip(i, a.shape)):
            return a[tuple(i)]
        return 0.0          # only ever multiplied by a zero stencil coefficient
    return f


def make_problem(shape, seed, cplx=True, pec=True):
    rng = np.random.default_rng(seed)
    nx, ny, nz = shape
    h = [rng.uniform(0.5, 2.0, n) for n in shape]

    def rnd(s):
        a = rng.standard_normal(s)
        return a + 1j * rng.standard_normal(s) if cplx else a
    e = {c: rnd(spec.edge_shape(c, shape)) for c in 'xyz'}
    if pec:
        e['x'][:, [0, -1], :] = 0
        e['x'][:, :, [0, -1]] = 0
        e['y'][[0, -1], :, :] = 0
        e['y'][:, :, [0, -1]] = 0
        e['z'][[0, -1], :, :] = 0
        e['z'][:, [0, -1], :] = 0
    r = {c: rnd(spec.edge_shape(c, shape)) for c in 'xyz'}
    eta = {c: rnd(shape) for c in 'xyz'}
    zeta = rng.uniform(0.5, 2.0, shape)
    return h, e, r, eta, zeta


def spec_apply(shape, h, e, eta, zeta):
    """A_spec e on all interior edges (numpy, explicit loops over edges)"""
    ih = tuple((lambda i, hh=hh: 1.0 / hh[i] if 0 <= i < len(hh) else 1.0) for hh in h)
    p = spec.Fld(_acc(e['x']), _acc(e['y']), _acc(e['z']), _acc(eta['x']), _acc(eta['y']), _acc(eta['z']),
                 _acc(zeta), *ih)
    out = {c: np.zeros(spec.edge_shape(c, shape), dtype=complex) for c in 'xyz'}
    nx, ny, nz = shape
    for c in 'xyz':
        es = spec.edge_shape(c, shape)
        for I in itertools.product(*[range(s) for s in es]):
            if all(bool(b) for b in spec.edge_interior(c, I, shape)):
                out[c][I] = spec.A_spec(c, p, I, 1.0, 0.0)
    return out


def check_amat_x(shapes, seeds, want_rows=None, tol=1e-9):
    import emg3d.core as core
    cases = 0
    for shape in shapes:
        for seed in seeds:
            for cplx in (False, True):
                h, e, r, eta, zeta = make_problem(shape, seed, cplx)
                want = spec_apply(shape, h, e, eta, zeta)
                for impl_name, impl in (('py_func', core.amat_x.py_func), ('jit', core.amat_x)):
                    rr = {c: r[c].copy() for c in 'xyz'}
                    impl(rr['x'], rr['y'], rr['z'], e['x'], e['y'], e['z'], eta['x'], eta['y'], eta['z'],
                         zeta.astype(rr['x'].dtype) if False else zeta, h[0], h[1], h[2])
                    for c in 'xyz':
                        exp = r[c] - want[c]          # interior rows; boundary rows inert under PEC
                        scale = max(1.0, np.abs(exp).max())
                        bad = np.argwhere(np.abs(rr[c] - exp) > tol * scale)
                        cases += 1
                        if len(bad):
                            I = tuple(int(x) for x in bad[0])
                            return dict(reproduced=True, cases=cases, impl=impl_name, shape=shape, seed=seed,
                                        complex=cplx, component=c, index=I, got=str(rr[c][I]), expected=str(exp[I]),
                                        how='contracts.c02_concrete.check_amat_x: real emg3d.core.amat_x vs A_spec '
                                            '(random widths in [0.5,2], N(0,1) entries, PEC field, given seed)')
    return dict(reproduced=False, cases=cases)
