"""Concrete evaluation of the C02 contract on the real core.amat_x (compiled and .py_func).
Used as cross-check on every run, as bounded jit==py_func stand-in, and as replay."""
import itertools

import numpy as np

from . import spec


def _acc(a):
    def f(*i):
        if all(0 <= k < s for k, s in zip(i, a.shape)):
            return a[tuple(i)]
        return 0.0          # only ever multiplied by a zero stencil coefficient
    return f


def make_problem(shape, seed, cplx=True, pec=True):
    rng = np.random.default_rng(seed)
    nx, ny, nz = shape
    h = [rng.uniform(0.5, 2.0, n) for n in shape]

    def rnd(s):
        a = rng.standard_normal(s)
        return a + 1j * rng.standard_normal(s) if cplx else a
    e = {c: rnd(spec.edge_shape(c, shape)) for c in 'xyz'}
    if pec:
        e['x'][:, [0, -1], :] = 0
        e['x'][:, :, [0, -1]] = 0
        e['y'][[0, -1], :, :] = 0
        e['y'][:, :, [0, -1]] = 0
        e['z'][[0, -1], :, :] = 0
        e['z'][:, [0, -1], :] = 0
    r = {c: rnd(spec.edge_shape(c, shape)) for c in 'xyz'}
    eta = {c: rnd(shape) for c in 'xyz'}
    zeta = rng.uniform(0.5, 2.0, shape)
    return h, e, r, eta, zeta


def spec_apply(shape, h, e, eta, zeta):
    """A_spec e on all interior edges (numpy, explicit loops over edges)"""
    ih = tuple((lambda i, hh=hh: 1.0 / hh[i] if 0 <= i < len(hh) else 1.0) for hh in h)
    p = spec.Fld(_acc(e['x']), _acc(e['y']), _acc(e['z']), _acc(eta['x']), _acc(eta['y']), _acc(eta['z']),
                 _acc(zeta), *ih)
    out = {c: np.zeros(spec.edge_shape(c, shape), dtype=complex) for c in 'xyz'}
    nx, ny, nz = shape
    for c in 'xyz':
        es = spec.edge_shape(c, shape)
        for I in itertools.product(*[range(s) for s in es]):
            if all(bool(b) for b in spec.edge_interior(c, I, shape)):
                out[c][I] = spec.A_spec(c, p, I, 1.0, 0.0)
    return out


def check_amat_x(shapes, seeds, want_rows=None, tol=1e-9):
    import emg3d.core as core
    cases = 0
    for shape in shapes:
        for seed in seeds:
            for cplx in (False, True):
                h, e, r, eta, zeta = make_problem(shape, seed, cplx)
                want = spec_apply(shape, h, e, eta, zeta)
                for impl_name, impl in (('py_func', core.amat_x.py_func), ('jit', core.amat_x)):
                    rr = {c: r[c].copy() for c in 'xyz'}
                    impl(rr['x'], rr['y'], rr['z'], e['x'], e['y'], e['z'], eta['x'], eta['y'], eta['z'],
                         zeta.astype(rr['x'].dtype) if False else zeta, h[0], h[1], h[2])
                    for c in 'xyz':
                        exp = r[c] - want[c]          # interior rows; boundary rows inert under PEC
                        scale = max(1.0, np.abs(exp).max())
                        bad = np.argwhere(np.abs(rr[c] - exp) > tol * scale)
                        cases += 1
                        if len(bad):
                            I = tuple(int(x) for x in bad[0])
                            return dict(reproduced=True, cases=cases, impl=impl_name, shape=shape, seed=seed,
                                        complex=cplx, component=c, index=I, got=str(rr[c][I]), expected=str(exp[I]),
                                        how='contracts.c02_concrete.check_amat_x: real emg3d.core.amat_x vs A_spec '
                                            '(random widths in [0.5,2], N(0,1) entries, PEC field, given seed)')
    return dict(reproduced=False, cases=cases)


def check_volume_model(seeds=(0,), shape=(3, 4, 2)):
    """real models.VolumeModel coefficients against the documented formulas (all cases, mu_r, epsilon_r, complex/real s)"""
    import emg3d
    from scipy.constants import mu_0, epsilon_0
    cases = 0
    for seed, far in [(sd, fr) for sd in seeds for fr in (False, True)]:
        rng = np.random.default_rng(seed)
        # far=True: small cells far away from the coordinate origin (projected map coordinates, cells of centimetres to decimetres):
        # the coefficients must be those of the given widths to rounding, not of differences of large node coordinates
        h = [rng.uniform(0.5, 2.0, n) * (0.05 if far else 1.0) for n in shape]
        grid = emg3d.TensorMesh(h, origin=(5.0e5, 7.0e6, -3.0e3) if far else (0, 0, 0))
        vol = h[0][:, None, None] * h[1][None, :, None] * h[2][None, None, :]
        for case in ('isotropic', 'HTI', 'VTI', 'triaxial'):
            for mu in (False, True):
                for eps in (False, True):
                    for freq in (1.3, -2.1):
                        cases += 1
                        sig = {d: rng.uniform(0.1, 3.0, shape) for d in 'xyz'}
                        kw = dict(property_x=sig['x'].copy(), mapping='Conductivity')
                        if case in ('HTI', 'triaxial'):
                            kw['property_y'] = sig['y'].copy()
                        else:
                            sig['y'] = sig['x']
                        if case in ('VTI', 'triaxial'):
                            kw['property_z'] = sig['z'].copy()
                        else:
                            sig['z'] = sig['x']
                        mur = rng.uniform(0.5, 2.0, shape) if mu else None
                        er = rng.uniform(1.0, 5.0, shape) if eps else None
                        if mu:
                            kw['mu_r'] = mur.copy()
                        if eps:
                            kw['epsilon_r'] = er.copy()
                        model = emg3d.Model(grid, **kw)
                        sf = emg3d.Field(grid, frequency=freq)
                        before = {k: (None if getattr(model, k) is None else np.array(getattr(model, k), copy=True))
                                  for k in ('property_x', 'property_y', 'property_z', 'mu_r', 'epsilon_r')}
                        vm = emg3d.models.VolumeModel(model, sf)
                        s = sf.sval
                        for d in 'xyz':
                            want = -s * mu_0 * vol * (sig[d] + (s * epsilon_0 * er if eps else 0))
                            got = getattr(vm, 'eta_' + d)
                            if np.abs(got - want).max() > 1e-12 * np.abs(want).max():
                                return dict(reproduced=True, cases=cases, clause=f'eta_{d} == -s mu0 V (sigma_{d} + s eps0 eps_r)', case=case,
                                            mu_r=mu, epsilon_r=eps, frequency=freq, seed=seed,
                                            how='contracts.c02_concrete.check_volume_model on the real emg3d.models.VolumeModel')
                        wz = vol / (mur if mu else 1.0)
                        if np.abs(vm.zeta - wz).max() > 1e-12 * np.abs(wz).max():
                            return dict(reproduced=True, cases=cases, clause='zeta == V / mu_r', case=case, mu_r=mu, seed=seed)
                        for k, b in before.items():
                            a = getattr(model, k)
                            if (a is None) != (b is None) or (a is not None and not np.array_equal(a, b)):
                                return dict(reproduced=True, cases=cases, clause='VolumeModel must not modify the input model', attribute=k, case=case)
                        # the coefficients are those of the CURRENT model: edit it in place, build the operator coefficients again
                        if freq > 0:
                            model.property_x[...] *= 1.7
                            if case not in ('HTI', 'triaxial'):
                                pass
                            if mu:
                                model.mu_r[...] = model.mu_r * 0.6 + 0.3
                            vm2 = emg3d.models.VolumeModel(model, sf)
                            want_x = -s * mu_0 * vol * (model.property_x + (s * epsilon_0 * er if eps else 0))
                            wz2 = vol / (model.mu_r if mu else 1.0)
                            if np.abs(vm2.eta_x - want_x).max() > 1e-12 * np.abs(want_x).max() or np.abs(vm2.zeta - wz2).max() > 1e-12 * np.abs(wz2).max():
                                return dict(reproduced=True, cases=cases, clause='coefficients of a new VolumeModel follow the current model after an in-place edit of '
                                            'property_x / mu_r (no stale state)', case=case, mu_r=mu, epsilon_r=eps, seed=seed,
                                            how='contracts.c02_concrete.check_volume_model: VolumeModel, in-place edit of the model, VolumeModel again')
    return dict(reproduced=False, cases=cases)


def check_solver_operator(seeds=(0,)):
    """the operator the REAL solver applies (solver.residual directly, and the initial-residual test inside solver.solve with a supplied field and
    a huge tolerance, which reports || s - A e || as abs_error) is the operator of the model GIVEN AT THAT CALL: compared with core.amat_x fed by a
    fresh VolumeModel of the current model (both under contract above), along a history of in-place edits of the same Model object"""
    import emg3d
    from emg3d import core
    cases = 0
    for seed in seeds:
        rng = np.random.default_rng(seed)
        shape = (4, 4, 4)
        grid = emg3d.TensorMesh([rng.uniform(0.5, 2.0, n) * 50 for n in shape], origin=(0, 0, 0))
        for freq in (1.3, -2.1):
            cplx = freq > 0
            model = emg3d.Model(grid, property_x=rng.uniform(0.1, 3.0, shape), property_z=rng.uniform(0.1, 3.0, shape),
                                mu_r=rng.uniform(0.5, 2.0, shape), mapping='Conductivity')
            sf = emg3d.Field(grid, frequency=freq)
            sf.field[:] = rng.standard_normal(sf.field.size) + (1j * rng.standard_normal(sf.field.size) if cplx else 0)
            ef = emg3d.Field(grid, frequency=freq)
            ef.field[:] = rng.standard_normal(ef.field.size) + (1j * rng.standard_normal(ef.field.size) if cplx else 0)
            ef.fx[:, 0, :] = ef.fx[:, -1, :] = 0
            ef.fx[:, :, 0] = ef.fx[:, :, -1] = 0
            ef.fy[0, :, :] = ef.fy[-1, :, :] = 0
            ef.fy[:, :, 0] = ef.fy[:, :, -1] = 0
            ef.fz[0, :, :] = ef.fz[-1, :, :] = 0
            ef.fz[:, 0, :] = ef.fz[:, -1, :] = 0

            def reference():
                vm = emg3d.models.VolumeModel(model, sf)
                r = sf.copy()
                core.amat_x(r.fx, r.fy, r.fz, ef.fx, ef.fy, ef.fz, vm.eta_x, vm.eta_y, vm.eta_z, vm.zeta, grid.h[0], grid.h[1], grid.h[2])
                return float(np.linalg.norm(r.field))

            def edits():
                yield 'fresh model', lambda: None
                yield 'after assigning property_x', lambda: setattr(model, 'property_x', rng.uniform(0.1, 3.0, shape))
                yield 'after in-place edits of mu_r and property_z', lambda: (model.mu_r.__imul__(1.5), model.property_z.__setitem__(slice(0, 2), 7.0))
            for what, edit in edits():
                edit()
                want = reference()
                e2 = ef.copy()
                info = emg3d.solve(model, sf, efield=e2, tol=1e30, return_info=True, verb=0, sslsolver=False, semicoarsening=False, linerelaxation=False)
                got_solve = float(info['abs_error'])
                got_res = float(emg3d.solver.residual(emg3d.models.VolumeModel(model, sf), sf, ef, True))
                cases += 2
                # the wrapper is linear in the field: the same field at tiny absolute amplitudes, zero source -> residual norm scales with it
                zero_src = emg3d.Field(grid, frequency=freq)
                for amp in (1e-12, 1e-18, 1e-24):
                    cases += 1
                    small = emg3d.Field(grid, ef.field * amp, frequency=freq)
                    got_small = float(emg3d.solver.residual(emg3d.models.VolumeModel(model, sf), zero_src, small, True))
                    r0 = zero_src.copy()
                    vm0 = emg3d.models.VolumeModel(model, sf)
                    core.amat_x(r0.fx, r0.fy, r0.fz, small.fx, small.fy, small.fz, vm0.eta_x, vm0.eta_y, vm0.eta_z, vm0.zeta, grid.h[0], grid.h[1], grid.h[2])
                    want_small = float(np.linalg.norm(r0.field))
                    if abs(got_small - want_small) > 1e-9 * want_small:
                        return dict(reproduced=True, cases=cases, clause='solver.residual applies the operator to every field, however small its amplitude (zero source: || A e ||)',
                                    amplitude=amp, step=what, frequency=freq, got=got_small, expected=want_small, seed=seed,
                                    how='contracts.c02_concrete.check_solver_operator: solver.residual(vmodel, zero source, amp * field) vs core.amat_x')
                for name, got in (('solve (abs_error of the initial-residual test)', got_solve), ('solver.residual', got_res)):
                    if abs(got - want) > 1e-9 * want:
                        return dict(reproduced=True, cases=cases, clause='the operator applied by the solver is that of the model given at this call',
                                    where=name, step=what, frequency=freq, got=got, expected=want, seed=seed,
                                    how='contracts.c02_concrete.check_solver_operator: same Model object solved, edited in place, solved again; '
                                        '|| s - A e || from the solver vs core.amat_x with a fresh VolumeModel of the current model')
    return dict(reproduced=False, cases=cases)
