"""C02-O11: models.VolumeModel coefficients (control executor with point-wise array values).

  eta_d = -s mu0 V (sigma_d [+ s eps0 eps_r]),   zeta = V / mu_r,   V = hx hy hz  (meshes.BaseMesh inlined),
  eta_y is eta_x unless case in {HTI, triaxial};  eta_z is eta_x unless case in {VTI, triaxial};
  sigma_d = map.backward(property_d) (C14);  no storage of the input model is written.
"""
import os

import z3

from pyvc import cx, ob
from .cxutil import clause

PROP = 'C02'
CASES = ('isotropic', 'HTI', 'VTI', 'triaxial')
BW = z3.Function('backward', z3.RealSort(), z3.RealSort())


def replay_vm(d):
    from . import c02_concrete
    return ob.guarded(c02_concrete.check_volume_model, seeds=(0,))


def task_volume_model():
    col = ob.Collector(PROP, 'models.VolumeModel')
    col.default_replay = replay_vm
    col.function('models.VolumeModel')
    col.function('meshes.BaseMesh')
    smu0, sval = z3.Reals('smu0 sval')
    hx, hy, hz = z3.Reals('hx hy hz')
    res = []
    for case in CASES:
        for has_mu in (False, True):
            for has_eps in (False, True):
                def mk(ctx, case=case, has_mu=has_mu, has_eps=has_eps):
                    def backward(it, args, kw, node):
                        # contract of Map*.backward (C14): element-wise BW(p); the result is a new array OR the argument itself (the
                        # identity map MapConductivity returns its input) -- both are explored
                        p = args[-1]
                        if it.ctx.branch(it.ctx.fresh_bool('backward_returns_its_argument'), 'aliasing of backward'):
                            it.ctx.assume(BW(p.store.val) == p.store.val)
                            return p
                        return cx.NDArr(cx.Store('conductivity', BW(p.store.val)))
                    ctx.summaries['maps.BaseMap.backward'] = backward
                    props = {}
                    for d in 'xyz':
                        present = d == 'x' or (d == 'y' and case in ('HTI', 'triaxial')) or (d == 'z' and case in ('VTI', 'triaxial'))
                        props['property_' + d] = cx.NDArr(cx.Store('model.property_' + d, z3.Real('p' + d))) if present else None
                    props['mu_r'] = cx.NDArr(cx.Store('model.mu_r', z3.Real('mu_r'))) if has_mu else None
                    props['epsilon_r'] = cx.NDArr(cx.Store('model.epsilon_r', z3.Real('eps_r'))) if has_eps else None
                    grid = cx.Obj('TensorMesh', dict(h=[cx.NDArr(cx.Store('grid.h0', hx)), cx.NDArr(cx.Store('grid.h1', hy)),
                                                        cx.NDArr(cx.Store('grid.h2', hz))], origin=cx.Vec([0.0, 0.0, 0.0])))
                    mp = cx.Obj('BaseMap', {}, mod='maps')
                    model = cx.Obj('Model', dict(case=case, grid=grid, shape=(z3.Int('n0'), z3.Int('n1'), z3.Int('n2')), map=mp,
                                                 _properties=['property_x', 'property_y', 'property_z', 'mu_r', 'epsilon_r'], **props))
                    sfield = cx.Obj('Field', dict(smu0=smu0, sval=sval))
                    vm = cx.Obj('VolumeModel', {}, mod='models')
                    return [model, sfield], {}, dict(__self__=vm, model=model, props=props, case=case, has_mu=has_mu, has_eps=has_eps, grid=grid)
                res += cx.run_function('models.VolumeModel.__init__', mk, summaries={}, opts={})
    clause(col, 'constructor_returns_normally', res, lambda r: r.outcome == 'return')
    eps0 = z3.Real('EPSILON_0')
    V = hx * hy * hz

    def val(a):
        return a.store.val if isinstance(a, cx.NDArr) else None

    def getprop(r, name):
        """evaluate the real (public) property getter on the constructed object; the events of the getter are kept"""
        ctx = cx.Ctx([], r.pc)
        it = cx.Interp(ctx, 'models')
        v = it.getattr(r.state['__self__'], name)
        r.state.setdefault('getter_events', []).extend(ctx.events)
        return v

    def eta_ok(r):
        vm = r.state['__self__']
        gs = []
        for d in 'xyz':
            p = r.state['props']['property_' + d]
            if p is None:
                continue              # (falls back to eta_x: aliasing clause)
            got = getprop(r, 'eta_' + d)
            if not isinstance(got, cx.NDArr) or val(got) is None:
                return False
            sig = BW(p.store.val)
            want = -smu0 * V * (sig + sval * eps0 * z3.Real('eps_r')) if r.state['has_eps'] else -smu0 * V * sig
            gs.append(val(got) == want)
        return z3.And(*gs)
    clause(col, 'eta_is_minus_s_mu0_V_sigma_plus_s_eps', res, eta_ok, sample=True)

    def zeta_ok(r):
        z = getprop(r, 'zeta')
        if not isinstance(z, cx.NDArr) or val(z) is None:
            return False
        return val(z) == (V / z3.Real('mu_r') if r.state['has_mu'] else V)
    clause(col, 'zeta_is_V_over_mu_r', res, zeta_ok, [z3.Real('mu_r') != 0])

    def alias_ok(r):
        case = r.state['case']
        ex, ey, ez, ze = (getprop(r, n) for n in ('eta_x', 'eta_y', 'eta_z', 'zeta'))
        if not all(isinstance(a, cx.NDArr) for a in (ex, ey, ez, ze)):
            return False
        same = lambda a, b: a is b or a.store is b.store
        ok = same(ey, ex) == (case not in ('HTI', 'triaxial')) and same(ez, ex) == (case not in ('VTI', 'triaxial'))
        return ok and not same(ze, ex)
    clause(col, 'eta_y_eta_z_fall_back_to_eta_x_exactly_for_the_documented_cases', res, alias_ok)

    def own_ok(r):
        got = [getprop(r, n) for n in ('eta_x', 'eta_y', 'eta_z', 'zeta')]
        stores = list({a.store.uid: a.store for a in got if isinstance(a, cx.NDArr)}.values())
        case = r.state['case']
        distinct = len(stores) == 2 + (case in ('HTI', 'triaxial')) + (case in ('VTI', 'triaxial'))
        inputs = {a.store.uid for a in list(r.state['props'].values()) + r.state['grid'].fields['h'] if isinstance(a, cx.NDArr)}
        no_share = all(s.uid not in inputs for s in stores)
        muts = [e for e in list(r.events) + r.state.get('getter_events', []) if e['kind'] == 'mutate']
        frame = all(e['store'].uid not in inputs for e in muts)
        if any(e['kind'] == 'setattr' and e['obj'] is r.state['model'] for e in list(r.events) + r.state.get('getter_events', [])):
            from .cxutil import UNRECOGNISED
            return UNRECOGNISED('state is stored on the input model: whether it can go stale is outside this contract (the bounded concrete check edits the model in place)')
        return distinct and no_share and frame
    clause(col, 'coefficient_arrays_are_distinct_fresh_storages__input_model_and_grid_not_written', res, own_ok)
    return col.pack()


def task_concrete():
    from . import c02_concrete
    col = ob.Collector(PROP, 'models.VolumeModel/concrete')
    col.function('models.VolumeModel')
    seed = int(os.environ.get('VERIF_SEED', '0'))
    r = ob.guarded(c02_concrete.check_volume_model, seeds=(seed, seed + 1))
    col.concrete('coefficients_on_real_VolumeModel_then_operator_vs_checker_side_assembly', r['reproduced'] is False, r,
                 bounded='4 anisotropy cases x mu_r on/off x epsilon_r on/off x complex/real s x 2 seeds, grid 3x4x2', cases=r.get('cases', 0))
    return col.pack()


def tasks(tier):
    return [('contracts.c02_model', 'task_volume_model', {}), ('contracts.c02_model', 'task_concrete', {})]
