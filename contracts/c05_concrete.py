"""Concrete cross-check / replay for C05: level sequence and level shapes of real solves
(solver's own verb=5 log) against the documented V/W/F pattern and the spec function H."""
import contextlib
import io
import re

import numpy as np

SC_DIRS = {0: (1, 1, 1), 1: (0, 1, 1), 2: (1, 0, 1), 3: (1, 1, 0)}


def Hc(n):
    k = 0
    while n % 2 == 0 and n > 2:
        n //= 2
        k += 1
    return k


def expected_cycle(L, cycle):
    g0 = 2 if cycle in ('F', 'W') else 1

    def sub(l, g):
        if l == L:
            return [L]
        gg = g if cycle == 'F' else g0
        out = []
        for c in range(gg):
            out += [l] + sub(l + 1, gg - c) + [l]
        return out
    if L == 0:
        return [0]
    return [0] + sub(1, g0) + [0]


def run_log(shape, cycle, sc, clevel=-1, maxit=3, lr=0):
    import emg3d
    h = [np.ones(n) * 50.0 for n in shape]
    grid = emg3d.TensorMesh(h, origin=(0, 0, 0))
    model = emg3d.Model(grid, 1.0)
    sfield = emg3d.get_source_field(grid, [shape[0] * 25.0 + 3, shape[1] * 25.0 - 2, shape[2] * 25.0 + 1, 30, 10], frequency=1.0)
    buf = io.StringIO()
    with contextlib.redirect_stdout(buf):
        emg3d.solve(model, sfield, cycle=cycle, sslsolver=False, semicoarsening=sc, linerelaxation=lr, verb=5,
                    maxit=maxit, clevel=clevel, tol=1e-30)
    cycles = [[]]
    for ln in buf.getvalue().splitlines():
        m = re.match(r'\s+(\d+)\s+(\d+)\s+(\d+)\s+\[\s*(\d+),\s*(\d+),\s*(\d+)\]:\s+\S+\s+(.*)$', ln)
        if m:
            info = m.group(7).strip()
            if info in ('pre-smoothing', 'post-smoothing', 'coarsest level'):
                cycles[-1].append((int(m.group(2)), (int(m.group(4)), int(m.group(5)), int(m.group(6))), info))
        elif re.search(r'after\s+\d+ [FVW]-cycles', ln):
            cycles.append([])
    return [c for c in cycles if c]


def check_config(shape, cycle, sc, clevel=-1, maxit=3):
    pat = [1, 2, 3] if sc is True else [int(c) for c in str(abs(int(sc)))]
    cyc = run_log(shape, cycle, sc, clevel, maxit)
    if len(cyc) != maxit:
        return dict(ok=False, why=f'expected {maxit} logged fine cycles, got {len(cyc)}')
    for k, ev in enumerate(cyc):
        s = pat[k % len(pat)]
        hs = [Hc(n) if clevel < 0 else min(clevel, Hc(n)) for n in shape]
        L = max(hs[i] for i in range(3) if SC_DIRS[s][i])
        got = [e[0] for e in ev]
        want = expected_cycle(L, cycle)
        if got != want:
            return dict(ok=False, why=f'fine cycle {k + 1} (sc_dir={s}, coarsest level {L}): level sequence {got} != documented {cycle}-cycle {want}')
        for lvl, dims, info in ev:
            if min(dims) < 2:
                return dict(ok=False, why=f'level {lvl} has shape {dims}')
        # halving only of even > 2 directions wanted by the pattern
        by_level = {}
        for lvl, dims, info in ev:
            by_level.setdefault(lvl, dims)
        for lvl in sorted(by_level):
            if lvl + 1 in by_level:
                a, b = by_level[lvl], by_level[lvl + 1]
                for i in range(3):
                    halv = SC_DIRS[s][i] and a[i] % 2 == 0 and a[i] > 2
                    if b[i] != (a[i] // 2 if halv else a[i]):
                        return dict(ok=False, why=f'cycle {k + 1}: level {lvl}->{lvl + 1} shape {a}->{b} with pattern {s}')
    return dict(ok=True)


def check(configs):
    n = 0
    for shape, cycle, sc, clevel in configs:
        n += 1
        r = check_config(shape, cycle, sc, clevel)
        if not r['ok']:
            return dict(reproduced=True, cases=n, shape=shape, cycle=cycle, semicoarsening=sc, clevel=clevel, why=r['why'],
                        how='contracts.c05_concrete.check_config: emg3d.solve(verb=5, nu_pre=nu_post=2) log vs documented cycle')
    return dict(reproduced=False, cases=n)


QUICK = [((8, 8, 8), 'F', 0, -1), ((8, 8, 8), 'W', 0, -1), ((8, 8, 8), 'V', 0, -1), ((16, 4, 6), 'F', True, -1),
         ((16, 3, 3), 'F', True, -1), ((16, 3, 3), 'W', 21, -1), ((12, 6, 4), 'F', 2, 1), ((5, 16, 2), 'V', 312, -1),
         ((8, 16, 4), 'F', 123, 2),
         # every single-digit pattern as an explicit integer (1 is not True), and the limit 0
         ((32, 8, 8), 'V', 1, -1), ((8, 16, 4), 'W', 3, -1), ((8, 8, 8), 'F', 2, 0)]


def check_preconditioner_directions():
    """multigrid as pre-conditioner of a Krylov solver: over ALL fine-grid cycles of a solve (they are spread over several pre-conditioner calls) the
    semicoarsening direction of the k-th cycle is pattern[k % len(pattern)], and so is the line-relaxation direction -- recorded at the real
    solver.restriction / solver.smoothing calls on the fine grid"""
    import emg3d
    from emg3d import solver
    n = 0
    for sc, lr, scp, lrp in ((12, True, [1, 2], [4, 5, 6]), (True, 47, [1, 2, 3], [4, 7]), (102, 4567, [1, 0, 2], [4, 5, 6, 7])):
        for cycle in ('F', 'V'):
            n += 1
            shape = (16, 16, 16)
            grid = emg3d.TensorMesh([np.ones(16) * 50.0] * 3, origin=(0, 0, 0))
            model = emg3d.Model(grid, 1.0)
            sfield = emg3d.get_source_field(grid, [403.0, 398.0, 401.0, 30, 10], frequency=1.0)
            used_sc, used_lr = [], []
            r0, s0 = solver.restriction, solver.smoothing

            def restriction(vmodel, sf, res, sc_dir):
                if tuple(vmodel.grid.shape_cells) == shape:
                    used_sc.append(int(sc_dir))
                return r0(vmodel, sf, res, sc_dir)

            def smoothing(vmodel, sf, ef, nu, lr_dir):
                if tuple(vmodel.grid.shape_cells) == shape:
                    used_lr.append(int(lr_dir))
                return s0(vmodel, sf, ef, nu, lr_dir)
            solver.restriction, solver.smoothing = restriction, smoothing
            try:
                emg3d.solve(model, sfield, cycle=cycle, sslsolver='bicgstab', semicoarsening=sc, linerelaxation=lr, verb=0, maxit=3, tol=1e-30)
            finally:
                solver.restriction, solver.smoothing = r0, s0
            want_sc = [scp[k % len(scp)] for k in range(len(used_sc))]
            lr_per_cycle = used_lr[::2]            # pre- and post-smoothing of a fine-grid cycle use the same direction
            want_lr = [lrp[k % len(lrp)] for k in range(len(lr_per_cycle))]
            if len(used_sc) < 4 or used_sc != want_sc or lr_per_cycle != want_lr:
                return dict(reproduced=True, cases=n, clause='directions advance cyclically, once per fine-grid cycle, also across the calls of multigrid as pre-conditioner',
                            semicoarsening=sc, linerelaxation=lr, cycle=cycle, sc_dirs_used=used_sc, sc_dirs_promised=want_sc, lr_dirs_used=lr_per_cycle, lr_dirs_promised=want_lr,
                            how='contracts.c05_concrete.check_preconditioner_directions: emg3d.solve(sslsolver="bicgstab") with recording wrappers of solver.restriction / solver.smoothing')
    return dict(reproduced=False, cases=n)
