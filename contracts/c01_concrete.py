"""Concrete cross-check / replay for C01: real solves, residual recomputed with a checker-side
operator built from grid widths and physical parameters only (not emg3d.core, not VolumeModel)."""
import numpy as np

from scipy.constants import mu_0 as MU0, epsilon_0 as EPS0   # the physical constants emg3d uses (CODATA)


def operator_apply(h, e, eta, zeta):
    """A e = C^T (M_f o C e) - M_e o e  on interior edges (vectorised; validated against contracts.spec)"""
    hx, hy, hz = h
    ex, ey, ez = e['x'], e['y'], e['z']
    nx, ny, nz = len(hx), len(hy), len(hz)
    Cx = np.diff(ez, axis=1) / hy[None, :, None] - np.diff(ey, axis=2) / hz[None, None, :]
    Cy = np.diff(ex, axis=2) / hz[None, None, :] - np.diff(ez, axis=0) / hx[:, None, None]
    Cz = np.diff(ey, axis=0) / hx[:, None, None] - np.diff(ex, axis=1) / hy[None, :, None]
    zp = np.pad(zeta, 1, mode='edge')
    ux = 0.5 * (zp[:-1, 1:-1, 1:-1] + zp[1:, 1:-1, 1:-1]) * Cx
    uy = 0.5 * (zp[1:-1, :-1, 1:-1] + zp[1:-1, 1:, 1:-1]) * Cy
    uz = 0.5 * (zp[1:-1, 1:-1, :-1] + zp[1:-1, 1:-1, 1:]) * Cz
    out = {c: np.zeros_like(e[c]) for c in 'xyz'}
    ihx, ihy, ihz = 1 / hx, 1 / hy, 1 / hz
    # x-edges (i, j=1..ny-1, k=1..nz-1)
    out['x'][:, 1:-1, 1:-1] = (-uy[:, 1:-1, 1:] * ihz[None, None, 1:] + uy[:, 1:-1, :-1] * ihz[None, None, :-1]
                               + uz[:, 1:, 1:-1] * ihy[None, 1:, None] - uz[:, :-1, 1:-1] * ihy[None, :-1, None])
    out['y'][1:-1, :, 1:-1] = (ux[1:-1, :, 1:] * ihz[None, None, 1:] - ux[1:-1, :, :-1] * ihz[None, None, :-1]
                               - uz[1:, :, 1:-1] * ihx[1:, None, None] + uz[:-1, :, 1:-1] * ihx[:-1, None, None])
    out['z'][1:-1, 1:-1, :] = (uy[1:, 1:-1, :] * ihx[1:, None, None] - uy[:-1, 1:-1, :] * ihx[:-1, None, None]
                               - ux[1:-1, 1:, :] * ihy[None, 1:, None] + ux[1:-1, :-1, :] * ihy[None, :-1, None])
    ep = {c: np.pad(eta[c], 1, mode='edge') for c in 'xyz'}
    mex = 0.25 * (ep['x'][1:-1, :-1, :-1] + ep['x'][1:-1, :-1, 1:] + ep['x'][1:-1, 1:, :-1] + ep['x'][1:-1, 1:, 1:])
    mey = 0.25 * (ep['y'][:-1, 1:-1, :-1] + ep['y'][1:, 1:-1, :-1] + ep['y'][:-1, 1:-1, 1:] + ep['y'][1:, 1:-1, 1:])
    mez = 0.25 * (ep['z'][:-1, :-1, 1:-1] + ep['z'][1:, :-1, 1:-1] + ep['z'][:-1, 1:, 1:-1] + ep['z'][1:, 1:, 1:-1])
    out['x'][:, 1:-1, 1:-1] -= (mex * ex)[:, 1:-1, 1:-1]
    out['y'][1:-1, :, 1:-1] -= (mey * ey)[1:-1, :, 1:-1]
    out['z'][1:-1, 1:-1, :] -= (mez * ez)[1:-1, 1:-1, :]
    return out


def self_check():
    from .c02_concrete import make_problem, spec_apply
    shape = (3, 4, 2)
    h, e, r, eta, zeta = make_problem(shape, 5, True)
    a = operator_apply(h, e, eta, zeta)
    b = spec_apply(shape, h, e, eta, zeta)
    return all(np.abs(a[c] - b[c]).max() < 1e-12 for c in 'xyz')


def coefficients(grid, sigma, s, mu_r=None, eps_r=None):
    vol = grid.h[0][:, None, None] * grid.h[1][None, :, None] * grid.h[2][None, None, :]
    eta = {}
    for c in 'xyz':
        sg = sigma[c]
        eta[c] = -s * MU0 * vol * (sg if eps_r is None else sg + s * EPS0 * eps_r)
    zeta = vol / (1.0 if mu_r is None else mu_r)
    return eta, zeta


def true_residual(grid, sigma, sfield, efield, mu_r=None, eps_r=None):
    s = sfield.sval
    eta, zeta = coefficients(grid, sigma, s, mu_r, eps_r)
    e = dict(x=efield.fx, y=efield.fy, z=efield.fz)
    Ae = operator_apply(grid.h, e, eta, zeta)
    r = [sfield.fx - Ae['x'], sfield.fy - Ae['y'], sfield.fz - Ae['z']]
    # residual on interior edges (boundary rows carry no equation)
    r[0][:, [0, -1], :] = 0
    r[0][:, :, [0, -1]] = 0
    r[1][[0, -1], :, :] = 0
    r[1][:, :, [0, -1]] = 0
    r[2][[0, -1], :, :] = 0
    r[2][:, [0, -1], :] = 0
    return np.sqrt(sum(np.sum(np.abs(x) ** 2) for x in r))


def boundary_max(f):
    return max(np.abs(f.fx[:, [0, -1], :]).max(), np.abs(f.fx[:, :, [0, -1]]).max(), np.abs(f.fy[[0, -1], :, :]).max(),
               np.abs(f.fy[:, :, [0, -1]]).max(), np.abs(f.fz[[0, -1], :, :]).max(), np.abs(f.fz[:, [0, -1], :]).max())


def check(tier='quick', seed=0):
    import emg3d
    if not self_check():
        raise RuntimeError('checker-side operator disagrees with contracts.spec (checker fault)')
    rng = np.random.default_rng(seed)
    cases = 0

    def fail(**kw):
        kw.update(reproduced=True, cases=cases, how='contracts.c01_concrete.check: emg3d.solve on a small stretched grid; residual recomputed by the checker-side operator')
        return kw
    shapes = [(8, 8, 8)] if tier == 'quick' else [(8, 8, 8), (8, 4, 6), (6, 8, 4)]
    solvers = [('F', False), ('F', 'bicgstab'), (None, 'bicgstab')] if tier == 'quick' else \
        [('F', False), ('V', False), ('W', False), ('F', 'bicgstab'), (None, 'bicgstab'), ('F', 'cgs'), ('V', 'gcrotmk'), (None, 'cgs')]
    for shape in shapes:
        h = [50 * 1.1 ** np.abs(np.arange(n) - n / 2 + 0.5) for n in shape]
        grid = emg3d.TensorMesh(h, origin=(-sum(h[0]) / 2, -sum(h[1]) / 2, -sum(h[2]) / 2))
        sx = rng.uniform(0.5, 2.0, shape)
        sz = rng.uniform(0.5, 2.0, shape)
        model = emg3d.Model(grid, property_x=sx, property_z=sz, mapping='Conductivity')
        sigma = dict(x=sx, y=sx, z=sz)
        for freq in (1.0, -2.0):
            sfield = emg3d.get_source_field(grid, [3.0, -4.0, 2.0, 25, 10], frequency=freq)
            zero_src = emg3d.Field(grid, frequency=freq)
            for cycle, ssl in solvers:
                for tol in (1e-6, 0.5):
                    kw = dict(cycle=cycle, sslsolver=ssl, semicoarsening=False, linerelaxation=False, tol=tol, return_info=True)
                    # ---- fresh start
                    cases += 1
                    ef, info = emg3d.solve(model, sfield, **kw)
                    r = check_result('fresh', grid, sigma, sfield, ef, info, tol)
                    if r:
                        return fail(shape=shape, frequency=freq, cycle=cycle, sslsolver=ssl, tol=tol, **r)
                    good = ef.copy()
                    # ---- caller-supplied random start with non-zero boundary values
                    cases += 1
                    st = emg3d.Field(grid, frequency=freq)
                    st.field = 1e-9 * (rng.standard_normal(st.field.size) + (1j * rng.standard_normal(st.field.size) if freq > 0 else 0))
                    info = emg3d.solve(model, sfield, efield=st, **kw)
                    r = check_result('supplied random start', grid, sigma, sfield, st, info, tol)
                    if r:
                        return fail(shape=shape, frequency=freq, cycle=cycle, sslsolver=ssl, tol=tol, **r)
                    # ---- already good enough start, but with garbage on the boundary
                    cases += 1
                    st = good.copy()
                    st.fx[:, -1, :] = 1e-7
                    st.fy[-1, :, :] = 1e-7
                    st.fz[:, -1, :] = 1e-7
                    info = emg3d.solve(model, sfield, efield=st, **kw)
                    r = check_result('supplied good start with non-PEC boundary', grid, sigma, sfield, st, info, tol)
                    if r:
                        return fail(shape=shape, frequency=freq, cycle=cycle, sslsolver=ssl, tol=tol, **r)
                    # ---- already good enough start with values on the outer box edges only (they enter no interior equation)
                    cases += 1
                    st = good.copy()
                    st.fx[:, -1, -1] = 1e-3
                    st.fy[-1, :, -1] = 1e-3
                    st.fz[-1, -1, :] = 1e-3
                    info = emg3d.solve(model, sfield, efield=st, **kw)
                    r = check_result('supplied good start with non-zero values on the box edges', grid, sigma, sfield, st, info, tol)
                    if r:
                        return fail(shape=shape, frequency=freq, cycle=cycle, sslsolver=ssl, tol=tol, **r)
                    # ---- zero source, fresh and supplied
                    cases += 1
                    ef, info = emg3d.solve(model, zero_src, **kw)
                    r = check_zero('zero source', ef, info)
                    if r:
                        return fail(shape=shape, frequency=freq, cycle=cycle, sslsolver=ssl, tol=tol, **r)
                    cases += 1
                    st = emg3d.Field(grid, frequency=freq)
                    st.field = rng.standard_normal(st.field.size) + 0
                    info = emg3d.solve(model, zero_src, efield=st, **kw)
                    r = check_zero('zero source with supplied non-zero field', st, info)
                    if r:
                        return fail(shape=shape, frequency=freq, cycle=cycle, sslsolver=ssl, tol=tol, **r)
                # ---- a run that cannot reach the tolerance must be reported as failure
                cases += 1
                ef, info = emg3d.solve(model, sfield, cycle=cycle, sslsolver=ssl, semicoarsening=False, linerelaxation=False,
                                       tol=1e-14, maxit=1, return_info=True)
                tr = true_residual(grid, sigma, sfield, ef)
                if tr >= 1e-14 * info['ref_error'] and (info['exit'] == 0 or not info['exit_message']):
                    return fail(clause='run that does not reach the tolerance is reported as failure', shape=shape, frequency=freq,
                                cycle=cycle, sslsolver=ssl, exit=info['exit'], message=info['exit_message'], true_rel_residual=tr / info['ref_error'])
    # ---- magnetic permeability and electric permittivity, frequency and Laplace domain (displacement term comparable to conduction)
    shape = (8, 8, 8)
    h = [20 * 1.1 ** np.abs(np.arange(n) - n / 2 + 0.5) for n in shape]
    grid = emg3d.TensorMesh(h, origin=(-sum(h[0]) / 2, -sum(h[1]) / 2, -sum(h[2]) / 2))
    sx = rng.uniform(0.5e-3, 2.0e-3, shape)
    mu_r = rng.uniform(1.0, 1.5, shape)
    eps_r = rng.uniform(2.0, 12.0, shape)
    model = emg3d.Model(grid, property_x=sx, mu_r=mu_r, epsilon_r=eps_r, mapping='Conductivity')
    sigma = dict(x=sx, y=sx, z=sx)
    for freq in (2.0e6, -1.0e7):
        cases += 1
        sfield = emg3d.get_source_field(grid, [3.0, -4.0, 2.0, 25, 10], frequency=freq)
        ef, info = emg3d.solve(model, sfield, cycle='F', sslsolver=False, semicoarsening=False, linerelaxation=False, tol=1e-6, return_info=True)
        r = check_result('mu_r and epsilon_r', grid, sigma, sfield, ef, info, 1e-6, mu_r, eps_r)
        if r:
            return fail(shape=shape, frequency=freq, **r)
    # ---- the certificate does not depend on the amplitude of the source (linear system): very weak and very strong sources, multigrid alone
    shape = (8, 8, 8)
    h = [50 * 1.1 ** np.abs(np.arange(n) - n / 2 + 0.5) for n in shape]
    grid = emg3d.TensorMesh(h, origin=(-sum(h[0]) / 2, -sum(h[1]) / 2, -sum(h[2]) / 2))
    sx = rng.uniform(0.5, 2.0, shape)
    model = emg3d.Model(grid, property_x=sx, mapping='Conductivity')
    sigma = dict(x=sx, y=sx, z=sx)
    for freq in (1.0, -1.0):
        for strength in (1e-26, 1e-14, 1e12):
            cases += 1
            sfield = emg3d.get_source_field(grid, emg3d.TxElectricDipole((3.0, -4.0, 2.0, 25, 10), strength=strength), frequency=freq)
            ef, info = emg3d.solve(model, sfield, cycle='F', sslsolver=False, semicoarsening=False, linerelaxation=False, tol=1e-6, maxit=30, return_info=True)
            r = check_result(f'source strength {strength:g}', grid, sigma, sfield, ef, info, 1e-6)
            if r:
                return fail(shape=shape, frequency=freq, cycle='F', sslsolver=False, tol=1e-6, strength=strength, **r)
    # ---- strongly diffusive regime (skin depth much smaller than the cells), Krylov solver without multigrid pre-conditioner: the first
    #      half-step of BiCGSTAB can already meet the tolerance, SciPy then returns without ever calling the callback
    shape = (8, 8, 8)
    h = [np.ones(n) * 100.0 for n in shape]
    grid = emg3d.TensorMesh(h, origin=(-400, -400, -400))
    sx = np.ones(shape)
    model = emg3d.Model(grid, property_x=sx, mapping='Conductivity')
    sigma = dict(x=sx, y=sx, z=sx)
    for freq in (1.0e6, -1.0e7):
        sfield = emg3d.get_source_field(grid, [30.0, -40.0, 20.0, 25, 10], frequency=freq)
        for ssl in (('bicgstab', 'cgs') if tier == 'quick' else ('bicgstab', 'cgs', 'gcrotmk')):
            for tol in (1e-2, 1e-3):
                kw = dict(cycle=None, sslsolver=ssl, semicoarsening=False, linerelaxation=False, tol=tol, return_info=True)
                cases += 1
                ef, info = emg3d.solve(model, sfield, **kw)
                r = check_result('fresh, diffusive regime, Krylov solver alone', grid, sigma, sfield, ef, info, tol)
                if r:
                    return fail(shape=shape, frequency=freq, cycle=None, sslsolver=ssl, tol=tol, **r)
                cases += 1
                st = ef.copy()
                st.field *= (1 + 20 * tol)          # a start that is close to, but not within, the tolerance
                info = emg3d.solve(model, sfield, efield=st, **dict(kw, tol=tol / 10))
                r = check_result('supplied start near the tolerance, diffusive regime, Krylov solver alone', grid, sigma, sfield, st, info, tol / 10)
                if r:
                    return fail(shape=shape, frequency=freq, cycle=None, sslsolver=ssl, tol=tol / 10, **r)
    return dict(reproduced=False, cases=cases)


def check_result(what, grid, sigma, sfield, ef, info, tol, mu_r=None, eps_r=None):
    if info['exit'] != 0:
        return None if info['exit_message'] else dict(clause='failure without explanatory message', case=what)
    tr = true_residual(grid, sigma, sfield, ef, mu_r, eps_r)
    ref = np.sqrt(np.sum(np.abs(sfield.field) ** 2))
    if not tr < tol * ref * (1 + 1e-9):
        return dict(clause='success reported but independent residual >= tol * |s|', case=what, true_residual=tr, tol_times_ref=tol * ref,
                    reported_abs_error=info['abs_error'])
    if abs(info['abs_error'] - tr) > 1e-6 * max(tr, 1e-300) + 1e-9 * tol * ref:
        return dict(clause='reported abs_error does not describe the field handed back', case=what, reported=info['abs_error'], true_residual=tr)
    if abs(info['ref_error'] - ref) > 1e-12 * ref or abs(info['rel_error'] - info['abs_error'] / ref) > 1e-9 * max(info['rel_error'], 1e-300):
        return dict(clause='reported ref/rel error inconsistent', case=what)
    if boundary_max(ef) != 0:
        return dict(clause='tangential boundary components of the returned field are not zero', case=what, max_boundary=boundary_max(ef))
    if ef.field.dtype != sfield.field.dtype:
        return dict(clause='dtype of returned field differs from the source', case=what)
    return None


def check_zero(what, ef, info):
    if info['exit'] != 0:
        return dict(clause='zero source not reported as success', case=what)
    if np.abs(ef.field).max() != 0:
        return dict(clause='zero source must yield an all-zero field in the object handed back', case=what, max_abs=float(np.abs(ef.field).max()))
    if not info['abs_error'] == 0:
        return dict(clause='zero source: reported abs_error is not the residual (0) of the returned zero field', case=what, reported=info['abs_error'])
    return None


def check_breakdown():
    """replay of K1: a Krylov solver that reports failure (info < 0) after the multigrid pre-conditioner reached
    the tolerance once must not be reported as CONVERGED (scipy solver replaced by a stub within its contract)"""
    import emg3d
    import scipy.sparse.linalg as ssl
    h = [np.ones(8) * 50.0] * 3
    grid = emg3d.TensorMesh(h, origin=(-200, -200, -200))
    model = emg3d.Model(grid, 1.0)
    sfield = emg3d.get_source_field(grid, [3.0, -4.0, 2.0, 25, 10], frequency=1.0)
    orig = ssl.bicgstab

    def stub(A, b, x0=None, M=None, callback=None, **kw):
        if M is not None:
            M.matvec(b)           # pre-conditioner applied to the source: inner multigrid may reach tol * l2_refe
        return x0, -10            # breakdown
    ssl.bicgstab = stub
    try:
        ef, info = emg3d.solve(model, sfield, cycle='F', sslsolver='bicgstab', semicoarsening=False, linerelaxation=False,
                               tol=0.9, return_info=True)
    finally:
        ssl.bicgstab = orig
    if info['exit'] == 0:
        return dict(reproduced=True, cases=1, clause='Krylov solver reported breakdown (info=-10) but solve() reports success',
                    exit_message=info['exit_message'], how='contracts.c01_concrete.check_breakdown (scipy.sparse.linalg.bicgstab replaced by a stub that applies M once and returns info=-10)')
    return dict(reproduced=False, cases=1)
