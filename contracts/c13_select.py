"""C13 -- "a selection contains exactly the chosen sub-cube; selecting leaves noise floor, relative error and standard deviation as they
were": Survey.select for names given in ANY order.

The whole chain  select -> to_dict -> DataArray.sel -> Survey.from_dict -> Survey.__init__ -> Survey._initiate_dataset -> noise setters  is
executed by the control executor from the current source.  The abstract xarray model of c13.py is refined here to be LABEL AWARE:

  * the contents of a storage are tracked per POSITION (CStore.cells[(i, j, k)] = term); the original survey holds under the names (s, r, f)
    of data set k the symbolic constant  k[s,r,f]  (all distinct);
  * a DataArray (LArr) carries its coordinate labels per dimension, or None when it wraps a plain array;
  * dependency contracts (assumed, listed in the evidence): DataArray.sel(**label lists) picks by label in the order asked for;
    np.asarray(DataArray) is the underlying plain array (same storage, labels gone); xarray.DataArray(x, dims=, coords=) keeps the labels of a
    DataArray x unless coords are given, attaches given coords by position otherwise; xarray.Dataset(vars, coords=) attaches unlabelled
    variables to the coords BY POSITION (sizes must agree) and re-indexes labelled variables to the coords BY LABEL (a label the variable
    does not have yields NaN); electrodes: from_dict(to_dict(x)) is x again.

Clauses (over parameters, the survey handed back and the original; nothing about local names of the code):
  the survey handed back has exactly the chosen names and, under each name, the source / receiver / frequency the original holds under it;
  every data set of the original is a data set of the new survey and holds under each chosen name triple -- looked up by label, and by the
  position of the names in the new survey's sources / receivers / frequencies -- the value the original holds under these names;
  noise floor and relative error of each chosen datum are those of the original; the original is untouched.

The names are concrete (a 3 x 2 x 2 survey), the selections enumerate every ordered non-empty sub-list per axis; the values are symbolic.
"""
import itertools

import z3

from pyvc import cx, ob, prelude
from .cxutil import clause, canary, UNRECOGNISED
from . import c13

PROP = 'C13'
DIMS = ('src', 'rec', 'freq')
NAMES = {'src': ['TxED-1', 'TxED-2', 'TxED-3'], 'rec': ['RxEP-1', 'RxEP-2'], 'freq': ['f-1', 'f-2']}
MISSING = 'NaN(label-not-present)'
U = type(UNRECOGNISED)


# ----------------------------------------------------------------------------------------------- label-aware abstract xarray
class CStore(cx.Store):
    """storage whose contents are tracked per position"""

    def __init__(self, origin, shape, cells):
        super().__init__(origin, None)
        self.shape = tuple(shape)
        self.cells = cells


class LArr(cx.DArr):
    """xarray.DataArray: storage + coordinate labels per dimension (coords None: no labels, a wrapped plain array)"""

    def __init__(self, store, coords=None, attrs=None):
        super().__init__(store, attrs=attrs)
        self.coords = None if coords is None else {d: list(coords[d]) for d in DIMS}


def positions(shape):
    return itertools.product(*[range(n) for n in shape])


def cells_of(v):
    return getattr(v.store, 'cells', None) if isinstance(v, cx.NDArr) and v.view == 'whole' else None


def label_list(x, what):
    """a concrete list of names (a numpy array of str is not modelled)"""
    if isinstance(x, (list, tuple)) and all(isinstance(n, str) for n in x):
        return list(x)
    raise cx.Unsupported(f'{what}: labels are not a concrete list of names ({x!r})')


def _sel(it, f, args, kw, node):
    """DataArray.sel(dim=[names...]): the entries under these names, in the order asked for; KeyError for a name that is not a label"""
    v = f.bound
    it.ctx.event('sel', source=v, labels=dict(kw))
    if not isinstance(v, LArr) or v.coords is None or cells_of(v) is None or args or f.name.endswith('isel'):
        return prelude.TABLE['dataarray.sel'](it, f, args, kw, node)            # untracked: the generic contract
    kw = {k: w for k, w in kw.items() if k not in ('method', 'tolerance', 'drop')}
    if not kw:
        return LArr(v.store, v.coords, dict(v.attrs))                             # nothing selected: the same data
    new = {d: list(v.coords[d]) for d in DIMS}
    for d, names in kw.items():
        if d not in DIMS:
            raise cx._Raise(cx.ExcVal('KeyError', (d,)))
        if isinstance(names, str):
            raise cx.Unsupported('.sel with a single label (drops the dimension) is not modelled')
        new[d] = label_list(names, '.sel')
        for n in new[d]:
            if n not in v.coords[d]:
                raise cx._Raise(cx.ExcVal('KeyError', (n,)))
    shape = tuple(len(new[d]) for d in DIMS)
    src = v.store.cells
    cells = {p: src[tuple(v.coords[d].index(new[d][i]) for d, i in zip(DIMS, p))] for p in positions(shape)}
    return LArr(CStore(('sel', v.store.uid, tuple((d, tuple(new[d])) for d in DIMS)), shape, cells), new, dict(v.attrs))


def _asarray(it, f, args, kw, node):
    """np.asarray(DataArray): the underlying plain array (same storage; the labels are gone)"""
    v = args[0] if args else None
    if isinstance(v, cx.DArr):
        return cx.NDArr(v.store, view=v.view, dtype=v.dtype)
    return prelude.TABLE[f.name](it, f, args, kw, node)


def _dataarray(it, f, args, kw, node):
    """xarray.DataArray(data, coords=None, dims=None): a DataArray keeps its own labels unless coords are given; given coords are attached
    by position; a plain array has no labels"""
    kw = dict(kw)
    data = args[0] if args else kw.pop('data', None)
    coords = args[1] if len(args) > 1 else kw.pop('coords', None)
    dims = args[2] if len(args) > 2 else kw.pop('dims', None)
    attrs = kw.pop('attrs', None)
    kw.pop('name', None)
    if kw or len(args) > 3:
        raise cx.Unsupported(f'xarray.DataArray with arguments {sorted(kw)} is not modelled')
    if not isinstance(data, cx.NDArr):
        raise cx.Unsupported('xarray.DataArray of something that is not an array')
    if dims is not None and tuple(dims) != DIMS:
        raise cx.Unsupported(f'xarray.DataArray with dims {dims!r}: only (src, rec, freq) is modelled')
    if data.view != 'whole':
        return LArr(cx.Store(f'fresh@{prelude.line(node)}', None), None)        # a view of something: contents not tracked
    if coords is not None:
        if not isinstance(coords, dict) or set(coords) != set(DIMS):
            raise cx.Unsupported('xarray.DataArray with coords that are not a dict over (src, rec, freq)')
        c = {d: label_list(coords[d], 'DataArray coords') for d in DIMS}
        sh = getattr(data.store, 'shape', None)
        if sh is not None and sh != tuple(len(c[d]) for d in DIMS):
            raise cx._Raise(cx.ExcVal('ValueError', ('conflicting sizes',)))
        return LArr(data.store, c, attrs if isinstance(attrs, dict) else None)
    if isinstance(data, LArr):
        return LArr(data.store, data.coords, dict(data.attrs))
    if isinstance(data, cx.DArr):
        raise cx.Unsupported('DataArray whose labels are not tracked')
    return LArr(data.store, None, attrs if isinstance(attrs, dict) else None)


def attach(var, coords, node):
    """one variable of a Dataset with the given index coords"""
    shape = tuple(len(coords[d]) for d in DIMS)
    if isinstance(var, tuple):                                                    # (dims, array): positional
        if len(var) < 2 or tuple(var[0]) != DIMS or not isinstance(var[1], cx.NDArr):
            raise cx.Unsupported('Dataset variable given as a tuple that is not ((src, rec, freq), array)')
        var = LArr(var[1].store, None) if var[1].view == 'whole' else LArr(cx.Store('view', None), None)
    if not isinstance(var, LArr):
        if isinstance(var, cx.DArr):
            raise cx.Unsupported('Dataset variable whose labels are not tracked')
        raise cx.Unsupported(f'Dataset variable of type {type(var).__name__}')
    cells = getattr(var.store, 'cells', None)
    if var.coords is None:                                                        # no labels: attached by position
        if cells is not None and var.store.shape != shape:
            raise cx._Raise(cx.ExcVal('ValueError', ('conflicting sizes for dimension',)))
        return LArr(var.store, coords, dict(var.attrs))
    if all(var.coords[d] == coords[d] for d in DIMS):
        return LArr(var.store, coords, dict(var.attrs))
    if cells is None:
        return LArr(cx.Store(f'reindexed@{prelude.line(node)}', None), coords, dict(var.attrs))
    new = {}
    for p in positions(shape):                                                    # labelled: re-indexed to the coords by label
        names = [coords[d][i] for d, i in zip(DIMS, p)]
        if all(n in var.coords[d] for d, n in zip(DIMS, names)):
            new[p] = cells[tuple(var.coords[d].index(n) for d, n in zip(DIMS, names))]
        else:
            new[p] = z3.Real(f'{MISSING}@{var.store.uid}{list(p)}')
    return LArr(CStore(('reindex', var.store.uid), shape, new), coords, dict(var.attrs))


def _dataset(it, f, args, kw, node):
    """xarray.Dataset(data_vars, coords=): see module docstring"""
    kw = dict(kw)
    dvars = args[0] if args else kw.pop('data_vars', None)
    coords = args[1] if len(args) > 1 else kw.pop('coords', None)
    attrs = args[2] if len(args) > 2 else kw.pop('attrs', None)
    if kw:
        raise cx.Unsupported(f'xarray.Dataset with arguments {sorted(kw)} is not modelled')
    if not isinstance(coords, dict) or set(coords) != set(DIMS):
        raise cx.Unsupported('xarray.Dataset without explicit coords over (src, rec, freq) is not modelled')
    c = {d: label_list(coords[d], 'Dataset coords') for d in DIMS}
    if any(len(set(c[d])) != len(c[d]) for d in DIMS):
        raise cx.Unsupported('Dataset coords with repeated labels')
    if dvars is None:
        dvars = {}
    if not isinstance(dvars, dict):
        raise cx.Unsupported('xarray.Dataset with data_vars that are not a dict')
    items = {k: attach(v, c, node) for k, v in dvars.items()}
    ds = cx.Obj('Dataset', {'__items__': items, 'attrs': dict(attrs) if isinstance(attrs, dict) else {},
                            '__coords__': {d: cx.Obj('Coordinate', {'values': list(c[d]), 'data': list(c[d]), 'attrs': {}}) for d in DIMS}})
    it.ctx.event('new-dataset', obj=ds)
    return ds


def ds_hook(it, obj, attr):
    if obj.cls == 'Dataset' and attr in obj.fields.get('__coords__', {}):
        return obj.fields['__coords__'][attr]
    if obj.cls == 'Dataset' and attr == 'coords':
        return obj.fields.get('__coords__', NotImplemented)
    return c13.ds_hook(it, obj, attr)


def ds_setitem(it, obj, k, v, node):
    """ds[name] = variable: aligned to the Dataset's coords like a constructor variable"""
    if obj.cls != 'Dataset' or '__coords__' not in obj.fields:
        return NotImplemented
    if not isinstance(k, str):
        raise cx.Unsupported('Dataset item store with a key that is not a name')
    c = {d: obj.fields['__coords__'][d].fields['values'] for d in DIMS}
    if isinstance(v, cx.DArr) and not isinstance(v, LArr):
        v = LArr(v.store, c if v.view == 'whole' else None, dict(v.attrs)) if v.view == 'whole' else LArr(cx.Store('view', None), None)
    obj.fields['__items__'][k] = attach(v, c, node)
    it.ctx.event('setitem', obj=obj, key=k, value=v, line=getattr(node, 'lineno', 0))
    return None


def _el_to_dict(it, f, args, kw, node):
    return {'__class__': f.bound.cls, '__electrode__': f.bound}


def _el_from_dict(it, args, kw, node):
    cref, inp = args[0], args[-1]
    if not isinstance(inp, dict) or inp.get('__class__') != cref.name or '__electrode__' not in inp:
        raise cx.Unsupported('electrode from_dict of something that is not the to_dict of an electrode of this class')
    return cx.Obj(cref.name, {'__same_as__': inp['__electrode__']})


def _real_classmethod(q):
    """Cls.method(...) for a classmethod defined in Cls: the real body with cls bound to the class"""
    def summary(it, args, kw, node):
        fnode, _, _ = cx.intake.func(q)
        mod = q.split('.')[0]
        sub = it if it.mod == mod else cx.Interp(it.ctx, mod)
        return sub.call_closure(cx.Closure(fnode, {}, sub, qualname=None), list(args), kw, node)
    return summary


TRUST = [
    'xarray.DataArray.sel(dim=[names]): the entries under these names in the order asked for (KeyError for an unknown name); no indexers: the same data',
    'np.asarray(DataArray): the underlying plain array (same storage, no labels)',
    'xarray.DataArray(x, dims=, coords=): a DataArray x keeps its labels unless coords are given; given coords are attached by position; a plain array has no labels',
    'xarray.Dataset(vars, coords=) / ds[name] = var: a variable without labels is attached to the coords by position (sizes must agree); a labelled '
    'variable is re-indexed to the coords by label (NaN for a label it does not have)',
    'electrodes: Cls.from_dict(x.to_dict()) is an electrode equal to x',
    'ndarray.item() / float() of a size-one array: the value of its only element',
]


# ----------------------------------------------------------------------------------------------- abstract pre-state
def V(key, s, r, f):
    return z3.Real(f'{key}[{s},{r},{f}]')


def mk_survey(nf, re, explicit, extra=('synthetic',)):
    shape = tuple(len(NAMES[d]) for d in DIMS)

    def arr(key):
        cells = {p: V(key, *[NAMES[d][i] for d, i in zip(DIMS, p)]) for p in positions(shape)}
        return LArr(CStore('data.' + key, shape, cells), NAMES)
    items = {'observed': arr('observed')}
    attrs = {'noise_floor': None, 'relative_error': None}
    for name, kind, sym in (('noise_floor', nf, c13.NF), ('relative_error', re, c13.RE)):
        if kind == 'scalar':
            attrs[name] = sym
        elif kind == 'array':
            attrs[name] = 'data._' + name
            items['_' + name] = arr('_' + name)
    if explicit:
        items['standard_deviation'] = arr('standard_deviation')
    for k in extra:
        items[k] = arr(k)
    ds = cx.Obj('Dataset', {'__items__': items, 'attrs': attrs,
                            '__coords__': {d: cx.Obj('Coordinate', {'values': list(NAMES[d]), 'data': list(NAMES[d]), 'attrs': {}}) for d in DIMS}})
    srcs = {n: cx.Obj('TxElectricDipole', {}) for n in NAMES['src']}
    recs = {n: cx.Obj('RxElectricPoint', {}) for n in NAMES['rec']}
    for o in list(srcs.values()) + list(recs.values()):
        o.fields['to_dict'] = cx.LibFn('electrode.to_dict', bound=o)
    freqs = {n: z3.Real(f'frequency[{n}]') for n in NAMES['freq']}
    sv = cx.Obj('Survey', {'_data': ds, 'sources': srcs, 'receivers': recs, 'frequencies': freqs, 'name': None, 'date': None, 'info': None},
                mod='surveys')
    return sv, ds


def ordered_sublists(names):
    out = []
    for n in range(1, len(names) + 1):
        out += [list(p) for p in itertools.permutations(names, n)]
    return out


def selections():
    """every ordered non-empty sub-list of the source names (the other axes: not selected / reversed), every pair of ordered sub-lists of the
    receiver and frequency names (sources: not selected / a re-ordered sub-list)"""
    S, R_, F = (ordered_sublists(NAMES[d]) for d in DIMS)
    out = []
    for s in [None] + S:
        out.append((s, None, None))
        out.append((s, NAMES['rec'][::-1], NAMES['freq'][::-1]))
    for r, f in itertools.product([None] + R_, [None] + F):
        out.append((None, r, f))
        out.append((['TxED-3', 'TxED-1'], r, f))
    seen, uniq = set(), []
    for x in out:
        k = repr(x)
        if k not in seen:
            seen.add(k)
            uniq.append(x)
    return uniq


CONFIGS = (('array', 'scalar', True), ('scalar', 'array', False), (None, None, False))


def explore_select(nf, re, explicit, sel, positional):
    s, r, f = sel

    def mk(ctx):
        ctx.opts['getattr_hook'] = ds_hook
        ctx.opts['setitem_hook'] = ds_setitem
        ctx.opts.setdefault('prelude', {}).update({
            'dataarray.sel': _sel, 'np.asarray': _asarray, 'np.asanyarray': _asarray, 'xarray.DataArray': _dataarray, 'xarray.Dataset': _dataset,
            'electrode.to_dict': _el_to_dict, 'ndarray.item': c13._size_one_item, 'builtins.float': c13._float_of})
        ctx.summaries['surveys.Survey.from_dict'] = _real_classmethod('surveys.Survey.from_dict')
        for q in ('TxElectricDipole', 'RxElectricPoint'):
            ctx.summaries[f'electrodes.{q}.from_dict'] = _el_from_dict
        sv, ds = mk_survey(nf, re, explicit)
        st = dict(__self__=sv, ds=ds, before=c13.snapshot(ds), cfg=(nf, re, explicit), sel=sel,
                  cells={k: dict(v.store.cells) for k, v in ds.fields['__items__'].items()})
        if positional:
            return [s, r, f], dict(remove_empty=False), st
        kw = {k: v for k, v in (('sources', s), ('receivers', r), ('frequencies', f)) if v is not None}
        return [], dict(kw, remove_empty=False), st
    return cx.run_function('surveys.Survey.select', mk, summaries={}, opts={})


# ----------------------------------------------------------------------------------------------- what the clauses look at
def rejected_positive_scalar(r):
    """the path on which the noise-parameter setter rejects the scalar the original holds: the original holds a positive value
    (proved: surveys.Survey/setters, non-positive values are rejected), so this path does not exist"""
    if r.outcome != 'raise' or getattr(r.value, 'typ', None) != 'ValueError':
        return False
    return any(z3.is_const(p) and p.decl().kind() == z3.Z3_OP_UNINTERPRETED and p.decl().name().startswith("ANY('cmp', 'LtE', 0.0,") for p in r.pc)


def chosen(r):
    return {d: (list(x) if x is not None else list(NAMES[d])) for d, x in zip(DIMS, r.state['sel'])}


def new_survey(r):
    """(survey handed back, its Dataset, names per dimension in the survey's own order) or UNRECOGNISED"""
    v = r.value
    if r.outcome != 'return' or not isinstance(v, cx.Obj) or v.cls != 'Survey':
        return None
    ds = v.fields.get('_data')
    if not isinstance(ds, cx.Obj) or ds.cls != 'Dataset' or '__coords__' not in ds.fields:
        return UNRECOGNISED('the data of the survey handed back is not a Dataset built by xarray.Dataset(vars, coords=)')
    dicts = [v.fields.get(k) for k in ('_sources', '_receivers', '_frequencies')]
    if not all(isinstance(d, dict) for d in dicts):
        return UNRECOGNISED('sources / receivers / frequencies of the survey handed back are not dicts')
    return v, ds, {d: list(x) for d, x in zip(DIMS, dicts)}


def names_ok(r):
    if rejected_positive_scalar(r):
        return None
    ns = new_survey(r)
    if ns is None or isinstance(ns, U):
        return False if ns is None else ns
    v, ds, names = ns
    want = chosen(r)
    ok = all(sorted(names[d]) == sorted(want[d]) and len(names[d]) == len(want[d]) for d in DIMS)
    orig = r.state['__self__']
    for d, fld, ofld in (('src', '_sources', 'sources'), ('rec', '_receivers', 'receivers')):
        for n in names[d]:
            e = v.fields[fld][n]
            ok = ok and isinstance(e, cx.Obj) and e.fields.get('__same_as__') is orig.fields[ofld].get(n)
    goals = [z3.BoolVal(bool(ok))]
    for n in names['freq']:
        a, b = v.fields['_frequencies'][n], orig.fields['frequencies'].get(n)
        if b is None or not z3.is_expr(a):
            goals.append(z3.BoolVal(False))
        else:
            goals.append(a == b)
    return z3.And(*goals)


def data_by_name(r, by):
    """by='label': looked up through the coordinate labels of the new data set; by='position': through the position of the names in the
    new survey's sources / receivers / frequencies"""
    if rejected_positive_scalar(r):
        return None
    ns = new_survey(r)
    if ns is None or isinstance(ns, U):
        return False if ns is None else ns
    v, ds, names = ns
    want = chosen(r)
    items = ds.fields['__items__']
    goals = []
    for key, ocells in r.state['cells'].items():
        a = items.get(key)
        if a is None:
            return False
        if not isinstance(a, LArr) or a.coords is None or cells_of(a) is None or a.store.version != 0:
            return UNRECOGNISED(f'contents of data set {key!r} of the new survey are not tracked')
        idx = a.coords if by == 'label' else names
        shape_ok = a.store.shape == tuple(len(idx[d]) for d in DIMS) == tuple(len(want[d]) for d in DIMS)
        if not shape_ok or any(sorted(idx[d]) != sorted(want[d]) for d in DIMS):
            return False
        for s, r_, f in itertools.product(*[want[d] for d in DIMS]):
            p = (idx['src'].index(s), idx['rec'].index(r_), idx['freq'].index(f))
            o = (NAMES['src'].index(s), NAMES['rec'].index(r_), NAMES['freq'].index(f))
            goals.append(a.store.cells[p] == ocells[o])
    return z3.And(*goals)


def noise_param_at(ds, name, names, triple, cells=None):
    a = ds.fields['attrs'].get(name)
    if a is None:
        return None
    if isinstance(a, str):
        da = ds.fields['__items__'].get('_' + name) if a == 'data._' + name else None
        if da is None:
            return False
        cs = cells_of(da) if cells is None else cells.get('_' + name)
        if cs is not None and (cells is not None or da.store.version == 0):
            return cs[tuple(names[d].index(n) for d, n in zip(DIMS, triple))]
        if isinstance(da, cx.NDArr) and da.store.val is not None and z3.is_expr(cx.R(da.store.val)):
            return cx.R(da.store.val)                                            # the same value at every datum
        return UNRECOGNISED(f'contents of {name} of the new survey are not tracked')
    return c13.elem(a)


def noise_by_name(r):
    if rejected_positive_scalar(r):
        return None
    ns = new_survey(r)
    if ns is None or isinstance(ns, U):
        return False if ns is None else ns
    v, ds, names = ns
    want = chosen(r)
    if any(sorted(names[d]) != sorted(want[d]) for d in DIMS):
        return False
    goals = []
    for name in ('noise_floor', 'relative_error'):
        for t in itertools.product(*[want[d] for d in DIMS]):
            got = noise_param_at(ds, name, names, t)
            was = noise_param_at(r.state['ds'], name, NAMES, t, cells=r.state['cells'])
            if isinstance(got, U) or isinstance(was, U):
                return got if isinstance(got, U) else was
            if got is None or was is None or got is False or was is False:
                goals.append(z3.BoolVal(got is None and was is None))
            else:
                goals.append(got == was)
    has_sd = 'standard_deviation' in ds.fields['__items__']
    goals.append(z3.BoolVal(has_sd == ('standard_deviation' in r.state['before']['keys'])))
    return z3.And(*goals)


def original_untouched(r):
    if rejected_positive_scalar(r):
        return None
    ds = r.state['ds']
    own = {v.store.uid for v in r.state['before']['objs'].values()}
    same_cells = all(k in ds.fields['__items__'] and getattr(ds.fields['__items__'][k].store, 'cells', None) == c for k, c in r.state['cells'].items())
    return c13.untouched(r, ds, r.state['before']) and same_cells and all(e['store'].uid not in own for e in r.mutations()) \
        and sorted(ds.fields['__items__']) == r.state['before']['keys']


def under_the_neighbouring_name(r):
    """WRONG on purpose (canary): under each chosen source name the new survey holds what the original holds under the NEXT chosen source
    name (wrong for every implementation that keeps the property, whatever order it stores the selection in)"""
    ns = new_survey(r)
    if ns is None or isinstance(ns, U) or rejected_positive_scalar(r):
        return None
    v, ds, names = ns
    want = chosen(r)
    a = ds.fields['__items__'].get('observed')
    if len(want['src']) < 2 or not isinstance(a, LArr) or a.coords is None or cells_of(a) is None or \
            any(sorted(a.coords[d]) != sorted(want[d]) for d in DIMS):
        return None
    oc = r.state['cells']['observed']
    goals = []
    for s, r_, f in itertools.product(*[want[d] for d in DIMS]):
        nxt = want['src'][(want['src'].index(s) + 1) % len(want['src'])]
        p = (a.coords['src'].index(s), a.coords['rec'].index(r_), a.coords['freq'].index(f))
        goals.append(a.store.cells[p] == oc[(NAMES['src'].index(nxt), NAMES['rec'].index(r_), NAMES['freq'].index(f))])
    return z3.And(*goals)


def task_select_by_name():
    col = ob.Collector(PROP, 'surveys.Survey.select/by_name')
    col.default_replay = c13.replay_survey
    for q in ('surveys.Survey.select', 'surveys.Survey._initiate_dataset', 'surveys.Survey.__init__', 'surveys.Survey.from_dict',
              'surveys.Survey.to_dict', 'surveys.Survey._set_nf_re', 'surveys.txrx_lists_to_dict', 'surveys.frequencies_to_dict'):
        col.function(q)
    for t in TRUST:
        col.trust(t)
    res = []
    sels = selections()
    for i, sel in enumerate(sels):
        nf, re, explicit = CONFIGS[i % len(CONFIGS)]
        res += explore_select(nf, re, explicit, sel, positional=(i % 2 == 1))
    # every configuration of the noise parameters with selections that re-order every axis
    for nf, re, explicit in itertools.product((None, 'scalar', 'array'), (None, 'scalar', 'array'), (False, True)):
        for sel in ((['TxED-2', 'TxED-3', 'TxED-1'], ['RxEP-2', 'RxEP-1'], ['f-2', 'f-1']), (['TxED-3', 'TxED-2'], None, ['f-2'])):
            res += explore_select(nf, re, explicit, sel, positional=False)
    n_rej = len([r for r in res if rejected_positive_scalar(r)])
    clause(col, 'returns_a_survey', res, lambda r: None if rejected_positive_scalar(r) else r.outcome == 'return')
    clause(col, 'exactly_the_chosen_names__each_holding_the_source_receiver_frequency_the_original_holds_under_that_name', res, names_ok)
    clause(col, 'every_data_set_holds_under_each_chosen_name_the_value_of_the_original__looked_up_by_coordinate_label', res,
           lambda r: data_by_name(r, 'label'), sample=True)
    clause(col, 'every_data_set_holds_under_each_chosen_name_the_value_of_the_original__looked_up_by_position_in_the_new_sources_receivers_frequencies',
           res, lambda r: data_by_name(r, 'position'), sample=True)
    clause(col, 'noise_floor_and_relative_error_of_every_chosen_datum_are_those_of_the_original__explicit_standard_deviation_kept', res, noise_by_name)
    clause(col, 'original_survey_untouched', res, original_untouched)
    canary(col, 'canary/under_each_source_name_the_data_of_the_neighbouring_source', res, under_the_neighbouring_name)
    col.results[-1]['paths'] = len(res)
    col.results[-1]['paths_excluded_setter_rejects_stored_positive_scalar'] = n_rej
    return col.pack()
