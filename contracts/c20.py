"""C20 -- time-domain helper partitions and fills the required frequencies consistently.

Element-wise lifting over the generic required frequency f and the generic coarse frequency c:
  masks ifreq_extrapolate / ifreq_interpolate / (f > fmax) are pairwise disjoint and exhaustive for fmin <= fmax,
  freq_compute lies in [fmin, fmax]; out is never written above fmax (stays zero);
  no coarse option:  out[ifreq_interpolate] = fdata  (pass-through, and freq_compute == freq_interpolate element-wise);
  coarse option:     out[ifreq_interpolate] = spline(log freq_compute, Re/Im fdata)(log freq_interpolate);
  extrapolation:     PCHIP through (1e-100, Re fdata[0] - 1e-100 i) + the computed data, evaluated at freq_extrapolate;
  freq2time hands interpolate(fdata)[:, None], offset, freq_required, time, signal, ft, ftarg to empymod.model.tem and squeezes.
Assumed: interpolating spline / shape-preserving PCHIP contracts of SciPy, the reference transform of empymod.
"""
import os

import z3

from pyvc import cx, ob
from .cxutil import clause, canary

PROP = 'C20'
F, C, FMIN, FMAX = z3.Reals('f_required c_coarse fmin fmax')


def replay(d):
    from . import c20_concrete
    return ob.guarded(c20_concrete.check, 'quick', 0)


def mk_fourier(coarse):
    """coarse in {'none', 'every', 'input'}"""
    freq_req = cx.NDArr(cx.Store('freq_required', F))
    fo = cx.Obj('Fourier', dict(_freq_req=freq_req, fmin=FMIN, fmax=FMAX, time=cx.NDArr(cx.Store('time')), signal=cx.Opaque('signal'),
                                ft=cx.Opaque('ft'), ftarg=cx.Opaque('ftarg')), mod='time')
    fo.fields['every_x_freq'] = z3.Int('every_x') if coarse == 'every' else None
    fo.fields['input_freq'] = cx.NDArr(cx.Store('input_freq', C)) if coarse == 'input' else None
    return fo


def interp_handlers(log):
    def make(kind):
        def ctor(it, f, args, kw, node):
            return cx.LibFn(kind + '-instance', bound=(args[0], args[1]))
        return ctor

    def call(kind):
        def h(it, f, args, kw, node):
            r = cx.NDArr(cx.Store((kind, len(log))))
            log.append((kind, f.bound[0], f.bound[1], args[0], r))
            return r
        return h

    def logf(it, f, args, kw, node):
        r = cx.NDArr(cx.Store('log', None))
        r.log_of = args[0]
        return r

    def r_(it, f, args, kw, node):
        return None
    return {'sp.interpolate.InterpolatedUnivariateSpline': make('spline'), 'spline-instance': call('spline'),
            'sp.interpolate.PchipInterpolator': make('pchip'), 'pchip-instance': call('pchip'), 'np.log': logf}


def task_masks():
    col = ob.Collector(PROP, 'time.Fourier/masks')
    col.default_replay = replay
    for p in ('freq_coarse', 'ifreq_compute', 'freq_compute', 'ifreq_extrapolate', 'ifreq_interpolate', 'freq_interpolate', 'freq_extrapolate'):
        col.function(f'time.Fourier.{p}')
    pre = [FMIN <= FMAX, z3.Int('every_x') >= 1]
    res = []
    for coarse in ('none', 'every', 'input'):
        def run(ctx, coarse=coarse):
            it = cx.Interp(ctx, 'time')
            fo = mk_fourier(coarse)
            st = dict(fo=fo, coarse=coarse)
            try:
                st['ext'] = it.getattr(fo, 'ifreq_extrapolate')
                st['int'] = it.getattr(fo, 'ifreq_interpolate')
                st['cmp'] = it.getattr(fo, 'ifreq_compute')
                st['fcoarse'] = it.getattr(fo, 'freq_coarse')
                st['fcompute'] = it.getattr(fo, 'freq_compute')
                st['finterp'] = it.getattr(fo, 'freq_interpolate')
                st['fext'] = it.getattr(fo, 'freq_extrapolate')
            except cx._Raise as e:
                return 'raise', e.exc, st
            return 'return', None, st
        res += cx.explore(run, pc0=pre)
    clause(col, 'properties_evaluate', res, lambda r: r.outcome == 'return')

    def partition(r):
        e, i = r.state['ext'].store.val, r.state['int'].store.val
        if e is None or i is None:
            return False
        above = F > FMAX
        return z3.And(z3.Or(e, i, above), z3.Not(z3.And(e, i)), z3.Not(z3.And(e, above)), z3.Not(z3.And(i, above)),
                      e == (F < FMIN), i == z3.And(F >= FMIN, F <= FMAX))
    clause(col, 'three_groups_below_within_above_are_disjoint_and_exhaustive', res, partition, pre, sample=True)
    canary(col, 'canary/interpolated_group_with_open_upper_end', res,
           lambda r: r.state['int'].store.val == z3.And(F >= FMIN, F < FMAX), pre)

    def compute_in_band(r):
        m = r.state['cmp'].store.val
        fc = r.state['fcoarse']
        if m is None or not isinstance(fc, cx.NDArr) or fc.store.val is None:
            return False
        v = fc.store.val
        # freq_compute = freq_coarse[mask]: its elements are exactly the coarse frequencies inside the band
        sel = getattr(r.state['fcompute'], 'mask_of', None)
        ok = sel is not None and sel[0].store is fc.store and sel[1].store.val is not None and sel[1].store.val.eq(m)
        return z3.And(z3.BoolVal(ok), m == z3.And(v >= FMIN, v <= FMAX))
    clause(col, 'computed_frequencies_are_exactly_the_coarse_frequencies_inside_the_band', res, compute_in_band, pre)

    def coarse_source(r):
        fc = r.state['fcoarse']
        fo = r.state['fo']
        if r.state['coarse'] == 'none':
            return fc is fo.fields['_freq_req'] or (isinstance(fc, cx.NDArr) and fc.store is fo.fields['_freq_req'].store and fc.view == 'whole')
        if r.state['coarse'] == 'input':
            return fc is fo.fields['input_freq']
        return isinstance(fc, cx.NDArr) and fc.store is fo.fields['_freq_req'].store and isinstance(fc.view, tuple) and fc.view[0] == 'slice' \
            and fc.view[1] is None and fc.view[2] is None and fc.view[3] is fo.fields['every_x_freq']
    clause(col, 'coarse_frequencies_are_required_or_every_xth_required_or_the_input_frequencies', res, coarse_source)

    def passthrough_align(r):
        if r.state['coarse'] != 'none':
            return None
        a, b = r.state['fcompute'], r.state['finterp']
        ma, mb = getattr(a, 'mask_of', None), getattr(b, 'mask_of', None)
        if ma is None or mb is None or ma[0].store is not mb[0].store:
            return False
        return ma[1].store.val == mb[1].store.val
    clause(col, 'without_coarse_option_computed_and_interpolated_frequencies_coincide_position_wise', res, passthrough_align, pre)
    return col.pack()


def task_masks_after_reassignment():
    """the masks follow the band limits the object holds NOW: all seven properties are evaluated once (whatever that leaves on the object), the
    user then assigns new limits through the real setters of fmin / fmax, and the properties are evaluated again -- same clauses, new limits"""
    col = ob.Collector(PROP, 'time.Fourier/masks_after_reassignment')
    col.default_replay = replay
    for p in ('fmin', 'fmax', 'ifreq_compute', 'ifreq_extrapolate', 'ifreq_interpolate', 'freq_coarse'):
        col.function(f'time.Fourier.{p}')
    FMIN2, FMAX2 = z3.Reals('fmin_assigned_later fmax_assigned_later')
    pre = [FMIN <= FMAX, FMIN2 <= FMAX2, z3.Int('every_x') >= 1]
    names = ('ifreq_extrapolate', 'ifreq_interpolate', 'ifreq_compute', 'freq_coarse', 'freq_compute', 'freq_interpolate', 'freq_extrapolate')
    res = []
    for coarse in ('none', 'every', 'input'):
        def run(ctx, coarse=coarse):
            it = cx.Interp(ctx, 'time')
            fo = cx.Obj('Fourier', dict(_freq_req=cx.NDArr(cx.Store('freq_required', F)), _fmin=FMIN, _fmax=FMAX, _time=cx.NDArr(cx.Store('time')), _signal=cx.Opaque('signal'),
                                        _ft=cx.Opaque('ft'), _ftarg=cx.Opaque('ftarg'), verb=0, __strict__=True,
                                        _every_x_freq=(z3.Int('every_x') if coarse == 'every' else None),
                                        _input_freq=(cx.NDArr(cx.Store('input_freq', C)) if coarse == 'input' else None)), mod='time')
            st = dict(fo=fo, coarse=coarse)
            try:
                for n in names:
                    it.getattr(fo, n)
                it.setattr(fo, 'fmin', FMIN2)
                it.setattr(fo, 'fmax', FMAX2)
                for n in names:
                    st[n] = it.getattr(fo, n)
            except cx._Raise as e:
                return 'raise', e.exc, st
            return 'return', None, st
        res += cx.explore(run, pc0=pre)
    clause(col, 'properties_evaluate', res, lambda r: r.outcome == 'return')

    def val(x):
        return x.store.val if isinstance(x, cx.NDArr) else None

    def partition(r):
        e, i = val(r.state['ifreq_extrapolate']), val(r.state['ifreq_interpolate'])
        if e is None or i is None:
            return False
        return z3.And(e == (F < FMIN2), i == z3.And(F >= FMIN2, F <= FMAX2))
    clause(col, 'groups_below_and_within_follow_the_limits_assigned_last', res, partition, pre, sample=True)

    def compute(r):
        m, fc = val(r.state['ifreq_compute']), r.state['freq_coarse']
        if m is None or not isinstance(fc, cx.NDArr) or fc.store.val is None:
            return False
        v = fc.store.val
        sel = getattr(r.state['freq_compute'], 'mask_of', None)
        ok = sel is not None and sel[0].store is fc.store and sel[1].store.val is not None and sel[1].store.val.eq(m)
        return z3.And(z3.BoolVal(ok), m == z3.And(v >= FMIN2, v <= FMAX2))
    clause(col, 'computed_frequencies_are_the_coarse_frequencies_inside_the_band_assigned_last', res, compute, pre)
    canary(col, 'canary/masks_still_follow_the_limits_of_the_construction', res,
           lambda r: val(r.state['ifreq_interpolate']) == z3.And(F >= FMIN, F <= FMAX), pre)
    return col.pack()


def task_setters():
    """the assignments that change what the transform needs -- Fourier.time = t, Fourier.signal = s, Fourier.fourier_arguments(ft, ftarg) -- store
    the value and then derive required frequencies, ft and ftarg AGAIN, by the reference routine empymod.utils.check_time, from the time, signal
    and Fourier arguments the object holds at that moment: always, whatever the object held before (no shortcut for `unchanged` values: the time
    array is kept by reference and may have been edited in place)"""
    from .cxutil import UNRECOGNISED
    col = ob.Collector(PROP, 'time.Fourier/setters')
    col.default_replay = replay
    for p_ in ('time', 'signal', 'fourier_arguments', '_check_time'):
        col.function(f'time.Fourier.{p_}')
    res = []
    for what in ('time', 'signal', 'fourier_arguments'):
        def run(ctx, what=what):
            log = []

            def check_time(it, f, args, kw, node):
                out = (cx.Opaque('time-checked'), cx.NDArr(cx.Store('required frequencies of this call')), cx.Opaque('ft-checked'), cx.Opaque('ftarg-checked'))
                log.append((list(args), dict(kw), out))
                return out
            ctx.opts.setdefault('prelude', {})['empymod.utils.check_time'] = check_time
            it = cx.Interp(ctx, 'time')
            old_t = cx.NDArr(cx.Store('time held before'))
            fo = cx.Obj('Fourier', dict(_freq_req=cx.NDArr(cx.Store('freq_required before')), _fmin=FMIN, _fmax=FMAX, _time=old_t, _signal=z3.Int('signal_before'),
                                        _ft=cx.Opaque('ft before'), _ftarg=cx.Opaque('ftarg before'), verb=0, _every_x_freq=None, _input_freq=None, __strict__=True), mod='time')
            new = dict(time=cx.NDArr(cx.Store('time assigned')), signal=z3.Int('signal_assigned'), ft=cx.Opaque('ft assigned'), ftarg=cx.Opaque('ftarg assigned'))
            st = dict(fo=fo, what=what, log=log, new=new, old_t=old_t)
            try:
                if what == 'time':
                    it.setattr(fo, 'time', new['time'])
                elif what == 'time_same_object':
                    it.setattr(fo, 'time', old_t)
                elif what == 'signal':
                    it.setattr(fo, 'signal', new['signal'])
                else:
                    it.call(it.getattr(fo, 'fourier_arguments'), [new['ft'], new['ftarg']], {})
            except cx._Raise as e:
                return 'raise', e.exc, st
            return 'return', None, st
        res += cx.explore(run)
    # the very array the object already holds, assigned again (after an in-place edit by its owner)
    def run_same(ctx):
        log = []

        def check_time(it, f, args, kw, node):
            out = (cx.Opaque('time-checked'), cx.NDArr(cx.Store('required frequencies of this call')), cx.Opaque('ft-checked'), cx.Opaque('ftarg-checked'))
            log.append((list(args), dict(kw), out))
            return out
        ctx.opts.setdefault('prelude', {})['empymod.utils.check_time'] = check_time
        it = cx.Interp(ctx, 'time')
        old_t = cx.NDArr(cx.Store('time held before'))
        fo = cx.Obj('Fourier', dict(_freq_req=cx.NDArr(cx.Store('freq_required before')), _fmin=FMIN, _fmax=FMAX, _time=old_t, _signal=z3.Int('signal_before'),
                                    _ft=cx.Opaque('ft before'), _ftarg=cx.Opaque('ftarg before'), verb=0, _every_x_freq=None, _input_freq=None, __strict__=True), mod='time')
        st = dict(fo=fo, what='time', log=log, new=dict(time=old_t), old_t=old_t)
        try:
            it.setattr(fo, 'time', old_t)
        except cx._Raise as e:
            return 'raise', e.exc, st
        return 'return', None, st
    res += cx.explore(run_same)

    def refreshed(r):
        if r.outcome != 'return':
            return False
        fo, log, new, what = r.state['fo'].fields, r.state['log'], r.state['new'], r.state['what']
        if not log:
            return False
        args, kw, out = log[-1]
        if kw or len(args) < 4:
            return UNRECOGNISED('check_time is not called with (time, signal, ft, ftarg, ...) positionally')
        want_t = new['time'] if what == 'time' else r.state['old_t']
        want_s = new['signal'] if what == 'signal' else z3.Int('signal_before')
        ok = args[0] is want_t and fo['_time'] is want_t
        ok = ok and cx.is_sym(args[1]) and args[1].eq(want_s) and cx.is_sym(fo['_signal']) and fo['_signal'].eq(want_s)
        if what == 'fourier_arguments':
            ok = ok and args[2] is new['ft'] and args[3] is new['ftarg']
        # what the object holds afterwards is what THIS call of the reference routine returned
        return ok and fo['_freq_req'] is out[1] and fo['_ft'] is out[2] and fo['_ftarg'] is out[3]
    for what in ('time', 'signal', 'fourier_arguments'):
        clause(col, f'{what}/required_frequencies_and_transform_arguments_are_derived_again_from_the_current_time_signal_and_arguments',
               [r for r in res if r.state['what'] == what], refreshed, sample=(what == 'signal'))
    return col.pack()


def task_interpolate():
    col = ob.Collector(PROP, 'time.Fourier.interpolate')
    col.default_replay = replay
    col.function('time.Fourier.interpolate')
    pre = [FMIN <= FMAX, z3.Int('every_x') >= 1]
    res = []
    for coarse in ('none', 'every', 'input'):
        def mk(ctx, coarse=coarse):
            log = []
            ctx.opts.setdefault('prelude', {}).update(interp_handlers(log))
            fo = mk_fourier(coarse)
            fdata = cx.NDArr(cx.Store('fdata', z3.Real('fdata_elem')))
            fdata.store.deps = {('FDATA',)}
            return [fdata], {}, dict(__self__=fo, fdata=fdata, log=log, coarse=coarse)
        res += cx.run_function('time.Fourier.interpolate', mk, pc0=pre, summaries={}, opts={})
    clause(col, 'returns_the_filled_spectrum', res,
           lambda r: r.outcome == 'return' and isinstance(r.value, cx.NDArr) and str(r.value.store.origin).startswith('fresh'))

    def writes(r):
        out = r.value.store
        ws = [e for e in r.mutations() if e['store'] is out and e['how'] == 'setitem']
        return ws
    def structure(r):
        if r.outcome != 'return':
            return False
        ws = writes(r)
        if len(ws) != 2:
            return False
        w_int, w_ext = ws
        ki, ke = w_int.get('key'), w_ext.get('key')
        if not (isinstance(ki, cx.NDArr) and isinstance(ke, cx.NDArr) and ki.store.val is not None and ke.store.val is not None):
            return False
        gs = [ki.store.val == z3.And(F >= FMIN, F <= FMAX), ke.store.val == (F < FMIN)]
        # nothing is ever written above fmax: the two masks exclude f > fmax
        gs.append(z3.Implies(F > FMAX, z3.And(z3.Not(ki.store.val), z3.Not(ke.store.val))))
        return z3.And(*gs)
    clause(col, 'only_the_band_and_the_part_below_fmin_are_written__above_fmax_stays_zero', res, structure, pre, sample=True)

    def fill(r):
        if r.outcome != 'return':
            return False
        ws = writes(r)
        log = r.state['log']
        fd = r.state['fdata']
        spl = [x for x in log if x[0] == 'spline']
        v = ws[0].get('value')
        if v is fd:
            # pass-through is only allowed on a path on which the coarse frequencies ARE the required ones
            fo = r.state['__self__']
            eqs = [e for e in r.events if e['kind'] == 'array_equal' and e['result'] is True]
            return any(isinstance(e['b'], cx.NDArr) and e['b'].store is fo.fields['_freq_req'].store and e['b'].view == 'whole' for e in eqs)
        if len(spl) != 2:
            return False
        ok = True
        for (kind, x, y, arg, res_), part in zip(spl, ('real', 'imag')):
            ok = ok and getattr(x, 'log_of', None) is not None and getattr(x.log_of, 'mask_of', None) is not None
            ok = ok and isinstance(y, cx.NDArr) and y.store is fd.store and y.view == part
            ok = ok and getattr(arg, 'log_of', None) is not None and getattr(arg.log_of, 'mask_of', None) is not None
        return ok and isinstance(v, cx.NDArr) and ('FDATA',) in cx.deps_of(v)
    clause(col, 'band_is_filled_with_the_data_itself_or_its_interpolating_spline_in_log_frequency', res, fill)

    def extra(r):
        if r.outcome != 'return':
            return False
        log = r.state['log']
        pc_ = [x for x in log if x[0] == 'pchip']
        if len(pc_) != 2:
            return False
        ws = writes(r)
        v = ws[1].get('value')
        ok = all(getattr(x[3], 'mask_of', None) is not None for x in pc_)       # evaluated at freq_extrapolate = freq_required[mask]
        return ok and isinstance(v, cx.NDArr) and ('FDATA',) in cx.deps_of(v)
    clause(col, 'part_below_fmin_is_the_PCHIP_through_the_extended_data_evaluated_at_the_extrapolated_frequencies', res, extra)
    return col.pack()


def task_extension_point():
    """the extra PCHIP point is (1e-100 Hz, Re fdata[0] - 1e-100 i): read from the source text of interpolate()"""
    import ast
    col = ob.Collector(PROP, 'time.Fourier.interpolate/extension')
    fn = col.function('time.Fourier.interpolate')
    src = {ast.unparse(s.targets[0]): ast.unparse(s.value) for s in ast.walk(fn) if isinstance(s, ast.Assign) and len(s.targets) == 1}
    ok1 = src.get('freq_ext', '').replace(' ', '') == 'np.r_[1e-100,self.freq_compute]'
    ok2 = src.get('data_ext', '').replace(' ', '') in ('np.r_[fdata[0].real-1e-100j,fdata]',)
    col.lia('extended_point_is_1e-100_Hz_with_lowest_real_part_and_vanishing_imaginary_part', [], z3.BoolVal(ok1 and ok2), sample=True)
    return col.pack()


def task_freq2time():
    col = ob.Collector(PROP, 'time.Fourier.freq2time')
    col.default_replay = replay
    col.function('time.Fourier.freq2time')

    def mk(ctx):
        log = []

        def tem(it, f, args, kw, node):
            log.append(('tem', list(args), dict(kw)))
            td = cx.NDArr(cx.Store('tdata'))
            td.store.deps = {('TDATA',)}
            return (td, cx.Opaque('conv'))

        def interp(it, args, kw, node):
            log.append(('interpolate', args[1]))
            r = cx.NDArr(cx.Store('filled-spectrum'))
            return r
        ctx.opts.setdefault('prelude', {})['empymod.model.tem'] = tem
        ctx.summaries['time.Fourier.interpolate'] = interp
        fo = mk_fourier('none')
        fd = cx.NDArr(cx.Store('fdata'))
        off = z3.Real('off')
        return [fd, off], {}, dict(__self__=fo, fd=fd, log=log, off=off)
    res = cx.run_function('time.Fourier.freq2time', mk, summaries={}, opts={})

    def ok(r):
        if r.outcome != 'return':
            return False
        log, fo = r.state['log'], r.state['__self__']
        it_ = [x for x in log if x[0] == 'interpolate']
        tm = [x for x in log if x[0] == 'tem']
        if len(it_) != 1 or len(tm) != 1 or it_[0][1] is not r.state['fd']:
            return False
        # effective parameters of empymod.model.tem(fEM, off, freq, time, signal, ft, ftarg, conv=True) by name
        names = ['fEM', 'off', 'freq', 'time', 'signal', 'ft', 'ftarg', 'conv']
        kw = dict(zip(names, tm[0][1]))
        kw.update(tm[0][2])
        a = [kw.get('fEM')]
        good = isinstance(a[0], cx.NDArr) and str(a[0].store.origin) == 'filled-spectrum' and isinstance(a[0].view, tuple) and a[0].view[0] == 'index' \
            and a[0].view[1] == (slice(None, None, None), None)
        good = good and (kw.get('freq') is fo.fields['_freq_req'] or (isinstance(kw.get('freq'), cx.NDArr) and kw['freq'].store is fo.fields['_freq_req'].store))
        good = good and kw.get('time') is fo.fields['time'] and kw.get('signal') is fo.fields['signal'] and kw.get('ft') is fo.fields['ft'] and kw.get('ftarg') is fo.fields['ftarg']
        return good and isinstance(r.value, cx.NDArr) and cx.deps_of(r.value) == {('TDATA',)}
    clause(col, 'reference_transform_receives_the_filled_spectrum_and_the_unchanged_settings__result_squeezed', res, ok, sample=True)
    return col.pack()


def task_concrete():
    from . import c20_concrete
    col = ob.Collector(PROP, 'concrete')
    seed = int(os.environ.get('VERIF_SEED', '0'))
    tier = os.environ.get('VERIF_TIER', 'quick')
    r = ob.guarded(c20_concrete.check, tier, seed)
    col.concrete('partition_band_passthrough_extrapolation_shape_and_reference_transform', r['reproduced'] is False, r,
                 bounded='time vectors x transforms {dlf lagged/splined, fftlog} x signals {-1,0,1} x coarse options x bands incl. limits placed exactly on required frequencies',
                 cases=r.get('cases', 0))
    return col.pack()


def tasks(tier):
    return [('contracts.c20', n, {}) for n in ('task_masks', 'task_masks_after_reassignment', 'task_setters', 'task_interpolate', 'task_extension_point', 'task_freq2time', 'task_concrete')]


LEVEL = ('Proof by element-wise lifting over the generic required / coarse frequency (control executor, all paths of the bookkeeping properties and of interpolate(), '
         'three coarse-frequency options): three-way partition, computed frequencies inside the band, nothing written above fmax, pass-through or spline in the band, '
         'PCHIP below, and the hand-over to the reference transform.')
ASSUMPTIONS = ['SciPy InterpolatedUnivariateSpline interpolates its data (pass-through at coinciding frequencies) and PchipInterpolator is shape preserving (monotone shrink of the imaginary part): assumed contracts',
               'empymod.model.tem is the reference transform',
               'boolean-mask gather / scatter: out[mask] = data[...] positions correspond (numpy contract)',
               'precondition fmin <= fmax']
