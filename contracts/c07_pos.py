"""C07 -- the misfit is measured where the residual is back-propagated from.

The gradient is the derivative of the reported misfit only if the forward responses (Simulation._get_responses, which takes the receiver
positions from Survey._rec_types_coord(source)) are sampled at exactly the positions / orientations at which Simulation._get_rfield places
the adjoint sources (rec.coordinates_abs(source), clause of c07.task_rfield).  For an absolute receiver that is its own coordinates, for a
source-relative receiver its offset from the centre of the source.

R1  Survey._rec_types_coord(source): for every source of the survey, in any call order (first call, other source, repeated call), the
    coordinates returned for the electric / the magnetic receivers are, component by component and in survey order, those of
    receiver.coordinates_abs(that source)  -- value-level (z3 reals), not a statement about which calls the code makes.
R2  Receiver.coordinates_abs(source): own coordinates (absolute receiver); own coordinates shifted in x, y, z by the centre the source reports
    (source.center; which point of a wire counts as its centre is not part of this property) and unchanged angles (relative receiver).

Scenario (generic values, concrete shape): four point receivers (electric absolute, magnetic relative, electric relative, magnetic
absolute) with symbolic coordinates and angles; two sources, one with three symbolic electrodes -- all coincidence patterns are explored, so
closed loops (first electrode repeated at the end) are covered -- and one with two.  Small dense numpy arrays are modelled exactly by the
extension value Arr2 below (assumed numpy contracts, listed in the evidence).
"""
import ast
import functools

import z3

from pyvc import cx, ob, intake, prelude
from .cxutil import clause, canary, coverage, UNRECOGNISED

PROP = 'C07'


def replay(d):
    from . import c07_concrete
    return ob.guarded(c07_concrete.check, 'quick', 0)


# ------------------------------------------------------------------ small dense 2-D arrays (assumed numpy contracts)
NUMPY_MODEL = ('numpy on small dense arrays of concrete shape (contracts/c07_pos.Arr2): np.array / np.asarray of equally long rows, np.zeros/empty((m, n)), '
               'a[i] (row view), a[int-array] / a[bool-mask] / a[rows, cols] (copy), a[rows, cols] = v and a[rows, cols] op= v with broadcasting of a row '
               'vector, element-wise + - * / with scalars, row vectors and equally shaped arrays, .T, .copy(), .mean/.sum(axis), .any()/.all(), '
               'np.nonzero / np.logical_not of concrete boolean sequences, tuple()/list() of an array = its rows')
UNIQUE_MODEL = ('np.unique(a, axis=0): the distinct rows of a (every coincidence pattern of the rows is explored as a separate path); the ORDER of the '
                'distinct rows is not modelled (first occurrences are returned), sound for order-independent uses such as .mean(axis=0)')


class FrozenVec(cx.Vec):
    """row of a read-only view: writing through it is outside the model"""

    def __setitem__(self, k, v):
        raise cx.Unsupported('store through a view of a small array')


def _scalar(x):
    return (isinstance(x, (int, float)) and not isinstance(x, bool)) or (cx.is_sym(x) and not z3.is_bool(x))


class Arr2(cx.Ext):
    def __init__(self, rows, ncol=None, view=False):
        self.rows = [FrozenVec(list(r)) if view else cx.Vec(list(r)) for r in rows]
        self.ncol = len(self.rows[0]) if self.rows else (ncol or 0)
        if any(len(r) != self.ncol for r in self.rows):
            raise cx.Unsupported('ragged array')
        self.view = view

    # -- helpers
    def shape(self):
        return (len(self.rows), self.ncol)

    def _sel(self, key, n):
        """index list selected by one key component along an axis of length n, and whether the component is a scalar index"""
        if isinstance(key, bool):
            raise cx.Unsupported('boolean scalar index')
        if isinstance(key, int):
            if not -n <= key < n:
                raise cx._Raise(cx.ExcVal('IndexError'))
            return [key % n], True
        if isinstance(key, slice):
            if any(x is not None and not isinstance(x, int) for x in (key.start, key.stop, key.step)):
                raise cx.Unsupported('symbolic slice bound')
            return list(range(n))[key], False
        if isinstance(key, (list, tuple)) and not isinstance(key, Arr2):
            ks = list(key)
            if ks and all(isinstance(k, bool) for k in ks):
                if len(ks) != n:
                    raise cx._Raise(cx.ExcVal('IndexError', ('boolean index did not match',)))
                return [i for i, b in enumerate(ks) if b], False
            if all(isinstance(k, int) and not isinstance(k, bool) for k in ks):
                if any(not -n <= k < n for k in ks):
                    raise cx._Raise(cx.ExcVal('IndexError'))
                return [k % n for k in ks], False
        raise cx.Unsupported(f'index {key!r} of a small array')

    def _split(self, key):
        if isinstance(key, tuple) and not isinstance(key, cx.Vec):
            if len(key) != 2 or any(k is Ellipsis or k is None for k in key):
                raise cx.Unsupported('index form')
            (ri, rs), (ci, cs) = self._sel(key[0], len(self.rows)), self._sel(key[1], self.ncol)
            fancy = [isinstance(k, (list, tuple)) for k in key]
            if all(fancy):
                raise cx.Unsupported('two index arrays')
            return ri, rs, ci, cs
        ri, rs = self._sel(key, len(self.rows))
        return ri, rs, list(range(self.ncol)), False

    # -- protocol
    def cx_getitem(self, it, key):
        if isinstance(key, int) and not isinstance(key, bool):
            ri, _ = self._sel(key, len(self.rows))
            return self.rows[ri[0]]                                   # a row is a view: the very Vec object
        ri, rs, ci, cs = self._split(key)
        if rs and cs:
            return self.rows[ri[0]][ci[0]]
        if rs:
            return cx.Vec(self.rows[ri[0]][c] for c in ci)           # (copy; stores through it are not written back: see cx_setitem for a[i, :] = v)
        if cs:
            return cx.Vec(self.rows[r][ci[0]] for r in ri)
        return Arr2([[self.rows[r][c] for c in ci] for r in ri], ncol=len(ci))

    def _bcast(self, value, nr, nc):
        if isinstance(value, Arr2):
            if value.shape() == (nr, nc):
                return [list(r) for r in value.rows]
            if value.shape() == (1, nc):
                return [list(value.rows[0]) for _ in range(nr)]
            raise cx._Raise(cx.ExcVal('ValueError', ('could not broadcast',)))
        if isinstance(value, (cx.Vec, list, tuple)):
            v = list(value)
            if all(_scalar(x) for x in v):
                if len(v) == nc:
                    return [list(v) for _ in range(nr)]
                if len(v) == 1:
                    return [[v[0]] * nc for _ in range(nr)]
                raise cx._Raise(cx.ExcVal('ValueError', ('could not broadcast',)))
            raise cx.Unsupported('broadcast of a nested sequence')
        if _scalar(value):
            return [[value] * nc for _ in range(nr)]
        raise cx.Unsupported(f'broadcast of {type(value).__name__}')

    def cx_setitem(self, it, key, value):
        if self.view or isinstance(key, slice):       # (a bare slice reaches here without its bounds)
            return NotImplemented
        ri, rs, ci, cs = self._split(key)
        if rs and cs:
            vals = [[value]] if _scalar(value) else None
            if vals is None:
                return NotImplemented
        elif cs and not rs and isinstance(value, (cx.Vec, list, tuple)) and not isinstance(value, Arr2):
            if len(value) != len(ri):
                raise cx._Raise(cx.ExcVal('ValueError', ('could not broadcast',)))
            vals = [[x] for x in value]
        else:
            vals = self._bcast(value, len(ri), len(ci))
        for a, r in enumerate(ri):
            for b, c in enumerate(ci):
                list.__setitem__(self.rows[r], c, vals[a][b])
        return None

    def cx_iter(self, it):
        return list(self.rows)

    def cx_getattr(self, it, attr):
        if attr == 'T':
            return Arr2([[r[c] for r in self.rows] for c in range(self.ncol)], ncol=len(self.rows), view=True)
        if attr == 'shape':
            return self.shape()
        if attr == 'ndim':
            return 2
        if attr == 'size':
            return len(self.rows) * self.ncol
        if attr in ('copy', 'mean', 'sum', 'astype', 'any', 'all'):
            return cx.LibFn('arr2.' + attr, bound=self)
        return NotImplemented

    def _elementwise(self, it, op, other, reflected):
        if not isinstance(op, (ast.Add, ast.Sub, ast.Mult, ast.Div)):
            return NotImplemented
        try:
            o = self._bcast(other, len(self.rows), self.ncol)
        except cx.Unsupported:
            return NotImplemented
        f = (lambda a, b: it.binop(op, b, a)) if reflected else (lambda a, b: it.binop(op, a, b))
        return [[f(x, y) for x, y in zip(r, q)] for r, q in zip(self.rows, o)]

    def cx_binop(self, it, op, other, reflected):
        r = self._elementwise(it, op, other, reflected)
        return r if r is NotImplemented else Arr2(r, ncol=self.ncol)

    def cx_inplace(self, it, op, other):
        if self.view:
            raise cx.Unsupported('in-place operation on a view of a small array')
        r = self._elementwise(it, op, other, False)
        if r is NotImplemented:
            raise cx.Unsupported('in-place operation on a small array')
        for row, new in zip(self.rows, r):
            row[:] = new
        return None


def _rows_of(v):
    """rows if v is a non-empty list / tuple of equally long sequences of scalars"""
    if isinstance(v, (list, tuple)) and not isinstance(v, cx.Vec) and v and all(isinstance(x, (list, tuple)) and not isinstance(x, Arr2) for x in v):
        rows = [list(x) for x in v]
        if len({len(r) for r in rows}) == 1 and rows[0] and all(_scalar(x) for r in rows for x in r):
            return rows
    return None


def numpy_overrides(trust):
    """contract-supplied dependency contracts for the small-array model; everything else falls through to pyvc.prelude"""
    T = prelude.TABLE

    def fall(name):
        def h(it, f, args, kw, node):
            if name in T:
                return T[name](it, f, args, kw, node)
            it.ctx.event('libcall', name=name, args=args, kwargs=kw)
            return cx.Opaque(name + '()')
        return h

    def nparray(it, f, args, kw, node):
        v = args[0] if args else None
        if isinstance(v, Arr2):
            trust(NUMPY_MODEL)
            return Arr2([list(r) for r in v.rows], ncol=v.ncol) if f.name == 'np.array' and kw.get('copy') is not False else v
        rows = _rows_of(v)
        if rows is not None:
            trust(NUMPY_MODEL)
            return Arr2(rows)
        if isinstance(v, cx.Vec) and f.name == 'np.array':
            return cx.Vec(v)
        return fall(f.name)(it, f, args, kw, node)

    def npalloc(it, f, args, kw, node):
        shp = args[0] if args else kw.get('shape')
        if isinstance(shp, tuple) and len(shp) == 2 and all(isinstance(n, int) and 0 < n <= 16 for n in shp) and f.name in ('np.zeros', 'np.empty', 'np.ones'):
            trust(NUMPY_MODEL)
            fill = 1.0 if f.name == 'np.ones' else (0.0 if f.name == 'np.zeros' else None)
            if fill is None:
                return Arr2([[it.ctx.fresh_real('uninitialised') for _ in range(shp[1])] for _ in range(shp[0])])
            return Arr2([[fill] * shp[1] for _ in range(shp[0])])
        return fall(f.name)(it, f, args, kw, node)

    def conc_bools(v):
        return isinstance(v, (list, tuple)) and all(isinstance(x, bool) for x in v)

    def nonzero(it, f, args, kw, node):
        if conc_bools(args[0]):
            trust(NUMPY_MODEL)
            return (cx.Vec(i for i, b in enumerate(args[0]) if b),)
        return fall(f.name)(it, f, args, kw, node)

    def logical_not(it, f, args, kw, node):
        if conc_bools(args[0]):
            trust(NUMPY_MODEL)
            return cx.Vec(not b for b in args[0])
        return fall(f.name)(it, f, args, kw, node)

    def unique(it, f, args, kw, node):
        v = args[0]
        if isinstance(v, Arr2) and kw.get('axis') == 0 and len(args) == 1 and set(kw) == {'axis'}:
            trust(UNIQUE_MODEL)
            keep = []
            for r in v.rows:
                dup = False
                for q in keep:
                    same = z3.And(*[cx.R(a) == cx.R(b) if (cx.is_sym(a) or cx.is_sym(b)) else z3.BoolVal(a == b) for a, b in zip(r, q)])
                    if it.ctx.branch(z3.simplify(same), 'np.unique: coinciding rows'):
                        dup = True
                        break
                if not dup:
                    keep.append(r)
            return Arr2([list(r) for r in keep], ncol=v.ncol)
        if isinstance(v, Arr2):
            raise cx.Unsupported('np.unique form')
        return fall(f.name)(it, f, args, kw, node)

    def reduce_(it, f, args, kw, node):
        """mean / sum of a small array (bound method or np.mean / np.sum)"""
        v = f.bound if f.bound is not None else (args[0] if args else None)
        rest = list(args) if f.bound is not None else list(args[1:])
        if not isinstance(v, (Arr2, cx.Vec)):
            return fall(f.name)(it, f, args, kw, node)
        if set(kw) - {'axis'} or len(rest) > 1:
            raise cx.Unsupported('reduction form')
        axis = rest[0] if rest else kw.get('axis')
        trust(NUMPY_MODEL)
        mean = f.name.endswith('mean')

        def tot(xs):
            xs = list(xs)
            if mean and not xs:
                raise cx.Unsupported('mean of nothing')
            s = 0.0
            for x in xs:
                s = it.binop(ast.Add(), s, x)
            return it.binop(ast.Div(), s, float(len(xs))) if mean else s
        if isinstance(v, cx.Vec):
            if axis not in (None, 0, -1):
                raise cx.Unsupported('axis')
            return tot(v)
        if axis is None:
            return tot(x for r in v.rows for x in r)
        if axis in (0, -2):
            return cx.Vec(tot(r[c] for r in v.rows) for c in range(v.ncol))
        if axis in (1, -1):
            return cx.Vec(tot(r) for r in v.rows)
        raise cx.Unsupported('axis')

    def copy_(it, f, args, kw, node):
        v = f.bound if f.bound is not None else args[0]
        if isinstance(v, Arr2):
            trust(NUMPY_MODEL)
            return Arr2([list(r) for r in v.rows], ncol=v.ncol)
        if isinstance(v, cx.Vec):
            return cx.Vec(v)
        return fall(f.name)(it, f, args, kw, node)

    def anyall(it, f, args, kw, node):
        v = f.bound if f.bound is not None else args[0]
        if isinstance(v, Arr2):
            v = cx.Vec(x for r in v.rows for x in r)
        if isinstance(v, cx.Vec) and all(isinstance(x, bool) for x in v):
            trust(NUMPY_MODEL)
            return any(v) if f.name.endswith('any') else all(v)
        if isinstance(v, (cx.Vec, Arr2)):
            raise cx.Unsupported('any / all of non-boolean values')
        return fall(f.name)(it, f, args, kw, node)

    def hasattr_(it, f, args, kw, node):
        o, name = args
        if isinstance(o, cx.Obj) and o.mod is not None and name not in o.fields:
            return mro_lookup(o, name) is not None
        return T['builtins.hasattr'](it, f, args, kw, node)

    ov = {'np.array': nparray, 'np.asarray': nparray, 'np.zeros': npalloc, 'np.empty': npalloc, 'np.ones': npalloc,
          'np.nonzero': nonzero, 'np.logical_not': logical_not, 'np.unique': unique,
          'np.mean': reduce_, 'np.sum': reduce_, 'arr2.mean': reduce_, 'arr2.sum': reduce_, 'list.mean': reduce_, 'list.sum': reduce_,
          'arr2.copy': copy_, 'np.copy': copy_, 'list.copy': copy_, 'arr2.astype': copy_,
          'arr2.any': anyall, 'arr2.all': anyall, 'list.any': anyall, 'list.all': anyall, 'np.any': anyall, 'np.all': anyall,
          'builtins.hasattr': hasattr_}
    return ov


# ------------------------------------------------------------------ method resolution over several base classes
@functools.lru_cache(maxsize=None)
def mro(mod, cname):
    """C3 linearisation of a repo class over the base classes defined in the same module (cx.find_method follows one base only)"""
    def bases(c):
        node = intake.func(f'{mod}.{c}')[0]
        out = []
        for b in node.bases:
            if isinstance(b, ast.Name):
                try:
                    if isinstance(intake.func(f'{mod}.{b.id}')[0], ast.ClassDef):
                        out.append(b.id)
                except intake.IntakeError:
                    pass
        return out

    def lin(c):
        seqs = [lin(b) for b in bases(c)] + [list(bases(c))]
        out = [c]
        while any(seqs):
            seqs = [s for s in seqs if s]
            for s in seqs:
                h = s[0]
                if not any(h in t[1:] for t in seqs):
                    break
            else:
                raise cx.Unsupported('inconsistent class hierarchy')
            out.append(h)
            seqs = [[x for x in s if x != h] for s in seqs]
        return out
    return tuple(lin(cname))


def mro_lookup(obj, name):
    return _mro_lookup(obj.mod, obj.cls, name)


@functools.lru_cache(maxsize=None)
def _mro_lookup(mod, cls, name):
    """(memoised per process: the module ASTs are read once per run, pyvc.intake.module_ast)"""
    try:
        order = mro(mod, cls)
    except intake.IntakeError:
        return None
    for c in order:
        cnode = intake.func(f'{mod}.{c}')[0]
        for b in cnode.body:
            if isinstance(b, ast.FunctionDef) and b.name == name and \
                    not any(isinstance(d, ast.Attribute) and d.attr in ('setter', 'deleter') for d in b.decorator_list):
                return b, c, any(isinstance(d, ast.Name) and d.id == 'property' for d in b.decorator_list)
    return None


def getattr_hook(it, v, attr):
    if v.mod is None or attr.startswith('__'):
        return NotImplemented
    m = mro_lookup(v, attr)
    if m is None:
        return NotImplemented
    fnode, cname, is_prop = m
    clo = cx.Closure(fnode, {}, cx.Interp(it.ctx, v.mod) if v.mod != it.mod else it, qualname=f'{v.mod}.{cname}.{attr}', self_obj=v)
    return it.call(clo, [], {}, None) if is_prop else clo


# ------------------------------------------------------------------ scenario
REC = [('RxEP-1', 'RxElectricPoint', False), ('RxMP-1', 'RxMagneticPoint', True), ('RxEP-2', 'RxElectricPoint', True), ('RxMP-2', 'RxMagneticPoint', False)]
SRC = [('Tx-loop', 'TxElectricWire', 3), ('Tx-dip', 'TxElectricDipole', 2)]


def rec_syms(name):
    return [z3.Real(f'{name}.{c}') for c in ('x', 'y', 'z', 'azimuth', 'elevation')]


def src_syms(name, n):
    return [[z3.Real(f'{name}.p{i}.{c}') for c in 'xyz'] for i in range(n)]


def mk_receiver(name, cls, relative):
    """state established by the constructors Receiver.__init__ / Point.__init__ / Wire.__init__ for a point receiver"""
    c = rec_syms(name)
    return cx.Obj(cls, dict(_coordinates=cx.Vec(c), _points=Arr2([c[:3]]), _relative=relative, _data_type='complex', __strict__=True), mod='electrodes')


def mk_source(name, cls, n):
    return cx.Obj(cls, dict(_points=Arr2(src_syms(name, n)), _strength=z3.Real(f'{name}.strength'), __strict__=True), mod='electrodes')


def mk_survey():
    recs = {n: mk_receiver(n, c, r) for n, c, r in REC}
    srcs = {n: mk_source(n, c, k) for n, c, k in SRC}
    sv = cx.Obj('Survey', dict(sources=srcs, receivers=recs, __strict__=True), mod='surveys')
    return sv, srcs, recs


def _vals(v, n):
    """the n scalar components of a coordinate tuple / vector, or None"""
    if isinstance(v, (tuple, list)) and len(v) == n and all(_scalar(x) for x in v):
        return [cx.R(x) if not z3.is_expr(x) else x for x in v]
    return None


def _real(x):
    x = cx.R(x)
    return z3.ToReal(x) if z3.is_int(x) else x


def canary_if_recognised(col, oid, results, post):
    """a canary only says something when the code has the shape the clause talks about (otherwise the clause itself is undecided)"""
    if any(isinstance(post(r), type(UNRECOGNISED)) for r in results):
        return None
    return canary(col, oid, results, post)


# ------------------------------------------------------------------ R2: Receiver.coordinates_abs
def task_coordinates_abs():
    col = ob.Collector(PROP, 'electrodes.Receiver.coordinates_abs')
    col.default_replay = replay
    for q in ('electrodes.Receiver.coordinates_abs', 'electrodes.Receiver.center_abs', 'electrodes.Wire.center'):
        col.function(q)

    def run(ctx):
        ctx.opts['getattr_hook'] = getattr_hook
        ctx.opts.setdefault('prelude', {}).update(numpy_overrides(col.trust))
        sv, srcs, recs = mk_survey()
        it_ = cx.Interp(ctx, 'electrodes')
        out = {}
        try:
            for sn in srcs:
                for rn in recs:
                    out[sn, rn] = it_.call(it_.getattr(recs[rn], 'coordinates_abs'), [srcs[sn]], {})
            for sn in srcs:
                out[sn] = it_.getattr(srcs[sn], 'center')           # the centre the source reports (public attribute)
        except cx._Raise as e:
            return 'raise', e.exc, dict(out=out)
        return 'return', out, dict(out=out)
    res = cx.explore(run)
    # vacuity guard: the explored coincidence patterns of the source electrodes cover all electrode positions
    coverage(col, 'explored_paths_cover_all_electrode_positions', res)
    def mk_post(wrong=False):
        def post(r):
            if r.outcome != 'return':
                return UNRECOGNISED('coordinates_abs raised on a well-formed receiver / source')
            goals = []
            for sn, _, n in SRC:
                pts = src_syms(sn, n)
                for rn, _, rel in REC:
                    got = _vals(r.value[sn, rn], 5)
                    if got is None:
                        return UNRECOGNISED('coordinates_abs of a point receiver is not (x, y, z, azimuth, elevation)')
                    own = rec_syms(rn)
                    goals += [_real(got[k]) == own[k] for k in (3, 4)]
                    if not rel:
                        goals += [_real(got[k]) == own[k] for k in range(3)]
                    elif wrong:
                        goals += [_real(got[k]) == own[k] + pts[0][k] for k in range(3)]
                    else:
                        cen = _vals(r.value[sn], 3)
                        if cen is None:
                            return UNRECOGNISED('the centre of a source is not a 3-vector')
                        goals += [_real(got[k]) == own[k] + _real(cen[k]) for k in range(3)]
            return z3.And(*goals)
        return post
    clause(col, 'absolute_receiver_own_coordinates__relative_receiver_offset_from_the_source_centre__angles_unchanged', res, mk_post(), sample=True)
    canary_if_recognised(col, 'canary/relative_receiver_offset_from_the_first_source_electrode', res, mk_post(wrong=True))
    return col.pack()


# ------------------------------------------------------------------ R1: Survey._rec_types_coord
CALLS = ['Tx-loop', 'Tx-dip', 'Tx-loop']


def task_receiver_positions():
    col = ob.Collector(PROP, 'surveys.Survey._rec_types_coord')
    col.default_replay = replay
    col.function('surveys.Survey._rec_types_coord')
    col.function('surveys.Survey._irec_types')

    def run(ctx):
        ctx.opts['getattr_hook'] = getattr_hook
        ctx.opts.setdefault('prelude', {}).update(numpy_overrides(col.trust))
        sv, srcs, recs = mk_survey()
        it_ = cx.Interp(ctx, 'surveys')
        st = dict(got=[], want={}, after={})
        try:
            for sn in CALLS:
                st['got'].append(it_.call(it_.getattr(sv, '_rec_types_coord'), [sn], {}))
            ie = cx.Interp(ctx, 'electrodes')
            for sn in srcs:
                for rn in recs:
                    st['want'][sn, rn] = ie.call(ie.getattr(recs[rn], 'coordinates_abs'), [srcs[sn]], {})
            for rn in recs:
                st['after'][rn] = ie.getattr(recs[rn], 'coordinates')
            for sn in srcs:
                st['after'][sn] = ie.getattr(srcs[sn], 'points')
        except cx._Raise as e:
            return 'raise', e.exc, st
        return 'return', st['got'], st
    res = cx.explore(run)
    coverage(col, 'explored_paths_cover_all_electrode_positions', res)
    types = [[rn for rn, c, _ in REC if 'Electric' in c], [rn for rn, c, _ in REC if 'Magnetic' in c]]

    def mk_post(wrong=False):
        def post(r):
            if r.outcome != 'return':
                return UNRECOGNISED('_rec_types_coord raised on a well-formed survey')
            goals = []
            for sn, got in zip(CALLS, r.state['got']):
                if not (isinstance(got, (list, tuple)) and len(got) == 2):
                    return UNRECOGNISED('the result is not a pair (electric receivers, magnetic receivers)')
                for names, g in zip(types, got):
                    cols = list(g) if isinstance(g, (tuple, list)) else None
                    if cols is None or len(cols) != 5 or any(_vals(c, len(names)) is None for c in cols):
                        return UNRECOGNISED('the coordinates of a receiver type are not five sequences (x, y, z, azimuth, elevation) with one entry per receiver of that type')
                    for j, rn in enumerate(names):
                        other = [x for x, _, _ in SRC if x != sn][0]
                        want = _vals(r.state['want'][other if wrong else sn, rn], 5)
                        if want is None:
                            return UNRECOGNISED('coordinates_abs of a point receiver is not (x, y, z, azimuth, elevation)')
                        goals += [_real(_vals(cols[k], len(names))[j]) == _real(want[k]) for k in range(5)]
            return z3.And(*goals)
        return post
    clause(col, 'forward_responses_are_sampled_at_coordinates_abs_of_each_receiver_for_that_source__per_type_in_survey_order__first_other_and_repeated_call',
           res, mk_post(), sample=True)
    canary_if_recognised(col, 'canary/receivers_positioned_relative_to_the_other_source', res, mk_post(wrong=True))

    def frame(r):
        # the stored coordinates of the receivers and the electrodes of the sources are what they were before the calls
        if r.outcome != 'return':
            return None
        goals = []
        for rn, _, _ in REC:
            v = _vals(r.state['after'][rn], 5)
            if v is None:
                return UNRECOGNISED('coordinates of a point receiver are not (x, y, z, azimuth, elevation)')
            goals += [_real(a) == b for a, b in zip(v, rec_syms(rn))]
        for sn, _, n in SRC:
            p = r.state['after'][sn]
            if not (isinstance(p, Arr2) and p.shape() == (n, 3)):
                return UNRECOGNISED('points of a source are not an (n, 3) array')
            goals += [_real(a) == b for row, srow in zip(p.rows, src_syms(sn, n)) for a, b in zip(row, srow)]
        return z3.And(*goals)
    clause(col, 'receiver_coordinates_and_source_electrodes_are_left_as_they_were', res, frame)
    return col.pack()
