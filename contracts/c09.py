"""C09 -- receiver sampling and point sources are exact transposes; reciprocity.

P1  fields._point_vector.point_source: cell search + product of 1-D hat weights, all other cells zero   (c0910)
P2  fields.get_receiver: response = sum_d rotation_d * interpolate(field_d) with the same rotation() as the point source (cx)
    several receivers in one call (arrays of coordinates, value of the generic receiver): each response is the sum of ITS OWN rotation
    factors times the interpolated components; a direction is left out only if that receiver's own factor is negligible (cx)
P3  NaN policy: masked iff outside [nodes[1], nodes[-2]] in some axis (cx)
P4  fields._edge_curl_factor: volume-weighted discrete Faraday law with the C02 curl stencil   (c0910)
    fields.get_magnetic_field: argument roles, zeta = V/(mu_r s mu0), writes nothing of its inputs (cx)
P5  lemma (over contracts): for symmetric A (C02 symmetry) and r = s^T (P1, P2): r_b A^-1 s_a = r_a A^-1 s_b
"""
import os

import z3

from pyvc import cx, ob
from .cxutil import clause
from . import c0910

PROP = 'C09'


def replay(d):
    from . import c0910_concrete
    r = ob.guarded(c0910_concrete.check_point_vector, seeds=(0,))
    if not r['reproduced']:
        r = ob.guarded(c0910_concrete.check_receiver_groups, seeds=(0,))
    if not r['reproduced']:
        r = ob.guarded(c0910_concrete.check_magnetic, seeds=(0,))
    if not r['reproduced']:
        r = ob.guarded(c0910_concrete.check_magnetic_transpose, seeds=(0,))
    return r


def mk_field(tag):
    st = cx.Store(tag)
    grid = cx.Obj('TensorMesh', dict(h=[cx.NDArr(cx.Store(f'{tag}.grid.h{k}', z3.Real(f'h{k}'))) for k in range(3)], origin=cx.Vec([0.0, 0.0, 0.0]),
                                     shape_cells=(z3.Int('n0'), z3.Int('n1'), z3.Int('n2')),
                                     _cell_volumes=cx.NDArr(cx.Store(f'{tag}.grid._cell_volumes', z3.Real('h0') * z3.Real('h1') * z3.Real('h2')))), mod='meshes')
    for d in 'xyz':
        grid.fields['nodes_' + d] = cx.NDArr(cx.Store(f'{tag}.grid.nodes_{d}'))
    f = cx.Obj('Field', dict(grid=grid, _frequency=z3.Real('freq'), smu0=z3.Real('smu0'), sval=z3.Real('sval'), _field=cx.NDArr(st), field=cx.NDArr(st)), mod='fields')
    for c in 'xyz':
        f.fields['f' + c] = cx.NDArr(st, view=('comp', c))
    return f


def task_get_magnetic_field():
    col = ob.Collector(PROP, 'fields.get_magnetic_field')
    col.default_replay = replay
    col.function('fields.get_magnetic_field')
    res = []
    for has_mu in (False, True):
        def mk(ctx, has_mu=has_mu):
            log = []

            def field(it, args, kw, node):
                f = mk_field('hfield')
                f.fields['grid'] = args[0]
                f.fields['__kw__'] = dict(kw)
                log.append(('Field', f))
                return f

            def ecf(it, args, kw, node):
                log.append(('ecf', list(args)))
                return None

            def backward(it, args, kw, node):
                return cx.NDArr(cx.Store('sigma'))
            ctx.summaries.update({'fields.Field': field, 'fields._edge_curl_factor': ecf, 'maps.BaseMap.backward': backward})
            e = mk_field('efield')
            model = cx.Obj('Model', dict(case='isotropic', grid=e.fields['grid'], shape=e.fields['grid'].fields['shape_cells'], map=cx.Obj('BaseMap', {}, mod='maps'),
                                         _properties=['property_x', 'property_y', 'property_z', 'mu_r', 'epsilon_r'],
                                         property_x=cx.NDArr(cx.Store('model.property_x')), property_y=None, property_z=None, epsilon_r=None,
                                         mu_r=(cx.NDArr(cx.Store('model.mu_r', z3.Real('mu_r'))) if has_mu else None)))
            return [model, e], {}, dict(e=e, model=model, log=log, has_mu=has_mu)
        res += cx.run_function('fields.get_magnetic_field', mk, summaries={}, opts={})
    clause(col, 'returns_the_new_magnetic_field', res,
           lambda r: r.outcome == 'return' and len([x for x in r.state['log'] if x[0] == 'Field']) == 1 and r.value is [x for x in r.state['log'] if x[0] == 'Field'][0][1]
           and r.value.fields['__kw__'].get('electric') is False and r.value.fields['__kw__'].get('frequency') is r.state['e'].fields['_frequency']
           and r.value.fields['grid'] is r.state['e'].fields['grid'])

    def roles(r):
        ec = [x for x in r.state['log'] if x[0] == 'ecf']
        if len(ec) != 1:
            return False
        a = ec[0][1]
        hf, e = r.value, r.state['e']
        g = e.fields['grid']
        ok = a[0] is hf.fields['fx'] and a[1] is hf.fields['fy'] and a[2] is hf.fields['fz']
        ok = ok and a[3] is e.fields['fx'] and a[4] is e.fields['fy'] and a[5] is e.fields['fz']
        ok = ok and all(a[6 + k] is g.fields['h'][k] for k in range(3))
        z = a[9]
        if not (ok and isinstance(z, cx.NDArr) and z.store.val is not None):
            return False
        V = z3.Real('h0') * z3.Real('h1') * z3.Real('h2')
        want = (V / z3.Real('mu_r') if r.state['has_mu'] else V) / z3.Real('smu0')
        return z3.Implies(z3.And(z3.Real('mu_r') != 0, z3.Real('smu0') != 0), z.store.val == want)
    clause(col, 'curl_factor_gets_fields_widths_and_zeta_equal_V_over_mu_r_s_mu0', res, roles, sample=True)

    def frame(r):
        e, m = r.state['e'], r.state['model']
        g = e.fields['grid']
        owned = {e.fields['_field'].store.uid, g.fields['_cell_volumes'].store.uid, m.fields['property_x'].store.uid} | {h.store.uid for h in g.fields['h']}
        if m.fields['mu_r'] is not None:
            owned.add(m.fields['mu_r'].store.uid)
        return all(ev['store'].uid not in owned for ev in r.mutations())
    clause(col, 'writes_nothing_of_the_field_the_model_or_the_grid_including_its_cached_cell_volumes', res, frame)
    return col.pack()


def task_point_vector():
    """fields._point_vector (the wrapper of point_source): positions within the nodes (boundary included) are accepted; each component
    is filled by point_source with the cell CENTRES along its own direction and the NODES across, in (x, y, z) order, for the same position,
    into the component of a fresh real field on this grid; afterwards component d is scaled by rotation(azimuth, elevation)[d] -- the same
    rotation factors get_receiver uses; the adjoint source classes of the point receivers are the point sources of the same kind."""
    import ast
    col = ob.Collector(PROP, 'fields._point_vector')
    col.default_replay = replay
    fn = col.function('fields._point_vector')
    X = z3.Reals('px py pz az el')
    lo = {d: z3.Real(f'nodes_{d}_first') for d in 'xyz'}
    hi = {d: z3.Real(f'nodes_{d}_last') for d in 'xyz'}

    def mk(ctx):
        log = []
        grid = cx.Obj('TensorMesh', dict(__strict__=True), mod=None)
        for d in 'xyz':
            grid.fields['nodes_' + d] = cx.NDArr(cx.Store('nodes_' + d))
            grid.fields['cell_centers_' + d] = cx.NDArr(cx.Store('cell_centers_' + d))

        def getitem_hook(it, v, k):
            return NotImplemented

        def field(it, args, kw, node):
            f = cx.Obj('Field', dict(grid=args[0], kw=dict(kw), **{c: cx.NDArr(cx.Store('v' + c, z3.RealVal(0))) for c in ('fx', 'fy', 'fz')}, __strict__=True))
            log.append(('Field', f))
            return f

        def rotation(it, args, kw, node):
            log.append(('rotation', list(args)))
            return cx.Vec([z3.Real('rot_x'), z3.Real('rot_y'), z3.Real('rot_z')])
        ctx.summaries.update({'fields.Field': field, 'electrodes.rotation': rotation})
        return [grid, cx.Vec(list(X))], {}, dict(grid=grid, log=log)
    orig_getitem = cx.Interp.getitem

    def getitem(self, v, k, node=None):
        # first / last node of a node vector as scalars (the outside test)
        if isinstance(v, cx.NDArr) and str(v.store.origin).startswith('nodes_') and v.view == 'whole' and k in (0, -1):
            return (lo if k == 0 else hi)[str(v.store.origin)[-1]]
        return orig_getitem(self, v, k, node)
    orig_closure = cx.Interp.call_closure

    def call_closure(self, clo, args, kwargs, node=None):
        if getattr(clo.node, 'name', '') == 'point_source' and clo.qualname is None:
            self.ctx.event('point_source', args=list(args))
            tgt = args[4]
            tgt.store.version += 1
            tgt.store.val = z3.Real('w_' + str(tgt.store.origin))
            return None
        return orig_closure(self, clo, args, kwargs, node)
    cx.Interp.getitem = getitem
    cx.Interp.call_closure = call_closure
    try:
        res = cx.run_function('fields._point_vector', mk, pc0=[lo[d] < hi[d] for d in 'xyz'], summaries={}, opts={})
    finally:
        cx.Interp.getitem = orig_getitem
        cx.Interp.call_closure = orig_closure
    pre = [lo[d] < hi[d] for d in 'xyz']
    outside = z3.Or(*[z3.Or(X[k] < lo[d], X[k] > hi[d]) for k, d in enumerate('xyz')])
    # (the statement only speaks about positions inside the grid, nodes included: they must be accepted; what happens outside is not claimed)
    clause(col, 'positions_within_the_nodes_are_accepted', res,
           lambda r: z3.Implies(z3.Not(outside), z3.BoolVal(r.outcome == 'return')), pre)

    def wiring(r):
        if r.outcome != 'return':
            return None
        g, log = r.state['grid'], r.state['log']
        fl = [x for x in log if x[0] == 'Field']
        ps = [e for e in r.events if e['kind'] == 'point_source']
        if len(fl) != 1 or len(ps) != 3 or r.value is not fl[0][1] or fl[0][1].fields['grid'] is not g:
            return False
        f = fl[0][1]
        ok = f.fields['kw'].get('dtype') == cx.LibFn('float') or str(f.fields['kw'].get('dtype')) in ("<libfn float>", 'float') or 'float' in str(f.fields['kw'].get('dtype'))
        for k, (e, comp) in enumerate(zip(ps, ('fx', 'fy', 'fz'))):
            a = e['args']
            for j, d in enumerate('xyz'):
                want = g.fields[('cell_centers_' if j == k else 'nodes_') + d]
                ok = ok and a[j] is want
            pos = a[3]
            ok = ok and isinstance(pos, (list, cx.Vec)) and len(pos) == 3 and all(cx.is_sym(p) and p.eq(X[i]) for i, p in enumerate(pos))
            ok = ok and isinstance(a[4], cx.NDArr) and a[4].store is f.fields[comp].store
        return ok
    clause(col, 'each_component_uses_cell_centres_along_and_nodes_across_for_the_same_position_into_a_fresh_real_field', res, wiring, pre)

    def scaling(r):
        if r.outcome != 'return':
            return None
        log = r.state['log']
        rot = [x for x in log if x[0] == 'rotation']
        if len(rot) != 1 or len(rot[0][1]) != 2 or not (rot[0][1][0].eq(X[3]) and rot[0][1][1].eq(X[4])):
            return False
        f = r.value
        gs = []
        for comp, rname in (('fx', 'rot_x'), ('fy', 'rot_y'), ('fz', 'rot_z')):
            v = f.fields[comp].store.val
            if v is None:
                return False
            gs.append(v == z3.Real('w_v' + comp) * z3.Real(rname))
        return z3.And(*gs)
    clause(col, 'component_d_is_scaled_by_the_rotation_factor_d_of_azimuth_and_elevation', res, scaling, pre)
    # adjoint source classes (class attributes read from the source)
    from pyvc import intake
    tree = intake.module_ast('electrodes')[1]
    amap = {}
    for node in tree.body:
        if isinstance(node, ast.ClassDef):
            for b in node.body:
                if isinstance(b, ast.Assign) and any(isinstance(t, ast.Name) and t.id == '_adjoint_source' for t in b.targets):
                    amap[node.name] = ast.unparse(b.value)
    col.lia('adjoint_source_of_a_point_receiver_is_the_point_source_of_the_same_kind', [],
            z3.BoolVal(amap.get('RxElectricPoint') == 'TxElectricPoint' and amap.get('RxMagneticPoint') == 'TxMagneticPoint'))
    return col.pack()


def nan_policy(r):
    """the only masked store of NaN is at  x < nodes_x[1] | x > nodes_x[-2] | ... (y, z alike), x, y, z the columns of the positions"""
    f = r.state['f']
    g = f.fields['grid']
    muts = [e for e in r.mutations() if e['how'] == 'setitem' and isinstance(e.get('key'), cx.NDArr) and e['key'].pred is not None]
    if len(muts) != 1:
        return False
    v = muts[0].get('value')
    if not (isinstance(v, float) and v != v):
        return False

    def flat(p):
        return flat(p[1]) + flat(p[2]) if p[0] == 'or' else [p]
    atoms = flat(muts[0]['key'].pred)
    want = set()
    for k, d in enumerate('xyz'):
        want.add(('Lt', (g.fields['nodes_' + d].store.uid, 1), k))
        want.add(('Gt', (g.fields['nodes_' + d].store.uid, -2), k))
    got = set()
    for a in atoms:
        if a[0] != 'cmpelem':
            return False
        view = a[4]
        col_ = [k for k in range(3) if f', {k})' in view or f', {k}),' in view]
        got.add((a[1], a[2], col_[0] if col_ else None))
    return got == want


def task_get_receiver():
    from .c0910 import bind_call, NoBinding
    col = ob.Collector(PROP, 'fields.get_receiver')
    col.default_replay = replay
    col.function('fields.get_receiver')
    res = []
    for method in ('linear', 'cubic'):
        def mk(ctx, method=method):
            log = []

            def pfg(it, args, kw, node):
                xi = cx.NDArr(cx.Store('xi'))
                log.append(('points', args))
                return (None, xi, cx.Opaque('shape'))

            def rotation(it, args, kw, node):
                log.append(('rotation', args, kw))
                return cx.Vec([z3.Real('rot_x'), z3.Real('rot_y'), z3.Real('rot_z')])

            def interp(it, args, kw, node):
                log.append(('interpolate', args, kw))
                return cx.NDArr(cx.Store(('interp', len(log))))
            ctx.summaries.update({'maps._points_from_grids': pfg, 'electrodes.rotation': rotation, 'maps.interpolate': interp,
                                  'utils.EMArray': lambda it, a, k, n: a[0]})
            # (numpy scalars: the max / min of a single number is that number)
            ctx.opts.setdefault('prelude', {}).update({'number.max': lambda it, f, a, k, n: f.bound, 'number.min': lambda it, f, a, k, n: f.bound})
            f = mk_field('field')
            coords = tuple(z3.Reals('rx ry rz az el'))
            return [f, coords], dict(method=method), dict(f=f, coords=coords, log=log, method=method)
        res += cx.run_function('fields.get_receiver', mk, summaries={}, opts={})
    clause(col, 'returns_normally', res, lambda r: r.outcome == 'return')

    def structure(r):
        log, f, coords = r.state['log'], r.state['f'], r.state['coords']
        # (effective parameters by the callee's signature in the current source: positional and keyword calls are the same call)
        rot = [x for x in log if x[0] == 'rotation']
        if len(rot) != 1:
            return False
        try:
            b = bind_call('electrodes.rotation', rot[0][1], rot[0][2])
        except NoBinding:
            return False
        if not (b['azimuth'] is coords[3] and b['elevation'] is coords[4] and b.get('deg') is True):
            return False
        used_ = {}
        for x in log:
            if x[0] == 'interpolate':
                try:
                    b = bind_call('maps.interpolate', x[1], x[2])
                except NoBinding:
                    return False
                comp = [c for c in 'xyz' if b['values'] is f.fields['f' + c]]
                if len(comp) != 1 or b['grid'] is not f.fields['grid'] or b['method'] != r.state['method'] or b['extrapolate'] is not False:
                    return False
                fill = b.get('**', {}).get('fill_value')
                if r.state['method'] == 'linear' and not (isinstance(fill, float) and fill != fill):
                    return False
                used_[comp[0]] = True
        # a component is skipped only if its factor is (numerically) zero: path condition has |factor| <= 1e-10
        gs = []
        for k, c in enumerate('xyz'):
            fac = z3.Real('rot_' + c)
            absf = z3.If(fac >= 0, fac, -fac)
            gs.append(z3.BoolVal(c in used_) == (absf > z3.RealVal('1e-10')))
        return z3.And(*gs)
    clause(col, 'response_is_sum_of_rotation_factor_times_interpolated_component__same_rotation_as_the_point_source', res, structure, sample=True)

    clause(col, 'NaN_exactly_where_a_coordinate_is_below_nodes_1_or_above_nodes_minus_2', res, nan_policy)
    return col.pack()


# ------------------------------------------------------------------ get_receiver, several receivers in one call
class RotRows(cx.Vec):
    """electrodes.rotation for ARRAYS of angles: a (3, nrec) array whose row d holds the factor of direction d of every receiver of the
    call.  Each row is an abstract array whose point-wise value is the factor of the GENERIC receiver (an arbitrary, fixed one)."""


NEGLIGIBLE = z3.RealVal('1e-10')       # the bound below which the existing single-receiver clause already accepts a factor as "numerically zero"


def many_receivers_prelude(ctx, state):
    """dependency contracts used only by the many-receivers scenario (each is a fact about numpy on arrays that share one index, the receiver)"""
    import numpy as np
    from pyvc import prelude
    base = lambda name: prelude.TABLE[name]

    def is_rows(v):
        return isinstance(v, cx.Vec) and len(v) == 3 and all(isinstance(x, cx.NDArr) for x in v)

    def absf(it, f, args, kw, node):
        v = f.bound if f.bound is not None else args[0]
        if isinstance(v, cx.Vec):           # element-wise on a small array / row by row
            return type(v)(absf(it, cx.LibFn(f.name), [x], {}, node) for x in v)
        return base(f.name)(it, f, args, kw, node)

    def anyall(it, f, args, kw, node):
        v = f.bound if f.bound is not None else args[0]
        rest = list(args) if f.bound is not None else list(args[1:])
        axis = kw.get('axis', rest[0] if rest else None)
        is_any = f.name.endswith('any')
        if is_rows(v):
            per_row = [anyall(it, cx.LibFn('np.any' if is_any else 'np.all'), [x], {}, node) for x in v]
            if axis in (1, -1):
                return cx.Vec(per_row)
            if axis is None:
                per_row = [cx.R(x) for x in per_row]
                return z3.Or(*per_row) if is_any else z3.And(*per_row)
            raise cx.Unsupported('np.any / np.all of the rotation factors along the direction axis')
        if axis is not None and isinstance(v, cx.NDArr):
            raise cx.Unsupported('np.any / np.all with axis= on an abstract array')
        r = base(f.name)(it, f, args, kw, node)
        if isinstance(v, cx.NDArr) and v.store.val is not None and z3.is_expr(v.store.val) and z3.is_bool(v.store.val) and z3.is_expr(r) and z3.is_bool(r):
            # the generic element is one of the elements:  b[j] => any(b),  all(b) => b[j]
            it.ctx.assume(z3.Implies(v.store.val, r) if is_any else z3.Implies(r, v.store.val))
        return r

    def maxmin(it, f, args, kw, node):
        v = f.bound if f.bound is not None else args[0]
        if isinstance(v, cx.NDArr) and not kw and len(args) == (0 if f.bound is not None else 1) and v.store.val is not None \
                and z3.is_expr(v.store.val) and z3.is_real(v.store.val):
            m = it.ctx.fresh_real('extremum_over_receivers')
            state['modelled'].add(str(m))
            # the generic element is one of the elements:  x[j] <= max(x),  min(x) <= x[j]
            it.ctx.assume(v.store.val <= m if f.name.endswith('max') else m <= v.store.val)
            return m
        return base(f.name)(it, f, args, kw, node) if f.name in prelude.TABLE else cx.Opaque(f.name + '()')

    def reshape(it, f, args, kw, node):
        v = f.bound
        shp = args[0] if len(args) == 1 and isinstance(args[0], (tuple, list)) else tuple(args)
        if is_rows(v) and tuple(shp) in ((3, -1),) and not kw:
            return v                      # (3, nrec) -> (3, nrec)
        raise cx.Unsupported('reshape of the rotation factors to something else than (3, -1)')

    def sumf(it, f, args, kw, node):
        v = f.bound if f.bound is not None else args[0]
        rest = list(args) if f.bound is not None else list(args[1:])
        axis = kw.get('axis', rest[0] if rest else None)
        if is_rows(v):
            if axis in (1, -1):
                # sum over the receivers of the call: a number about which nothing is known from the generic receiver alone
                out = cx.Vec()
                for d in 'xyz':
                    s_ = it.ctx.fresh_real('sum_over_receivers_of_factor_' + d)
                    state['modelled'].add(str(s_))
                    out.append(s_)
                return out
            if axis == 0 and all(x.store.val is not None for x in v):
                return cx.NDArr(cx.Store('sum-of-rows', v[0].store.val + v[1].store.val + v[2].store.val))
            raise cx.Unsupported('sum of the rotation factors without axis')
        return base(f.name)(it, f, args, kw, node) if f.name in prelude.TABLE else cx.Opaque(f.name + '()')

    def hasattr_(it, f, args, kw, node):
        o, name = args
        if isinstance(o, cx.NDArr) and isinstance(name, str):
            return hasattr(np.empty(0), name)        # attributes of numpy.ndarray
        return base('builtins.hasattr')(it, f, args, kw, node)
    tab = {'builtins.abs': absf, 'np.abs': absf, 'np.absolute': absf, 'np.any': anyall, 'np.all': anyall, 'ndarray.any': anyall, 'ndarray.all': anyall,
           'ndarray.max': maxmin, 'ndarray.min': maxmin, 'np.max': maxmin, 'np.min': maxmin, 'np.amax': maxmin, 'np.amin': maxmin,
           'list.reshape': reshape, 'list.sum': sumf, 'np.sum': sumf, 'builtins.hasattr': hasattr_}
    ctx.opts.setdefault('prelude', {}).update(tab)


def task_get_receiver_many():
    """fields.get_receiver called with SEVERAL receivers (tuple of coordinate arrays, the way a Simulation calls it).  The statement is about
    each point receiver: its response is the linear functional  sum_d rotation_d(azimuth_j, elevation_j) * interpolate(field_d)(position_j)
    of ITS OWN position and orientation -- whatever other receivers are sampled in the same call.  A direction may be left out of the sum for
    receiver j only if receiver j's own factor for it is negligible (|factor| <= 1e-10, the bound the single-receiver clause uses).
    Arrays are abstract with the value of the generic receiver j; the result is compared where it is not masked by the NaN policy."""
    from .cxutil import UNRECOGNISED, canary, fresh_consts
    from .c0910 import bind_call, NoBinding
    from pyvc import prelude
    col = ob.Collector(PROP, 'fields.get_receiver/many_receivers')
    col.default_replay = lambda d: ob.guarded(__import__('contracts.c0910_concrete', fromlist=['x']).check_receiver_groups, seeds=(0,))
    col.function('fields.get_receiver')
    col.trust('numpy on arrays indexed by the receiver (many-receivers scenario of get_receiver): element-wise arithmetic / abs / comparisons act on the generic '
              'element; b[j] => np.any(b), np.all(b) => b[j]; x[j] <= x.max(), x.min() <= x[j]; a[mask] = v leaves the elements outside the mask unchanged; '
              'a sum over the receivers is an unknown number; an ndarray has no attribute "coordinates"; '
              'utils.EMArray(x) (empymod) is an ndarray subclass holding the elements of x')
    ROT = {d: z3.Real('rot_' + d) for d in 'xyz'}
    INT = {d: z3.Real('interpolated_f' + d) for d in 'xyz'}
    res = []
    orig_setitem = cx.Interp.setitem

    def setitem(self, o, k, v, node=None):
        # a[mask] = NaN: the elements outside the mask keep their value -- the point-wise value of `a` from here on is the value of a generic
        # receiver that is NOT masked (what happens to the masked ones is the NaN-policy clause)
        if isinstance(o, cx.NDArr) and isinstance(k, cx.NDArr) and k.dtype == 'bool' and isinstance(v, float) and v != v and o.view == 'whole':
            prev = o.store.val
            orig_setitem(self, o, k, v, node)
            o.store.val = prev
            self.ctx.event('nan_mask', store=o.store, mask=k)
            return
        return orig_setitem(self, o, k, v, node)
    for method in ('linear', 'cubic'):
        def mk(ctx, method=method):
            log = []
            f = mk_field('field')
            coords = tuple(cx.NDArr(cx.Store('receivers.' + n, z3.Real(n))) for n in ('rx', 'ry', 'rz', 'az', 'el'))
            state = dict(f=f, coords=coords, log=log, method=method, modelled=set(), xi=[])
            unknown = lambda tag: z3.Real(f'unknown_{tag}_{len(log)}')

            def pfg(it, args, kw, node):
                xi = cx.NDArr(cx.Store('xi'))
                try:
                    b = bind_call('maps._points_from_grids', args, kw)
                    pos = b['xi']
                    if b['grid'] is f.fields['grid'] and isinstance(pos, (tuple, list)) and len(pos) == 3 and all(p is c for p, c in zip(pos, coords[:3])):
                        state['xi'].append(xi)       # the rows of xi are the positions of the receivers, in order
                except NoBinding:
                    pass
                log.append(('points', args))
                return (None, xi, cx.Opaque('shape'))

            def rotation(it, args, kw, node):
                log.append(('rotation', args, kw))
                try:
                    b = bind_call('electrodes.rotation', args, kw)
                    ok = b['azimuth'] is coords[3] and b['elevation'] is coords[4] and b.get('deg') is True
                except NoBinding:
                    ok = False
                # the factors of the generic receiver's own angles -- of unknown angles otherwise
                return RotRows(cx.NDArr(cx.Store('rotation.' + d, ROT[d] if ok else unknown('rotation_' + d))) for d in 'xyz')

            def interp(it, args, kw, node):
                log.append(('interpolate', args, kw))
                val = None
                try:
                    b = bind_call('maps.interpolate', args, kw)
                    comp = [c for c in 'xyz' if b['values'] is f.fields['f' + c]]
                    if len(comp) == 1 and b['grid'] is f.fields['grid'] and any(b['xi'] is x for x in state['xi']) and b['method'] == method \
                            and b['extrapolate'] is False and b['log'] is False:
                        val = INT[comp[0]]
                except NoBinding:
                    pass
                return cx.NDArr(cx.Store(('interp', len(log)), val if val is not None else unknown('interpolation')))
            ctx.summaries.update({'maps._points_from_grids': pfg, 'electrodes.rotation': rotation, 'maps.interpolate': interp,
                                  'utils.EMArray': lambda it, a, k, n: a[0]})
            many_receivers_prelude(ctx, state)
            return [f, coords], dict(method=method), state
        cx.Interp.setitem = setitem
        try:
            res += cx.run_function('fields.get_receiver', mk, summaries={}, opts={})
        finally:
            cx.Interp.setitem = orig_setitem
    clause(col, 'returns_normally', res, lambda r: r.outcome == 'return')
    ABS = prelude.PW['abs']
    absr = {d: z3.If(ROT[d] >= 0, ROT[d], -ROT[d]) for d in 'xyz'}
    hyps = [ABS(ROT[d]) == absr[d] for d in 'xyz']          # rotation factors are real numbers: abs is the absolute value

    def value(r):
        """point-wise value of the returned responses, or why the executor cannot give one"""
        if r.outcome != 'return':
            return None
        arr = r.value
        if isinstance(arr, cx.Opaque) and arr.tag == 'emg3d.utils.EMArray()':
            # utils.EMArray is empymod's ndarray subclass: EMArray(x) holds the elements of x (dependency contract)
            made = [e for e in r.events if e['kind'] == 'call' and e['name'] == 'opaque:emg3d.utils.EMArray']
            if made and len(made[-1]['args']) == 1 and not made[-1]['kwargs']:
                arr = made[-1]['args'][0]
        if not isinstance(arr, cx.NDArr) or arr.store.val is None or not z3.is_real(cx.R(arr.store.val)):
            return UNRECOGNISED('the returned responses are not built by element-wise arithmetic the executor can follow')
        pc = z3.And(*r.pc) if r.pc else z3.BoolVal(True)
        stray = [c for c in fresh_consts(z3.And(pc, arr.store.val == 0)) if str(c) not in r.state['modelled']]
        if stray:
            return UNRECOGNISED(f'a branch or value depends on something outside the model ({stray[0]})')
        if len([e for e in r.events if e['kind'] == 'nan_mask' and e['store'] is arr.store]) > 1:
            return UNRECOGNISED('more than one masked store into the responses')
        return cx.R(arr.store.val)

    def own(left_out_ok):
        def post(r):
            v = value(r)
            if v is None or not z3.is_expr(v):
                return v
            alts = []
            for S in itertools.product((False, True), repeat=3):
                out = [d for d, s_ in zip('xyz', S) if s_]
                if not all(left_out_ok(d) is not None for d in out):
                    continue
                alts.append(z3.And(*[left_out_ok(d) for d in out], v == sum([ROT[d] * INT[d] for d in 'xyz' if d not in out], z3.RealVal(0))))
            return z3.Or(*alts)
        return post
    import itertools
    for k, r in enumerate(res):
        col.satisfiable(f'hyps-sat/path{k}', hyps + list(r.pc))
    main = clause(col, 'response_of_each_receiver_is_the_sum_of_ITS_OWN_rotation_factors_times_the_interpolated_components__a_direction_is_left_out_only_if_its_own_factor_is_negligible',
                  res, own(lambda d: absr[d] <= NEGLIGIBLE), hyps, sample=True)
    clause(col, 'NaN_exactly_where_a_coordinate_is_below_nodes_1_or_above_nodes_minus_2', res, nan_policy)
    if main.get('status') != 'unknown':
        # (only when the clause could be stated at all: on code of an unrecognised shape there is nothing a canary could be compared with)
        canary(col, 'canary/no_direction_is_ever_left_out', res, own(lambda d: None), hyps)
        canary(col, 'canary/a_direction_is_left_out_only_if_its_factor_is_exactly_zero', res, own(lambda d: ROT[d] == 0), hyps)
    return col.pack()


def task_concrete():
    from . import c0910_concrete
    col = ob.Collector(PROP, 'concrete')
    seed = int(os.environ.get('VERIF_SEED', '0'))
    tier = os.environ.get('VERIF_TIER', 'quick')
    r = ob.guarded(c0910_concrete.check_point_vector, seeds=(seed, seed + 1) if tier == 'quick' else tuple(range(seed, seed + 6)))
    col.concrete('receiver_sampling_equals_inner_product_with_point_vector__NaN_policy', r['reproduced'] is False, r,
                 bounded='stretched 5x6x4 grid; 25 random + axis-aligned positions/angles per seed; complex and real fields; linear interpolation (stands in for SciPy RegularGridInterpolator contract)',
                 cases=r.get('cases', 0))
    r = ob.guarded(c0910_concrete.check_receiver_groups, seeds=(seed,))
    col.concrete('receivers_sampled_in_one_call_each_equal_the_inner_product_with_their_own_point_vector', r['reproduced'] is False, r,
                 bounded='stretched 5x6x4 grid; 8 groups of 2..12 receivers (equal, Cartesian, cancelling direction cosines, opposite pairs, scans, random), '
                         'as tuple of coordinate arrays and as list of Rx instances; complex and real fields; linear interpolation', cases=r.get('cases', 0))
    r = ob.guarded(c0910_concrete.check_magnetic, seeds=(seed,))
    col.concrete('magnetic_field_is_discrete_Faraday__grid_not_modified__repeatable', r['reproduced'] is False, r,
                 bounded='sequence of 6 get_magnetic_field calls on one grid with and without mu_r', cases=r.get('cases', 0))
    r = ob.guarded(c0910_concrete.check_magnetic_transpose, seeds=(seed,))
    col.concrete('magnetic_receiver_equals_inner_product_with_the_unit_magnetic_point_source_vector__frequency_and_Laplace_domain', r['reproduced'] is False, r,
                 bounded='stretched 5x6x4 grid; frequencies 1.3, 0.05 Hz and Laplace -2.0, -0.4; 3 conductivity models; 4 positions / orientations each; '
                         'against _point_vector_magnetic and against get_source_field(TxMagneticPoint) / (strength * -s mu0); linear interpolation', cases=r.get('cases', 0))
    return col.pack()


# ------------------------------------------------------------------ magnetic point source: -(C^T P^T) / (-s mu0)
class Lin(cx.Ext):
    """a matrix / vector as a formal linear combination of products of named atoms (free bilinear algebra, products do NOT commute):
    terms: {atom: coefficient}, coefficient a z3 real.  Transposition, @, + - unary minus, scaling and division by scalars are exact in this
    algebra; toarray / ravel / tocsr / todense / A1 change the container, not the entries (assumed, see ASSUMPTIONS).  The object is mutable the
    way an ndarray is (x[:] = y copies the entries, x /= s scales in place)."""

    def __init__(self, terms=None):
        self.terms = dict(terms or {})

    @staticmethod
    def atom(name):
        return Lin({name: z3.RealVal(1)})

    @staticmethod
    def t_atom(a):
        if isinstance(a, tuple) and a[0] == 'T':
            return a[1]
        if isinstance(a, tuple) and a[0] == 'MM':
            return ('MM', Lin.t_atom(a[2]), Lin.t_atom(a[1]))
        return ('T', a)

    def scaled(self, c):
        return Lin({a: z3.simplify(cx.R(v) * cx.R(c)) for a, v in self.terms.items()})

    def plus(self, other, sign=1):
        out = dict(self.terms)
        for a, v in other.terms.items():
            out[a] = z3.simplify(out[a] + sign * v) if a in out else z3.simplify(sign * v)
        return Lin(out)

    @staticmethod
    def scalar(v):
        return (isinstance(v, (int, float)) and not isinstance(v, bool)) or (cx.is_sym(v) and not z3.is_bool(v))

    def cx_getattr(self, it, attr):
        if attr == 'T':
            return Lin({Lin.t_atom(a): v for a, v in self.terms.items()})
        if attr in ('toarray', 'ravel', 'tocsr', 'tocsc', 'todense', 'flatten', 'copy', 'transpose'):
            return cx.LibFn('lin.' + attr, bound=self)
        if attr == 'A1':
            return Lin(self.terms)
        return NotImplemented

    def cx_binop(self, it, op, other, reflected):
        import ast
        if isinstance(op, ast.Mult) and Lin.scalar(other):
            return self.scaled(other)
        if isinstance(op, ast.Div) and Lin.scalar(other) and not reflected:
            return self.scaled(1 / cx.R(other))
        if isinstance(op, (ast.Add, ast.Sub)) and isinstance(other, Lin):
            if reflected:
                return other.plus(self, 1 if isinstance(op, ast.Add) else -1)
            return self.plus(other, 1 if isinstance(op, ast.Add) else -1)
        if isinstance(op, ast.MatMult) and isinstance(other, Lin):
            a, b = (other, self) if reflected else (self, other)
            out = Lin()
            for x, cxv in a.terms.items():
                for y, cyv in b.terms.items():
                    out = out.plus(Lin({('MM', x, y): z3.simplify(cxv * cyv)}))
            return out
        return NotImplemented

    def cx_unary(self, it, op):
        import ast
        if isinstance(op, ast.USub):
            return self.scaled(-1)
        if isinstance(op, ast.UAdd):
            return Lin(self.terms)
        return NotImplemented

    def cx_inplace(self, it, op, other):
        r = self.cx_binop(it, op, other, False)
        if r is NotImplemented:
            return NotImplemented
        self.terms = r.terms
        return self

    def cx_setitem(self, it, key, value):
        if key == slice(None, None, None) and isinstance(value, Lin):
            if value is not self:
                self.terms = dict(value.terms)
            return None
        return NotImplemented

    def __repr__(self):
        return f'<Lin {self.terms}>'


def _lin_method(it, f, args, kw, node):
    name = f.name.split('.', 1)[1]
    if name == 'transpose':
        return f.bound.cx_getattr(it, 'T')
    return Lin(f.bound.terms)


def task_field_smu0():
    """fields.Field.sval / smu0 in the Laplace domain (frequency < 0): s = -frequency, s mu0 = -frequency * mu_0 -- the value both the receiver side
    (get_magnetic_field) and the source side (_point_vector_magnetic, get_source_field) divide / multiply by; None without frequency.
    (frequency domain: s = 2 pi i f is complex and outside the arithmetic of the prover -- bounded check only.)"""
    col = ob.Collector(PROP, 'fields.Field.smu0')
    col.function('fields.Field.smu0')
    col.function('fields.Field.sval')
    FREQ, MU0 = z3.Real('frequency'), z3.Real('MU_0')
    out = {}
    for dom in ('laplace', 'none'):
        def mk(ctx, dom=dom):
            f = cx.Obj('Field', dict(_frequency=(FREQ if dom == 'laplace' else None), __strict__=True), mod='fields')
            return [], {}, dict(__self__=f, f=f)
        out[dom] = cx.run_function('fields.Field.smu0', mk, pc0=[FREQ < 0, MU0 > 0], summaries={}, opts={})

    def val(v):
        if isinstance(v, cx.NDArr):
            return v.store.val
        return v if cx.is_sym(v) else None
    clause(col, 'laplace_domain_s_mu0_is_minus_frequency_times_mu_0', out['laplace'],
           lambda r: r.outcome == 'return' and val(r.value) is not None and val(r.value) == -FREQ * MU0, [FREQ < 0, MU0 > 0])
    clause(col, 'no_frequency_no_s_mu0', out['none'], lambda r: r.outcome == 'return' and r.value is None)
    from .cxutil import canary
    canary(col, 'canary/laplace_domain_s_is_the_negative_frequency_itself', out['laplace'], lambda r: val(r.value) == FREQ * MU0, [FREQ < 0, MU0 > 0])
    return col.pack()


def task_point_vector_magnetic(domain):
    """fields._point_vector_magnetic(grid, coordinates, frequency), the source side of a magnetic point receiver: the vector is
    -(C^T P^T) with C = grid.edge_curl, P = sum_d rotation_d(azimuth, elevation) * grid.get_interpolation_matrix((x, y, z), 'faces_d'), divided by
    -s mu0 of a field of the given frequency (Field.smu0: s = -f in the Laplace domain) -- the factor 1/(s mu0) get_magnetic_field applies on the
    receiver side (zeta = V / (mu_r s mu0), see task_get_magnetic_field); no factor for frequency=None.  domain: 'laplace' | 'frequency' | 'none'."""
    col = ob.Collector(PROP, f'fields._point_vector_magnetic/{domain}')
    col.default_replay = lambda d: ob.guarded(__import__('contracts.c0910_concrete', fromlist=['x']).check_magnetic_transpose, seeds=(0,))
    col.function('fields._point_vector_magnetic')
    X, Y, Z, AZ, EL = z3.Reals('x y z azimuth elevation')
    ROT = z3.Reals('rot_x rot_y rot_z')
    FREQ, SMU0, MU0 = z3.Real('frequency'), z3.Real('smu0'), z3.Real('MU_0')
    pre = [MU0 > 0, SMU0 != 0] + ([FREQ < 0, SMU0 == -FREQ * MU0] if domain == 'laplace' else [FREQ > 0] if domain == 'frequency' else [])

    def mk(ctx):
        log = []

        def rotation(it, args, kw, node):
            log.append(('rotation', list(args), dict(kw)))
            return cx.Vec(list(ROT))

        def gim(it, f, args, kw, node):
            loc, typ = (list(args) + [kw.get('location_type')])[:2]
            ok = isinstance(loc, (list, tuple)) and len(loc) == 3 and all(cx.is_sym(a) and a.eq(b) for a, b in zip(loc, (X, Y, Z)))
            log.append(('interpolation_matrix', typ, ok))
            return Lin.atom(('P', typ if ok else f'{typ}@other-location#{len(log)}'))

        def field(it, args, kw, node):
            from .c0910 import bind_call
            b = bind_call('fields.Field', list(args), dict(kw))
            data = b.get('data')
            fr = b.get('frequency')
            f = cx.Obj('Field', dict(grid=b.get('grid'), _frequency=fr, frequency=fr, smu0=(SMU0 if fr is not None else None),
                                     _field=Lin(data.terms) if isinstance(data, Lin) else Lin(), __bound__=b), mod='fields')
            log.append(('Field', f))
            return f
        ctx.summaries.update({'electrodes.rotation': rotation, 'fields.Field': field})
        pl = ctx.opts.setdefault('prelude', {})
        pl['grid.get_interpolation_matrix'] = gim
        for n in ('toarray', 'ravel', 'tocsr', 'tocsc', 'todense', 'flatten', 'copy', 'transpose'):
            pl['lin.' + n] = _lin_method
        grid = cx.Obj('TensorMesh', dict(edge_curl=Lin.atom('C'), get_interpolation_matrix=cx.LibFn('grid.get_interpolation_matrix')))
        fr = None if domain == 'none' else FREQ
        return [grid, (X, Y, Z, AZ, EL), fr], {}, dict(grid=grid, freq=fr, log=log)
    res = cx.run_function('fields._point_vector_magnetic', mk, pc0=pre, summaries={}, opts={})
    clause(col, 'returns_normally', res, lambda r: r.outcome == 'return', pre)

    def vector(r):
        from .cxutil import UNRECOGNISED
        if r.outcome != 'return':
            return None
        v = r.value
        if not isinstance(v, cx.Obj) or not isinstance(v.fields.get('_field'), Lin):
            return UNRECOGNISED('what is returned is not a field holding a linear combination of curl / interpolation products')
        rot = [x for x in r.state['log'] if x[0] == 'rotation']
        from .c0910 import bind_call
        try:
            rb = [bind_call('electrodes.rotation', x[1], x[2]) for x in rot]      # positional and keyword forms are the same call
        except Exception:
            return UNRECOGNISED('a call of electrodes.rotation cannot be bound to its signature')
        if not rb or any(not (cx.is_sym(b.get('azimuth')) and b['azimuth'].eq(AZ) and cx.is_sym(b.get('elevation')) and b['elevation'].eq(EL)) for b in rb):
            return False
        if v.fields['grid'] is not r.state['grid']:
            return False
        fr = v.fields['_frequency']
        if (fr is None) != (r.state['freq'] is None) or (fr is not None and not (fr is FREQ or (cx.is_sym(fr) and fr.eq(FREQ)))):
            return False
        terms = dict(v.fields['_field'].terms)
        goal = []
        for d, rd in zip('xyz', ROT):
            c = terms.pop(('MM', ('T', 'C'), ('T', ('P', 'faces_' + d))), z3.RealVal(0))
            goal.append(c == (-rd / (-SMU0) if r.state['freq'] is not None else -rd))
        goal += [c == 0 for c in terms.values()]
        return z3.And(*goal)
    main = clause(col, 'vector_is_minus_curlT_interpolationT_of_the_rotated_face_interpolation_at_the_position__divided_by_minus_s_mu0_of_the_given_frequency',
                  res, vector, pre, sample=True)
    from .cxutil import canary
    if domain != 'none' and main.get('status') == 'proved':
        # (a deliberately wrong claim is a test of the prover only where the right claim holds: on code that divides by +s mu0 it is simply true)
        canary(col, 'canary/vector_is_divided_by_plus_s_mu0', res,
               lambda r: z3.And(*[r.value.fields['_field'].terms.get(('MM', ('T', 'C'), ('T', ('P', 'faces_' + d))), z3.RealVal(0)) == -rd / SMU0 for d, rd in zip('xyz', ROT)]), pre)
    return col.pack()



def tasks(tier):
    return [('contracts.c0910', 'task_point_source', dict(prop='C09')), ('contracts.c0910', 'task_edge_curl_factor', {}),
            ('contracts.c0910', 'task_rotation', dict(prop='C09')),
            ('contracts.c09', 'task_get_magnetic_field', {}), ('contracts.c09', 'task_get_receiver', {}), ('contracts.c09', 'task_get_receiver_many', {}),
            ('contracts.c09', 'task_point_vector', {}),
            ('contracts.c09', 'task_point_vector_magnetic', dict(domain='laplace')), ('contracts.c09', 'task_point_vector_magnetic', dict(domain='frequency')),
            ('contracts.c09', 'task_point_vector_magnetic', dict(domain='none')), ('contracts.c09', 'task_field_smu0', {}),
            ('contracts.c09', 'task_concrete', {})]


LEVEL = ('Proof over the real source: point_source computes the product of 1-D hat weights at the unique bracketing cell (symbolic grid, position), '
         '_edge_curl_factor is the volume-weighted discrete Faraday law with the C02 curl stencil, get_receiver applies the same rotation factors to the '
         'per-component interpolants and masks exactly the outermost cells -- for one receiver and, with arrays of coordinates, for every receiver of a call by its own factors -- , get_magnetic_field wires them and writes nothing of its inputs.')
ASSUMPTIONS = ['RGI: maps.interpolate(method="linear") (SciPy RegularGridInterpolator) returns the sum of hat weights times values and NaN outside (bounded concrete check only)',
               'np.where(c)[0][0] is the first index at which c holds (dependency contract)',
               'lemma P5 (reciprocity from symmetry of A and r = s^T) is a paper step over the contracts of C02 and C09',
               'magnetic point source: the formula -(C^T P^T) / (-s mu0) of _point_vector_magnetic is proved in a free (non-commutative) bilinear algebra of named matrices; that discretize edge_curl / '
               'get_interpolation_matrix(faces_d) are the transposes of the curl stencil of _edge_curl_factor and of the linear face interpolation of get_receiver is an assumed dependency contract '
               '(bounded concrete check check_magnetic_transpose); toarray / ravel / tocsr keep the entries; frequency-domain s = 2 pi i f is outside the arithmetic of the prover; cubic interpolation is not covered',
               'several receivers in one call: arrays are abstracted by the value of a generic receiver (views that permute receivers are not distinguished); '
               'receivers given as a list of Rx* instances are covered by the bounded concrete check only']
