"""Spec functions (DESIGN.md 3): ordinary polymorphic Python.  The same text is evaluated
on z3 terms by the VC generator and on floats / Fractions / complex numbers by the
concrete cross-checks and replays.  They only use + - *, `ite`, and indexing of callables.

Top-level formulas come from the property statements, not from the code:
  C02:  A e = C^T (M_f o (C e)) - M_e o e
        C     curl on faces (stencil below)
        M_f   mean of zeta = V/mu_r over the two cells sharing the face
        M_e   mean of eta_d over the four cells sharing a d-directed edge
        C^T   obtained from C by coefficient extraction (apply C to a Kronecker field)
"""
import itertools

try:
    import z3
except ImportError:       # concrete use only
    z3 = None


def is_sym(x):
    return z3 is not None and z3.is_expr(x)


def ite(c, a, b):
    if isinstance(c, bool):
        return a if c else b
    if z3 is not None and z3.is_expr(c):
        cs = z3.simplify(c)
        if z3.is_true(cs):
            return a
        if z3.is_false(cs):
            return b
        a = a if z3.is_expr(a) else z3.RealVal(a)
        b = b if z3.is_expr(b) else z3.RealVal(b)
        if z3.is_int(a) != z3.is_int(b):
            a = z3.ToReal(a) if z3.is_int(a) else a
            b = z3.ToReal(b) if z3.is_int(b) else b
        return z3.If(cs, a, b)
    return a if c else b


def eq_idx(a, b):
    """index tuple equality: python bool when decidable, else z3 Bool"""
    cs = []
    for x, y in zip(a, b):
        if is_sym(x) or is_sym(y):
            c = z3.simplify(x == y)
            if z3.is_false(c):
                return False
            if not z3.is_true(c):
                cs.append(c)
        elif x != y:
            return False
    if not cs:
        return True
    return z3.And(*cs) if len(cs) > 1 else cs[0]


def is_zero(x):
    if is_sym(x):
        s = z3.simplify(x)
        return z3.is_rational_value(s) and s.as_fraction() == 0 or (z3.is_int_value(s) and s.as_long() == 0)
    return x == 0


class Fld:
    """bundle of accessors describing one discrete problem"""

    def __init__(self, ex, ey, ez, eta_x, eta_y, eta_z, zeta, ihx, ihy, ihz):
        self.e = dict(x=ex, y=ey, z=ez)
        self.eta = dict(x=eta_x, y=eta_y, z=eta_z)
        self.zeta = zeta
        self.ih = (ihx, ihy, ihz)

    def with_e(self, ex, ey, ez):
        return Fld(ex, ey, ez, self.eta['x'], self.eta['y'], self.eta['z'], self.zeta, *self.ih)


# ------------------------------------------------------------------ curl on faces
# x-face (i node, j cell, k cell); y-face (i cell, j node, k cell); z-face (i cell, j cell, k node)
def curl(c, e, ih, i, j, k):
    ex, ey, ez = e['x'], e['y'], e['z']
    ihx, ihy, ihz = ih
    if c == 'x':
        return (ez(i, j + 1, k) - ez(i, j, k)) * ihy(j) - (ey(i, j, k + 1) - ey(i, j, k)) * ihz(k)
    if c == 'y':
        return (ex(i, j, k + 1) - ex(i, j, k)) * ihz(k) - (ez(i + 1, j, k) - ez(i, j, k)) * ihx(i)
    return (ey(i + 1, j, k) - ey(i, j, k)) * ihx(i) - (ex(i, j + 1, k) - ex(i, j, k)) * ihy(j)


def face_mass(c, zeta, i, j, k):
    """mean of zeta over the two cells sharing the face"""
    if c == 'x':
        return half(zeta(i - 1, j, k) + zeta(i, j, k))
    if c == 'y':
        return half(zeta(i, j - 1, k) + zeta(i, j, k))
    return half(zeta(i, j, k - 1) + zeta(i, j, k))


def edge_mass(c, eta, i, j, k):
    """mean of eta_c over the four cells sharing a c-directed edge"""
    if c == 'x':
        return quarter(eta(i, j - 1, k - 1) + eta(i, j - 1, k) + eta(i, j, k - 1) + eta(i, j, k))
    if c == 'y':
        return quarter(eta(i - 1, j, k - 1) + eta(i, j, k - 1) + eta(i - 1, j, k) + eta(i, j, k))
    return quarter(eta(i - 1, j - 1, k) + eta(i, j - 1, k) + eta(i - 1, j, k) + eta(i, j, k))


def scale(x, num, den):
    """exact rational multiple of a z3 term, float, complex or Fraction"""
    if is_sym(x):
        return x * z3.RealVal(f'{num}/{den}')
    from fractions import Fraction
    if isinstance(x, (Fraction, int)) and not isinstance(x, bool):
        return x * Fraction(num, den)
    return x * (num / den)


def half(x):
    return scale(x, 1, 2)


def quarter(x):
    return scale(x, 1, 4)


def kron(comp, I, one=1, zero=0):
    """Kronecker edge field: 1 on edge (comp, I), 0 elsewhere"""
    def mk(c):
        if c != comp:
            return lambda i, j, k: zero
        return lambda i, j, k: ite(eq_idx((i, j, k), I), one, zero)
    return dict(x=mk('x'), y=mk('y'), z=mk('z'))


def curlT(comp, u, ih, I, one=1, zero=0):
    """(C^T u)[comp, I] by coefficient extraction: sum over the faces F in the radius-1 window
    around I of u_F * (C delta_{comp,I})_F.  (C's stencil has radius 1 by its definition above.)"""
    d = kron(comp, I, one, zero)
    tot = zero
    for fc in 'xyz':
        for off in itertools.product((-1, 0, 1), repeat=3):
            F = tuple(a + o for a, o in zip(I, off))
            coeff = curl(fc, d, ih, *F)
            if is_zero(coeff):
                continue
            tot = tot + u[fc](*F) * coeff
    return tot


def A_spec(comp, p, I, one=1, zero=0):
    """(A e)[comp, I] = C^T (M_f o C e) - M_e o e   for an interior edge I"""
    u = {c: (lambda i, j, k, c=c: face_mass(c, p.zeta, i, j, k) * curl(c, p.e, p.ih, i, j, k)) for c in 'xyz'}
    return curlT(comp, u, p.ih, I, one, zero) - edge_mass(comp, p.eta[comp], *I) * p.e[comp](*I)


def grad(phi, ih):
    ihx, ihy, ihz = ih
    return dict(x=lambda i, j, k: (phi(i + 1, j, k) - phi(i, j, k)) * ihx(i),
                y=lambda i, j, k: (phi(i, j + 1, k) - phi(i, j, k)) * ihy(j),
                z=lambda i, j, k: (phi(i, j, k + 1) - phi(i, j, k)) * ihz(k))


# interior / range predicates for edges of component c on an nx x ny x nz cell grid
def edge_in_range(c, I, n):
    i, j, k = I
    nx, ny, nz = n
    hi = dict(x=(nx - 1, ny, nz), y=(nx, ny - 1, nz), z=(nx, ny, nz - 1))[c]
    return [0 <= i, i <= hi[0], 0 <= j, j <= hi[1], 0 <= k, k <= hi[2]]


def edge_interior(c, I, n):
    i, j, k = I
    nx, ny, nz = n
    if c == 'x':
        return [0 <= i, i <= nx - 1, 1 <= j, j <= ny - 1, 1 <= k, k <= nz - 1]
    if c == 'y':
        return [1 <= i, i <= nx - 1, 0 <= j, j <= ny - 1, 1 <= k, k <= nz - 1]
    return [1 <= i, i <= nx - 1, 1 <= j, j <= ny - 1, 0 <= k, k <= nz - 1]


def edge_shape(c, n):
    nx, ny, nz = n
    return dict(x=(nx, ny + 1, nz + 1), y=(nx + 1, ny, nz + 1), z=(nx + 1, ny + 1, nz))[c]
