"""Concrete cross-check / replay for C11: results for different worker counts (source/frequency dependent grids)."""
import os

import numpy as np


def build(seed=0):
    import emg3d
    rng = np.random.default_rng(seed)

    def mesh(n):
        h = np.ones(n) * (320.0 / n)
        return emg3d.TensorMesh([h, h, h], origin=(-160, -160, -320))
    mgrid = mesh(8)
    model = emg3d.Model(mgrid, rng.uniform(0.5, 2.0, mgrid.shape_cells))
    src = {'TxED-1': emg3d.TxElectricDipole((-45.0, 5.0, -150.0, 20, 5))}
    rec = {'RxEP-1': emg3d.RxElectricPoint((45.0, 15.0, -140.0, 0, 0)), 'RxEP-2': emg3d.RxElectricPoint((60.0, -35.0, -170.0, 30, 10))}
    survey = emg3d.Survey(sources=src, receivers=rec, frequencies={'f-0.5': 0.5, 'f-1': 1.0, 'f-0.25': 0.25}, noise_floor=1e-15, relative_error=0.05)
    # frequencies named by the user (any keys are accepted): two of the names differ only after their last dot
    freqs = list(survey.frequencies.keys())
    grids = {'TxED-1': {freqs[0]: mesh(4), freqs[1]: mesh(16), freqs[2]: mesh(8)}}     # small, large, medium
    rngd = np.random.default_rng(seed + 1)
    survey.data['observed'].data[...] = 1e-10 * (rngd.standard_normal(survey.shape) + 1j * rngd.standard_normal(survey.shape))
    return survey, model, grids


def run(survey, model, grids, workers, file_dir=None):
    import emg3d
    sim = emg3d.Simulation(survey.copy(), model, gridding='dict', gridding_opts=grids, max_workers=workers, receiver_interpolation='linear',
                           solver_opts=dict(tol=1e-5, tol_gradient=1e-3, maxit=20, verb=0), tqdm_opts=dict(disable=True), verb=-1, file_dir=file_dir)
    sim.compute()
    syn = np.asarray(sim.data.synthetic.data).copy()
    fields = {f: sim.get_efield('TxED-1', f).field.copy() for f in survey.frequencies}
    mf = float(sim.misfit)
    g = np.asarray(sim.gradient).copy()
    sim.compute()
    syn2 = np.asarray(sim.data.synthetic.data).copy()
    return syn, fields, mf, g, syn2


def _timed_task(delay, label):
    import time
    time.sleep(delay)
    return label


def order_of_process_map():
    """process_map returns the results in the order of its inputs whatever the order of completion: every backend (tqdm present / absent),
    worker counts 1 and 3, progress display on / off (output swallowed), tasks that finish in reverse order of submission"""
    import contextlib
    import io
    from emg3d import _multiprocessing as mp_
    delays = [0.6, 0.0, 0.3, 0.15]
    labels = ['a', 'b', 'c', 'd']
    saved = mp_.tqdm
    cases = 0
    try:
        for backend in ('tqdm', 'none'):
            if backend == 'none':
                mp_.tqdm = None
            elif saved is None:
                continue
            for workers in (1, 3):
                for disable in (True, False):
                    cases += 1
                    buf = io.StringIO()
                    with contextlib.redirect_stdout(buf), contextlib.redirect_stderr(buf):
                        got = mp_.process_map(_timed_task, delays, labels, max_workers=workers, disable=disable, desc='c11')
                    if list(got) != labels:
                        return dict(reproduced=True, cases=cases, clause='process_map does not return the results in input order', backend=backend,
                                    max_workers=workers, disable=disable, got=list(got), want=labels, how='contracts.c11_concrete.order_of_process_map')
    finally:
        mp_.tqdm = saved
    return dict(reproduced=False, cases=cases)


def check(tier='quick', seed=0):
    import tempfile
    r = order_of_process_map()
    if r['reproduced']:
        return r
    survey, model, grids = build(seed)
    ref = run(survey, model, grids, 1)
    cases = 1 + r['cases']
    cfgs = [(3, False), (2, True)] if tier == 'quick' else [(2, False), (3, False), (4, False), (1, True), (3, True)]
    for workers, files in cfgs:
        cases += 1
        td = tempfile.mkdtemp(prefix='c11.run.', dir=None) if files else None      # a dot in the directory name is legitimate
        try:
            got = run(survey, model, grids, workers, td)
        except Exception as e:
            return dict(reproduced=True, cases=cases, clause='computation raised', max_workers=workers, file_based=files, exception=f'{type(e).__name__}: {e}')
        finally:
            if td:
                import shutil
                shutil.rmtree(td, ignore_errors=True)
        names = ('synthetic data', 'fields', 'misfit', 'gradient', 'synthetic data after repeating the computation')
        for nm, a, b in zip(names, ref, got):
            if isinstance(a, dict):
                same = all(a[k].shape == b[k].shape and np.array_equal(a[k], b[k]) for k in a)
            else:
                same = np.shape(a) == np.shape(b) and np.array_equal(a, b, equal_nan=True)
            if not same:
                return dict(reproduced=True, cases=cases, clause=f'{nm} differ from the sequential run', max_workers=workers, file_based=files,
                            how='contracts.c11_concrete.check: gridding=dict with three different grids (small, large, medium), 1 source x 3 frequencies')
    if not np.array_equal(ref[0], ref[4], equal_nan=True):
        return dict(reproduced=True, cases=cases, clause='repeating the computation changes the synthetic data')
    r = reused_directory(survey, model, grids, ref, [1] if tier == 'quick' else [1, 3])
    cases += r.pop('cases')
    if r['reproduced']:
        return dict(r, cases=cases)
    r = updated_model(survey, model, grids, [1, 2] if tier == 'quick' else [1, 2, 3])
    cases += r.pop('cases')
    if r['reproduced']:
        return dict(r, cases=cases)
    return dict(reproduced=False, cases=cases)


def reused_directory(survey, model, grids, ref, worker_counts):
    """file-based execution in a scratch directory that an earlier simulation (same survey, same grids, ANOTHER model) has used before
    -- e.g. the previous run of the same script or the previous step of an inversion: the results must be those of the sequential
    in-memory run of the current model (`ref`); what the directory holds is not an input of the computation."""
    import shutil
    import tempfile
    import emg3d
    cases = 0
    earlier = emg3d.Model(model.grid, np.asarray(model.property_x)[::-1, :, ::-1] * 1.5)        # another model on the same grid
    for workers in worker_counts:
        cases += 1
        td = tempfile.mkdtemp(prefix='c11.reused.')
        try:
            sim0 = emg3d.Simulation(survey.copy(), earlier, gridding='dict', gridding_opts=grids, max_workers=1, receiver_interpolation='linear',
                                    solver_opts=dict(tol=1e-5, tol_gradient=1e-3, maxit=20, verb=0), tqdm_opts=dict(disable=True), verb=-1, file_dir=td)
            sim0.compute()
            _ = sim0.gradient
            left = sorted(os.listdir(td))
            got = run(survey, model, grids, workers, td)
        except Exception as e:
            return dict(reproduced=True, cases=cases, clause='computation in a re-used scratch directory raised', max_workers=workers, file_based=True,
                        exception=f'{type(e).__name__}: {e}')
        finally:
            shutil.rmtree(td, ignore_errors=True)
        names = ('synthetic data', 'fields', 'misfit', 'gradient', 'synthetic data after repeating the computation')
        for nm, a, b in zip(names, ref, got):
            if isinstance(a, dict):
                same = all(a[k].shape == b[k].shape and np.array_equal(a[k], b[k]) for k in a)
                dev = max(float(np.max(np.abs(a[k] - b[k]))) for k in a) if all(a[k].shape == b[k].shape for k in a) else None
            else:
                same = np.shape(a) == np.shape(b) and np.array_equal(a, b, equal_nan=True)
                dev = float(np.nanmax(np.abs(np.asarray(a) - np.asarray(b)))) if np.shape(a) == np.shape(b) else None
            if not same:
                return dict(reproduced=True, cases=cases, max_workers=workers, file_based=True, max_abs_deviation=dev,
                            clause=f'{nm} of a file-based run in a re-used scratch directory differ from the sequential in-memory run',
                            directory_held_before=left,
                            how='contracts.c11_concrete.reused_directory: Simulation(earlier model, file_dir=d).compute(); .gradient; then the run of the '
                                'current model with file_dir=d; reference: max_workers=1 in memory')
    return dict(reproduced=False, cases=cases)


def updated_model(survey, model, grids, worker_counts):
    """the same Simulation computed, its model edited IN PLACE (an accepted workflow: update, clean('computed'), compute again), computed again:
    for every execution setting the second results are those of a brand-new sequential simulation of the updated model -- what a task derives
    from the model (the model interpolated to its computational grid) belongs to the model as it is when the task is made"""
    import emg3d
    cases = 0
    new_values = np.asarray(model.property_x)[::-1, ::-1, :] * 1.7
    fresh = emg3d.Model(model.grid, new_values.copy())
    ref = run(survey, fresh, grids, 1)
    mgrid4 = emg3d.TensorMesh([np.ones(4) * 80.0] * 3, origin=(-160, -160, -320))
    simr = emg3d.Simulation(survey.copy(), fresh, gridding='input', gridding_opts=mgrid4, max_workers=1, receiver_interpolation='linear',
                            solver_opts=dict(tol=1e-5, tol_gradient=1e-3, maxit=20, verb=0), tqdm_opts=dict(disable=True), verb=-1)
    simr.compute()
    refs_input = (np.asarray(simr.data.synthetic.data).copy(), None, float(simr.misfit), np.asarray(simr.gradient).copy())
    for workers, gridding in [(w, g) for w in worker_counts for g in ('dict', 'input')]:
        cases += 1
        m = emg3d.Model(model.grid, np.asarray(model.property_x).copy())
        if gridding == 'input':       # one computational grid for all pairs, different from the model grid
            gopts = mgrid4
            refs = refs_input
        else:
            gopts = grids
            refs = ref
        sim = emg3d.Simulation(survey.copy(), m, gridding=gridding, gridding_opts=gopts, max_workers=workers, receiver_interpolation='linear',
                               solver_opts=dict(tol=1e-5, tol_gradient=1e-3, maxit=20, verb=0), tqdm_opts=dict(disable=True), verb=-1)
        try:
            sim.compute()
            _ = sim.gradient
            sim.model.property_x[...] = new_values
            sim.clean('computed')
            sim.compute()
            syn = np.asarray(sim.data.synthetic.data).copy()
            mf = float(sim.misfit)
            g = np.asarray(sim.gradient).copy()
        except Exception as e:
            return dict(reproduced=True, cases=cases, clause='computation after an in-place model update raised', max_workers=workers, exception=f'{type(e).__name__}: {e}')
        for nm, a, b in (('synthetic data', refs[0], syn), ('misfit', refs[2], mf), ('gradient', refs[3], g)):
            if np.shape(a) != np.shape(b) or not np.array_equal(a, b, equal_nan=True):
                return dict(reproduced=True, cases=cases, max_workers=workers, gridding=gridding,
                            clause=f'{nm} after an in-place model update and clean differ from a brand-new sequential simulation of the updated model',
                            max_abs_deviation=float(np.nanmax(np.abs(np.asarray(a) - np.asarray(b)))) if np.shape(a) == np.shape(b) else None,
                            how='contracts.c11_concrete.updated_model: compute, gradient, sim.model.property_x[...] = new values, clean(computed), compute, misfit, gradient')
    return dict(reproduced=False, cases=cases)
