"""Concrete cross-check / replay for C07: adjoint-state gradient vs central finite differences of the misfit."""
import numpy as np


def electrodes(variant):
    """sources and receivers: 'dipoles' = two electric dipoles, absolute receivers; 'loop' = a CLOSED wire loop (first electrode repeated at the
    end), a magnetic dipole and an electric dipole, with absolute and source-relative electric and magnetic receivers"""
    import emg3d
    if variant == 'dipoles':
        src = {'TxED-1': emg3d.TxElectricDipole((-40.0, 5.0, -90.0, 15, 5)), 'TxED-2': emg3d.TxElectricDipole((35.0, -10.0, -110.0, 80, -10))}
        rec = {'RxEP-1': emg3d.RxElectricPoint((10.0, 30.0, -120.0, 0, 0)), 'RxEP-2': emg3d.RxElectricPoint((-20.0, -35.0, -80.0, 45, 20)),
               'RxMP-1': emg3d.RxMagneticPoint((25.0, 15.0, -100.0, 20, 5))}
        return src, rec
    src = {'TxEW-1': emg3d.TxElectricWire([[-60.0, -40.0, -100.0], [40.0, -40.0, -95.0], [40.0, 50.0, -105.0], [-60.0, -40.0, -100.0]], strength=2.0),
           'TxMD-2': emg3d.TxMagneticDipole([[-20.0, 25.0, -125.0], [-20.0, 25.0, -65.0]], strength=3.0),
           'TxED-3': emg3d.TxElectricDipole((20.0, -10.0, -105.0, 60, 10))}
    rec = {'RxEP-1': emg3d.RxElectricPoint((-30.0, 40.0, -120.0, 30, 10)), 'RxMP-2': emg3d.RxMagneticPoint((50.0, 30.0, -15.0, 20, 5), relative=True),
           'RxEP-3': emg3d.RxElectricPoint((45.0, 25.0, 10.0, -40, 15), relative=True), 'RxMP-4': emg3d.RxMagneticPoint((60.0, -45.0, -85.0, 70, -10))}
    return src, rec


def build(seed, case, mapping, nfreq=1, variant='dipoles'):
    import emg3d
    rng = np.random.default_rng(seed)
    h = [40.0 * 1.08 ** np.abs(np.arange(8) - 3.5) for _ in range(3)]
    grid = emg3d.TensorMesh(h, origin=(-sum(h[0]) / 2, -sum(h[1]) / 2, -sum(h[2]) / 2 - 100))
    mp = getattr(emg3d.maps, 'Map' + mapping)()

    def mk(scale):
        kw = dict(property_x=mp.forward(1.0 / rng.uniform(0.7 * scale, 1.6 * scale, grid.shape_cells)), mapping=mapping)
        if case in ('VTI', 'triaxial'):
            kw['property_z'] = mp.forward(1.0 / rng.uniform(0.7 * scale, 1.6 * scale, grid.shape_cells))
        if case in ('HTI', 'triaxial'):
            kw['property_y'] = mp.forward(1.0 / rng.uniform(0.7 * scale, 1.6 * scale, grid.shape_cells))
        return emg3d.Model(grid, **kw)
    true, start = mk(1.0), mk(1.3)
    src, rec = electrodes(variant)
    survey = emg3d.Survey(sources=src, receivers=rec, frequencies=[1.0, 3.0][:nfreq], noise_floor=1e-15, relative_error=0.05)
    opts = dict(gridding='same', max_workers=1, receiver_interpolation='linear', solver_opts=dict(tol=1e-9, tol_gradient=1e-9, maxit=60, verb=0),
                tqdm_opts=dict(disable=True), verb=-1)
    s0 = emg3d.Simulation(survey, true, **opts)
    s0.compute(observed=True, add_noise=False)
    survey = s0.survey
    survey.data['observed'].data[(0, 1, 0) if variant == 'dipoles' else (2, 0, 0)] = np.nan + 1j * np.nan
    return survey, start, opts, rng


def misfit(survey, model, opts):
    import emg3d
    s = emg3d.Simulation(survey.copy(), model, **opts)
    return float(s.misfit)


def sampling_positions(seed):
    """the reported synthetic datum of every (source, receiver) is the field of that source sampled at the receiver's absolute position:
    its own coordinates, or (relative receiver) its offset from the centre of the source (source.center) -- the position at which the residual
    is back-propagated.  Positions computed here from the coordinates handed to the constructors; fields sampled with Field.get_receiver."""
    import emg3d
    survey, model, opts, rng = build(seed, 'isotropic', 'Conductivity', 1, variant='loop')
    src, rec = electrodes('loop')
    sim = emg3d.Simulation(survey.copy(), model, **opts)
    sim.compute()
    n = 0
    for sn, s_ in src.items():
        pts = np.asarray(s_.points, float)
        centre = np.array(survey.sources[sn].center, float)           # the centre the source reports
        ef = sim.get_efield(sn, 'f-1')
        hf = emg3d.fields.get_magnetic_field(sim.model, ef)
        for rn, r_ in rec.items():
            c = np.array(r_.coordinates, float)
            pos = np.r_[c[:3] + (centre if r_.relative else 0.0), c[3:]]
            fld = ef if isinstance(r_, emg3d.RxElectricPoint) else hf
            want = complex(np.squeeze(fld.get_receiver(tuple(pos), method='linear')))
            got = complex(sim.data['synthetic'].loc[sn, rn, 'f-1'].data)
            n += 1
            if not np.isfinite(want) or abs(got - want) > 1e-9 * abs(want):
                return n, dict(reproduced=True, cases=n, clause='synthetic datum == field of the source sampled at the absolute receiver position (relative receiver: offset from the '
                               'source centre), where the residual is back-propagated from', source=sn, receiver=rn, relative=bool(r_.relative),
                               source_electrodes=pts.tolist(), source_centre=centre.tolist(), position_required=pos.tolist(), datum=str(got), field_at_required_position=str(want),
                               how='contracts.c07_concrete.sampling_positions: emg3d.Simulation.compute on a stretched 8x8x8 grid; closed wire loop, magnetic dipole, electric dipole; '
                                   'absolute and relative electric / magnetic point receivers')
    return n, None


def response_slots(seed, which=None):
    """slot correspondence: with electric and magnetic receivers listed in mixed order (magnetic, electric, electric, magnetic, electric; absolute and
    source-relative) the datum reported for (source, receiver i, frequency) is the response of receiver i ITSELF -- the electric field for an electric
    receiver, the magnetic field for a magnetic one, sampled alone at its own absolute position -- for the stored field of the pair (synthetic data after
    compute) and for a field handed to Simulation._get_responses (the way jvec uses it); `which` ('stored' / 'given') restricts the check to one of the two.
    Each reference value is sampled receiver by receiver with Field.get_receiver, the types are taken from the classes handed to the Survey."""
    import emg3d
    rng = np.random.default_rng(seed)
    h = [40.0 * 1.08 ** np.abs(np.arange(8) - 3.5) for _ in range(3)]
    grid = emg3d.TensorMesh(h, origin=(-sum(h[0]) / 2, -sum(h[1]) / 2, -sum(h[2]) / 2 - 100))
    model = emg3d.Model(grid, property_x=rng.uniform(0.7, 1.6, grid.shape_cells), mapping='Resistivity')
    src = {'TxED-1': emg3d.TxElectricDipole((-40.0, 5.0, -90.0, 15, 5)), 'TxED-2': emg3d.TxElectricDipole((35.0, -10.0, -110.0, 80, -10))}
    rec = [('RxMP-1', emg3d.RxMagneticPoint, (25.0, 15.0, -100.0, 20, 5), False), ('RxEP-2', emg3d.RxElectricPoint, (30.0, 35.0, 15.0, 0, 10), True),
           ('RxEP-3', emg3d.RxElectricPoint, (-20.0, -35.0, -80.0, 45, 20), False), ('RxMP-4', emg3d.RxMagneticPoint, (-45.0, 20.0, -10.0, 70, -10), True),
           ('RxEP-5', emg3d.RxElectricPoint, (10.0, 30.0, -120.0, -30, 0), False)]
    survey = emg3d.Survey(sources=src, receivers={n: c(xyz, relative=rel) for n, c, xyz, rel in rec}, frequencies=[1.0, 3.0], noise_floor=1e-15, relative_error=0.05)
    sim = emg3d.Simulation(survey, model, gridding='same', max_workers=1, receiver_interpolation='linear', solver_opts=dict(tol=1e-7, maxit=60, verb=0),
                           tqdm_opts=dict(disable=True), verb=-1)
    sim.compute()
    n = 0
    names = list(src)
    for sn, fn in [(a, b) for a in names for b in ('f-1', 'f-2')]:
        centre = np.array(src[sn].center, float)
        other = sim.get_efield([x for x in names if x != sn][0], fn)          # a different field, handed in explicitly
        for how, ef, got_all in (('synthetic data after compute (stored field)', sim.get_efield(sn, fn), np.array(sim.data['synthetic'].loc[sn, :, fn].data)),
                                 ('Simulation._get_responses(source, frequency, efield) with a given field', other, np.array(sim._get_responses(sn, fn, other)))):
            if which is not None and which not in how:
                continue
            hf = emg3d.fields.get_magnetic_field(sim.get_model(sn, fn), ef)
            if got_all.shape != (len(rec),):
                return n, dict(reproduced=True, cases=n, clause='one datum per receiver of the survey, in survey order', source=sn, frequency=fn, what=how, shape=got_all.shape, receivers=len(rec))
            for i, (rn, cls_, xyz, rel) in enumerate(rec):
                c = np.array(xyz, float)
                pos = np.r_[c[:3] + (centre if rel else 0.0), c[3:]]
                fld = hf if cls_ is emg3d.RxMagneticPoint else ef
                want = complex(np.squeeze(fld.get_receiver(tuple(pos), method='linear')))
                got = complex(got_all[i])
                n += 1
                if not np.isfinite(want) or not abs(got - want) <= 1e-9 * abs(want):
                    slots = [j for j, (_, c2, x2, r2) in enumerate(rec) for p2 in [np.r_[np.array(x2[:3], float) + (centre if r2 else 0.0), x2[3:]]]
                             for w2 in [complex(np.squeeze((hf if c2 is emg3d.RxMagneticPoint else ef).get_receiver(tuple(p2), method='linear')))]
                             if abs(got - w2) <= 1e-9 * abs(w2)]
                    return n, dict(reproduced=True, cases=n, clause='the datum in slot i is the response of receiver i itself (field of its own type at its own absolute position)',
                                   what=how, source=sn, frequency=fn, receiver=rn, slot=i, receiver_order=[x[0] for x in rec], position_required=pos.tolist(), datum=str(got),
                                   response_of_this_receiver=str(want), datum_is_the_response_of_slots=slots,
                                   how='contracts.c07_concrete.response_slots: emg3d.Simulation on a stretched 8x8x8 grid, two electric dipoles, two frequencies, receivers listed as magnetic, '
                                       'electric (relative), electric, magnetic (relative), electric')
    return n, None


def replay_slots(seed=0, which=None):
    n, bad = response_slots(seed, which)
    return bad if bad is not None else dict(reproduced=False, cases=n)


def check(tier='quick', seed=0):
    import emg3d
    cases, bad = sampling_positions(seed)
    if bad is not None:
        return bad
    n, bad = response_slots(seed)
    cases += n
    if bad is not None:
        bad['cases'] = cases
        return bad
    cfgs = [('VTI', 'LgResistivity', 1, 'dipoles'), ('isotropic', 'Resistivity', 1, 'dipoles'), ('isotropic', 'Conductivity', 1, 'loop')] if tier == 'quick' else \
        [('isotropic', 'Resistivity', 2, 'dipoles'), ('VTI', 'LgResistivity', 1, 'dipoles'), ('HTI', 'Conductivity', 1, 'dipoles'), ('triaxial', 'LnConductivity', 1, 'dipoles'),
         ('isotropic', 'Conductivity', 1, 'loop'), ('VTI', 'LgConductivity', 1, 'loop')]
    ndir = 2 if tier == 'quick' else 6
    for case, mapping, nfreq, variant in cfgs:
        survey, model, opts, rng = build(seed, case, mapping, nfreq, variant)
        sim = emg3d.Simulation(survey.copy(), model, **opts)
        g = np.asarray(sim.gradient)
        names = ['property_x'] + (['property_y'] if case in ('HTI', 'triaxial') else []) + (['property_z'] if case in ('VTI', 'triaxial') else [])
        want_shape = ((len(names),) if len(names) > 1 else ()) + tuple(model.shape)
        if g.shape != want_shape or not np.all(np.isfinite(g)):
            return dict(reproduced=True, cases=cases, clause='gradient shape follows the anisotropy case, entries finite', case=case, shape=g.shape, want=want_shape)
        g = g.reshape((len(names),) + tuple(model.shape))
        for k in range(ndir):
            cases += 1
            d = rng.standard_normal(g.shape)
            gd = float(np.sum(g * d))
            vals = []
            for eps in (2e-3, 1e-3):
                mfs = []
                for sgn in (1, -1):
                    kw = {n: getattr(model, n) + sgn * eps * d[i] for i, n in enumerate(names)}
                    m2 = emg3d.Model(model.grid, mapping=mapping, **kw)
                    mfs.append(misfit(survey, m2, opts))
                vals.append((mfs[0] - mfs[1]) / (2 * eps))
            fd = vals[1] + (vals[1] - vals[0]) / 3.0          # Richardson (second order in the step)
            if abs(fd - gd) > 2e-3 * max(abs(fd), abs(gd), 1e-30):
                return dict(reproduced=True, cases=cases, clause='directional derivative of the misfit == <gradient, direction>', case=case, mapping=mapping, electrodes=variant,
                            finite_difference=fd, gradient_dot_direction=gd, rel=abs(fd - gd) / max(abs(fd), abs(gd)),
                            how='contracts.c07_concrete.check: emg3d.Simulation on a stretched 8x8x8 grid, 2 electric dipoles + absolute receivers (dipoles) / closed wire loop + '
                                'magnetic dipole + electric dipole with absolute and relative receivers (loop), electric+magnetic receivers, NaN datum')
    # the gradient belongs to the CURRENT data: change which data are missing after a first evaluation, on the same survey object
    survey, model, opts, rng = build(seed, 'isotropic', 'Resistivity', 1)
    sv = survey.copy()
    sim = emg3d.Simulation(sv, model, **opts)
    _ = sim.gradient
    n_finite = int(np.sum(sv.isfinite)) if hasattr(sv, 'isfinite') else 0      # a user counting the data
    obs = sv.data['observed'].data
    obs[0, 1, 0] = survey.data['synthetic'].data[0, 1, 0] * 1.1 if 'synthetic' in survey.data else 1e-12 + 1e-12j    # missing datum delivered
    obs[1, 0, 0] = np.nan + 1j * np.nan                                                                          # another one muted
    sim.clean('computed')
    g_same = np.asarray(sim.gradient).copy()
    mf_same = float(sim.misfit)
    fresh = emg3d.Simulation(sv.copy(), model, **opts)
    g_fresh = np.asarray(fresh.gradient)
    cases += 1
    if not np.all(np.isfinite(g_same)) or abs(mf_same - float(fresh.misfit)) > 1e-9 * abs(mf_same) or \
            np.abs(g_same - g_fresh).max() > 1e-6 * np.abs(g_fresh).max():
        return dict(reproduced=True, cases=cases, clause='after the set of missing data changed (same survey object, clean(computed)), misfit and gradient must be those of a fresh '
                    'simulation on the same data', finite_before=n_finite, rel_diff_gradient=float(np.abs(g_same - g_fresh).max() / np.abs(g_fresh).max()),
                    how='contracts.c07_concrete.check: gradient, then observed[0,1,0] delivered and observed[1,0,0] muted, clean, gradient again vs a fresh Simulation')
    # a survey object that went through an earlier misfit evaluation (its data hold the weights of that evaluation) and whose uncertainty
    # model was changed afterwards: whatever weights the reported misfit uses, the gradient must be the derivative of THAT reported misfit
    survey, model, opts, rng = build(seed, 'isotropic', 'Resistivity', 1)
    sv = survey.copy()
    _ = emg3d.Simulation(sv, model, **opts).misfit
    sv.relative_error = 0.2
    sv.noise_floor = 3e-15
    sim = emg3d.Simulation(sv, model, **opts)
    g = np.asarray(sim.gradient).copy()
    d = rng.standard_normal(g.shape)
    gd = float(np.sum(g * d))
    vals = []
    for eps in (2e-3, 1e-3):
        mfs = []
        for sgn in (1, -1):
            m2 = emg3d.Model(model.grid, property_x=model.property_x + sgn * eps * d, mapping='Resistivity')
            mfs.append(float(emg3d.Simulation(sv, m2, **opts).misfit))          # same survey object, same stored state
        vals.append((mfs[0] - mfs[1]) / (2 * eps))
    fd = vals[1] + (vals[1] - vals[0]) / 3.0
    cases += 1
    if abs(fd - gd) > 2e-3 * max(abs(fd), abs(gd), 1e-30):
        return dict(reproduced=True, cases=cases, clause='re-used survey whose uncertainties changed after an earlier misfit evaluation: directional derivative of the '
                    'reported misfit == <gradient, direction>', finite_difference=fd, gradient_dot_direction=gd, rel=abs(fd - gd) / max(abs(fd), abs(gd)),
                    how='contracts.c07_concrete.check: misfit once, then relative_error / noise_floor changed on the same Survey object, new Simulation on it')
    return dict(reproduced=False, cases=cases)
