"""Concrete cross-check / replay for C07: adjoint-state gradient vs central finite differences of the misfit."""
import numpy as np


def build(seed, case, mapping, nfreq=1):
    import emg3d
    rng = np.random.default_rng(seed)
    h = [40.0 * 1.08 ** np.abs(np.arange(8) - 3.5) for _ in range(3)]
    grid = emg3d.TensorMesh(h, origin=(-sum(h[0]) / 2, -sum(h[1]) / 2, -sum(h[2]) / 2 - 100))
    mp = getattr(emg3d.maps, 'Map' + mapping)()

    def mk(scale):
        kw = dict(property_x=mp.forward(1.0 / rng.uniform(0.7 * scale, 1.6 * scale, grid.shape_cells)), mapping=mapping)
        if case in ('VTI', 'triaxial'):
            kw['property_z'] = mp.forward(1.0 / rng.uniform(0.7 * scale, 1.6 * scale, grid.shape_cells))
        if case in ('HTI', 'triaxial'):
            kw['property_y'] = mp.forward(1.0 / rng.uniform(0.7 * scale, 1.6 * scale, grid.shape_cells))
        return emg3d.Model(grid, **kw)
    true, start = mk(1.0), mk(1.3)
    src = {'TxED-1': emg3d.TxElectricDipole((-40.0, 5.0, -90.0, 15, 5)), 'TxED-2': emg3d.TxElectricDipole((35.0, -10.0, -110.0, 80, -10))}
    rec = {'RxEP-1': emg3d.RxElectricPoint((10.0, 30.0, -120.0, 0, 0)), 'RxEP-2': emg3d.RxElectricPoint((-20.0, -35.0, -80.0, 45, 20)),
           'RxMP-1': emg3d.RxMagneticPoint((25.0, 15.0, -100.0, 20, 5))}
    survey = emg3d.Survey(sources=src, receivers=rec, frequencies=[1.0, 3.0][:nfreq], noise_floor=1e-15, relative_error=0.05)
    opts = dict(gridding='same', max_workers=1, receiver_interpolation='linear', solver_opts=dict(tol=1e-9, tol_gradient=1e-9, maxit=60, verb=0),
                tqdm_opts=dict(disable=True), verb=-1)
    s0 = emg3d.Simulation(survey, true, **opts)
    s0.compute(observed=True, add_noise=False)
    survey = s0.survey
    survey.data['observed'].data[0, 1, 0] = np.nan + 1j * np.nan
    return survey, start, opts, rng


def misfit(survey, model, opts):
    import emg3d
    s = emg3d.Simulation(survey.copy(), model, **opts)
    return float(s.misfit)


def check(tier='quick', seed=0):
    import emg3d
    cases = 0
    cfgs = [('VTI', 'LgResistivity', 1), ('isotropic', 'Resistivity', 1)] if tier == 'quick' else [('isotropic', 'Resistivity', 2), ('VTI', 'LgResistivity', 1), ('HTI', 'Conductivity', 1), ('triaxial', 'LnConductivity', 1)]
    ndir = 2 if tier == 'quick' else 6
    for case, mapping, nfreq in cfgs:
        survey, model, opts, rng = build(seed, case, mapping, nfreq)
        sim = emg3d.Simulation(survey.copy(), model, **opts)
        g = np.asarray(sim.gradient)
        names = ['property_x'] + (['property_y'] if case in ('HTI', 'triaxial') else []) + (['property_z'] if case in ('VTI', 'triaxial') else [])
        want_shape = ((len(names),) if len(names) > 1 else ()) + tuple(model.shape)
        if g.shape != want_shape or not np.all(np.isfinite(g)):
            return dict(reproduced=True, cases=cases, clause='gradient shape follows the anisotropy case, entries finite', case=case, shape=g.shape, want=want_shape)
        g = g.reshape((len(names),) + tuple(model.shape))
        for k in range(ndir):
            cases += 1
            d = rng.standard_normal(g.shape)
            gd = float(np.sum(g * d))
            vals = []
            for eps in (2e-3, 1e-3):
                mfs = []
                for sgn in (1, -1):
                    kw = {n: getattr(model, n) + sgn * eps * d[i] for i, n in enumerate(names)}
                    m2 = emg3d.Model(model.grid, mapping=mapping, **kw)
                    mfs.append(misfit(survey, m2, opts))
                vals.append((mfs[0] - mfs[1]) / (2 * eps))
            fd = vals[1] + (vals[1] - vals[0]) / 3.0          # Richardson (second order in the step)
            if abs(fd - gd) > 2e-3 * max(abs(fd), abs(gd), 1e-30):
                return dict(reproduced=True, cases=cases, clause='directional derivative of the misfit == <gradient, direction>', case=case, mapping=mapping,
                            finite_difference=fd, gradient_dot_direction=gd, rel=abs(fd - gd) / max(abs(fd), abs(gd)),
                            how='contracts.c07_concrete.check: emg3d.Simulation on a stretched 8x8x8 grid, 2 sources, electric+magnetic receivers, NaN datum')
    # the gradient belongs to the CURRENT data: change which data are missing after a first evaluation, on the same survey object
    survey, model, opts, rng = build(seed, 'isotropic', 'Resistivity', 1)
    sv = survey.copy()
    sim = emg3d.Simulation(sv, model, **opts)
    _ = sim.gradient
    n_finite = int(np.sum(sv.isfinite)) if hasattr(sv, 'isfinite') else 0      # a user counting the data
    obs = sv.data['observed'].data
    obs[0, 1, 0] = survey.data['synthetic'].data[0, 1, 0] * 1.1 if 'synthetic' in survey.data else 1e-12 + 1e-12j    # missing datum delivered
    obs[1, 0, 0] = np.nan + 1j * np.nan                                                                          # another one muted
    sim.clean('computed')
    g_same = np.asarray(sim.gradient).copy()
    mf_same = float(sim.misfit)
    fresh = emg3d.Simulation(sv.copy(), model, **opts)
    g_fresh = np.asarray(fresh.gradient)
    cases += 1
    if not np.all(np.isfinite(g_same)) or abs(mf_same - float(fresh.misfit)) > 1e-9 * abs(mf_same) or \
            np.abs(g_same - g_fresh).max() > 1e-6 * np.abs(g_fresh).max():
        return dict(reproduced=True, cases=cases, clause='after the set of missing data changed (same survey object, clean(computed)), misfit and gradient must be those of a fresh '
                    'simulation on the same data', finite_before=n_finite, rel_diff_gradient=float(np.abs(g_same - g_fresh).max() / np.abs(g_fresh).max()),
                    how='contracts.c07_concrete.check: gradient, then observed[0,1,0] delivered and observed[1,0,0] muted, clean, gradient again vs a fresh Simulation')
    return dict(reproduced=False, cases=cases)
