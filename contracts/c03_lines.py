"""C03 -- line smoothers core.gauss_seidel_x/_y/_z through the real core.blocks_to_amat.

Unknown ordering of a line (contract; checked against the write-back loop):
  block m of an x-line (iy,iz): ex[m,iy,iz], ey[m+1,iy-1,iz], ey[m+1,iy,iz], ez[m+1,iy,iz-1], ez[m+1,iy,iz]
  (y, z lines cyclic, see LINE); the last block (m = n-1) has the first unknown only.
Precondition PEC(e) (tangential boundary values zero) -- established by solver.solve, kept by
every kernel's frame.
"""
import z3

from pyvc import sx, ob, intake, prove
from . import spec
from .kernel_env import KEnv, ZERO, ONE
from .c03 import PROP, GS_ARGS, READONLY, e_havoc, asym, uf_names, bounds_obligations, replay_gs

AX = dict(x=0, y=1, z=2)
LINE = {
    'x': [('x', (0, 0, 0)), ('y', (1, -1, 0)), ('y', (1, 0, 0)), ('z', (1, 0, -1)), ('z', (1, 0, 0))],
    'y': [('y', (0, 0, 0)), ('x', (-1, 1, 0)), ('x', (0, 1, 0)), ('z', (0, 1, -1)), ('z', (0, 1, 0))],
    'z': [('z', (0, 0, 0)), ('x', (-1, 0, 1)), ('x', (0, 0, 1)), ('y', (0, -1, 1)), ('y', (0, 0, 1))],
}
# loop ordinals (pre-order) of the three kernels: nu, outer, inner, assembly, k-loop, write-back
POSVARS = dict(x=('iy', 'iz'), y=('ix', 'iz'), z=('ix', 'iy'))


def unknown(d, m, p, pos):
    """(component, index) of unknown p of block m on the line at position pos (dict ix/iy/iz)"""
    c, off = LINE[d][p]
    base = [pos.get('ix'), pos.get('iy'), pos.get('iz')]
    base[AX[d]] = m
    return c, tuple(b + o for b, o in zip(base, off))


def e_post_accessors(d, pos, n_d, pre, x):
    """field after write-back according to the contract's unknown map: pre[c] with the line's
    unknowns replaced by x(5 m + p)"""
    ax = AX[d]

    def mk(c):
        def f(i, j, k):
            idx = (i, j, k)
            val = pre[c](i, j, k)
            for p in range(4, -1, -1):
                cc, off = LINE[d][p]
                if cc != c:
                    continue
                b = [a - o for a, o in zip(idx, off)]          # base position
                m = b[ax]
                conds = [0 <= m, m <= (n_d - 1 if p == 0 else n_d - 2)]
                for a2, name in ((0, 'ix'), (1, 'iy'), (2, 'iz')):
                    if a2 != ax:
                        conds.append(b[a2] == pos[name])
                val = z3.If(z3.And(*conds), x(5 * m + p), val)
            return val
        return f
    return {c: mk(c) for c in 'xyz'}


def run_line(d, K, col, iback_entry, m, iters, scratch_U=None, generic_asm=False, e_bases=None, s_bases=None):
    fname = f'core.gauss_seidel_{d}'
    fn = col.function(fname)
    col.function('core.blocks_to_amat')
    params = [a.arg for a in fn.args.args]
    if params != GS_ARGS:
        raise sx.OutsideSubset(f'{fname} signature changed: {params}')
    loops = intake.loops_preorder(fn)
    if len(loops) != 6:
        raise sx.OutsideSubset(f'{fname}: expected 6 loops, found {len(loops)}')
    nu = z3.Int('nu')
    x = z3.Function('xsol', sx.I, sx.RS)
    calls = []

    def solve_handler(ex, args, node):
        amat, bvec = args
        if not isinstance(amat, sx.ArrObj) or not isinstance(bvec, sx.ArrObj):
            raise sx.OutsideSubset(f'{fname}: solve() not called with the line system arrays')
        calls.append(dict(amat=amat.st, bvec=bvec.st, amat_shape=amat.shape, bvec_shape=bvec.shape,
                          nbounds=len(ex.bounds), env=dict(ex.env)))
        bvec.st = sx.ArrState(lambda i: x(i))
        return None
    hv = e_havoc(K, 'g_') if e_bases is None else {('e' + c): (lambda ex, arr, n_it, c=c: e_bases[c]) for c in 'xyz'}
    ib = z3.Int('iback_in')
    gen_nu = dict(keep=READONLY, havoc_fn=hv, scalars={'iback': (lambda ex, n_it: (ib, [ib == iback_entry]))})
    gen_in = dict(keep=READONLY, havoc_fn=hv)

    def scratch(name):
        def f(ex, arr, n_it):
            k = next(ex.fresh)
            return [ZERO if (scratch_U is not None and q in scratch_U[name]) else z3.Real(f'{name}_in{k}_{q}')
                    for q in range(len(arr.vals))]
        return f
    asm_opts = dict(keep=READONLY + ('amat', 'bvec', 'ex', 'ey', 'ez'), havoc_fn=dict(middle=scratch('middle'), left=scratch('left')))
    if generic_asm:
        asm = ('gen', 'asm', dict(asm_opts, var=iters[0]))
    else:
        asm = ('symseq', 'asm', dict(asm_opts, vars=iters))
    wbv = z3.Int('wb')
    X = sx.Ex('core', pc=K.hyps + [nu >= 1, K.n[AX[d]] >= 3], funcs={'solve': solve_handler},
              loops={0: ('gen', 'nu', gen_nu), 1: ('gen', 'o1', gen_in), 2: ('gen', 'o2', gen_in),
                     3: asm, 5: ('sym', 'wb', dict(var=wbv, stop=True))})
    X.continue_policy = 'assume-not'       # a conditional `continue` in a sweep: see the obligation sweep/no_line_is_skipped
    args = [K.a(p) if p != 'nu' else nu for p in params]
    if s_bases is not None:
        for i, p in enumerate(params):
            if p in ('sx', 'sy', 'sz'):
                args[i] = sx.ArrObj('alt_' + p, spec.edge_shape(p[1], K.n), base=s_bases[p[1]])
    X.run_function(fn, args)
    if len(calls) != 1 or 'wb' not in X.snap:
        raise sx.OutsideSubset(f'{fname}: expected one solve() per line followed by the write-back loop')
    return X, dict(zip(params, args)), calls[0], x, wbv


def scratch_unassigned(d, K_unused, col, iback_entry=0):
    """generic assembly iteration mg+1 (mg constrained by the loop range only, all three branches of
    blocks_to_amat under guards, scratch arrays fully havocked): yields the write sets W(mg) and the
    positions of middle/left that an iteration never assigns"""
    K = KEnv(pec=True)
    K.hyps = K.hyps + [K.n[AX[d]] >= 3]
    m = z3.Int('mg')
    X, argmap, call, x, wbv = run_line(d, K, col, iback_entry, m, [m + 1], scratch_U=None, generic_asm=True)
    ent = X.snap['asm:entry']['loc']
    out = {}
    for name in ('middle', 'left'):
        now = X.snap['asm']['loc'][name]
        out[name] = {q for q in range(len(now)) if now[q] is ent[name][q]}
    pre = X.snap['asm:pre']['loc']
    zero_after_reset = all(z3.is_rational_value(z3.simplify(sx.toreal(v))) and z3.simplify(sx.toreal(v)).as_fraction() == 0
                           for name in ('middle', 'left') for v in pre[name])
    return out, zero_after_reset, X


CASES = {
    'first': lambda m, n: ([m == 0], [m + 1, m + 2], range(5)),
    'middle': lambda m, n: ([m >= 1, m <= n - 3], [m + 1, m + 2], range(5)),
    'penult': lambda m, n: ([m >= 1, m == n - 2], [m + 1, m + 2], range(5)),
    'last': lambda m, n: ([m == n - 1], [m + 1], range(1)),
}


def task_line(d, direction, case):
    col = ob.Collector(PROP, f'core.gauss_seidel_{d}/{direction}/{case}')
    K = KEnv(pec=True)
    n_d = K.n[AX[d]]
    m = z3.Int('m')
    chyps, iters, rows = CASES[case](m, n_d)
    K.hyps = K.hyps + chyps + [n_d >= 3]
    ibe = 0 if direction == 'backward' else 1
    # the preliminary generic-iteration run uses the same sweep direction: its path condition is conjoined with the main run's below
    U, zero_ok, X0 = scratch_unassigned(d, K, col, ibe)
    X, argmap, call, x, wbv = run_line(d, K, col, ibe, m, iters, scratch_U=U)
    env = call['env']
    pos = {k: env[k] for k in POSVARS[d]}
    hyps = list(X.snap['asm']['pc'])
    col.satisfiable('hyps-sat', hyps)
    # field before the write-back = field at the solve call (the assembly does not write e)
    st = X.snap['asm']['arr']
    pre = {c: (lambda i, j, k, s_=st[argmap['e' + c].uid]: s_.read([sx.R(i), sx.R(j), sx.R(k)])) for c in 'xyz'}
    post = e_post_accessors(d, pos, n_d, pre, x)
    acc0 = lambda name: (lambda *idx: argmap[name].read0(idx))
    p_ = spec.Fld(post['x'], post['y'], post['z'], acc0('eta_x'), acc0('eta_y'), acc0('eta_z'), acc0('zeta'), *K.ih())
    nr = 5 * n_d - 4
    amat_read = lambda q: call['amat'].read([sx.R(q)])
    S = z3.Solver()
    for h in hyps:
        S.add(h)

    def entailed(c):
        S.push()
        S.add(z3.Not(c))
        r = S.check()
        S.pop()
        return r == z3.unsat
    mg = z3.Int('mg')
    hy0 = list(X0.snap['asm']['pc'])
    W = {nm: [b for b in X0.bounds if b['kind'] == 'write' and b['arr'] == nm] for nm in ('amat', 'bvec')}

    def only_modelled(nm, cells):
        goals = []
        for w in W[nm]:
            g = [x_ for x_ in w['hyps'] if not any(x_.eq(h) for h in hy0)]
            for cell in cells:
                goals.append(z3.Implies(z3.And(*g, w['idx'][0] == cell), z3.Or(*[mg + 1 == it for it in iters])))
        return z3.And(*goals) if goals else z3.BoolVal(False)
    for p in rows:
        read_cells = []
        r = 5 * m + p
        lhs = call['bvec'].read([r])
        for dd in range(-5, 6):
            cidx = r + dd
            if entailed(z3.Or(cidx < 0, cidx >= nr)):
                continue
            hi, lo = (r, cidx) if dd <= 0 else (cidx, r)
            cell = hi + 5 * lo
            read_cells.append(cell)
            lhs = lhs - amat_read(cell) * x(cidx)
        c, I = unknown(d, m, p, pos)
        rhs = acc0('s' + c)(*I) - spec.A_spec(c, p_, I, ONE, ZERO)
        col.eq(f'master/p{p}', hyps, lhs, rhs, replay=replay_gs(f'gauss_seidel_{d}'), smt_sample=(p == 0 and case == 'middle'))
        col.lia(f'edge_interior/p{p}', hyps, z3.And(*spec.edge_interior(c, I, K.n)))
        col.lia(f'asm/row_p{p}_cells_written_only_by_modelled_iterations', hyps + hy0,
                z3.And(only_modelled('amat', read_cells), only_modelled('bvec', [r])))
    # every line of every sweep is relaxed: a `continue` that skips the assembly / solve / write-back of a line must never fire (otherwise the
    # line relaxed last need not be exact -- the last-iteration corollary needs every iteration to run the body)
    if case == 'middle':
        skips = list(X.skipped)
        col.lia('sweep/no_line_is_skipped', [], z3.And(*[z3.Implies(z3.And(*k['pc']), z3.Not(k['cond'])) for k in skips]) if skips else z3.BoolVal(True))
    if case == 'middle':
        # canary: without the coupling to the right neighbour block the identity must fail
        r = 5 * m
        lhs = call['bvec'].read([r])
        for dd in range(-5, 1):
            lhs = lhs - amat_read(r + 5 * (r + dd)) * x(r + dd)
        c, I = unknown(d, m, 0, pos)
        col.canary_eq('canary/no_right_coupling', hyps, lhs, acc0('s' + c)(*I) - spec.A_spec(c, p_, I, ONE, ZERO))
    # ---- justification of the two-iteration model of the assembly loop
    if case == 'middle' and direction == 'forward':
        side_conditions(d, K, col, X0, U, zero_ok, m, n_d, direction)
    # ---- write-back loop against the contract's unknown map, PEC frame
    if case == 'middle':
        writeback(d, K, col, X, argmap, call, x, wbv, pos, n_d, pre, post)
        bounds_obligations(col, X, hyps)
    return col.pack()


def side_conditions(d, K, col, X0, U, zero_ok, m, n_d, direction):
    """(S1) the assembly body never reads amat/bvec, (S2) each amat/bvec cell is written by at most one
    assembly iteration, (S3) scratch arrays: unassigned positions are zero after the reset and stay so."""
    asm_b = [b for b in X0.bounds]
    m = z3.Int('mg')      # generic assembly iteration of the preliminary run: loop variable == mg+1
    hy = [h for h in X0.snap['asm']['pc']]
    reads = [b for b in asm_b if b['kind'] == 'read' and b['arr'] in ('amat',)]
    col.lia('asm/no_read_of_amat', [], z3.BoolVal(len(reads) == 0))
    w_amat = [b for b in asm_b if b['kind'] == 'write' and b['arr'] == 'amat']
    w_bvec = [b for b in asm_b if b['kind'] == 'write' and b['arr'] == 'bvec']
    col.lia('asm/writes_exist', [], z3.BoolVal(len(w_amat) >= 29 + 15 + 5 and len(w_bvec) >= 5 + 5 + 1))
    m2 = z3.Int('m2')
    for name, ws in (('amat', w_amat), ('bvec', w_bvec)):
        goals = []
        for a in ws:
            ga = z3.And(*[g for g in a['hyps'] if not any(g.eq(h) for h in hy)] or [z3.BoolVal(True)])
            for b in ws:
                gb = z3.And(*[g for g in b['hyps'] if not any(g.eq(h) for h in hy)] or [z3.BoolVal(True)])
                gb2 = z3.substitute(gb, (m, m2))
                ib2 = z3.substitute(b['idx'][0], (m, m2))
                goals.append(z3.Implies(z3.And(ga, gb2, a['idx'][0] == ib2), m == m2))
        hy2 = hy + [z3.substitute(h, (m, m2)) for h in hy]
        col.lia(f'asm/{name}_cell_written_by_at_most_one_iteration', hy2, z3.And(*goals))
    col.lia('scratch/zero_after_reset', [], z3.BoolVal(bool(zero_ok)))
    col.lia('scratch/unassigned_positions', [], z3.BoolVal(len(U['middle']) > 0 and len(U['left']) > 0))


def writeback(d, K, col, X, argmap, call, x, wbv, pos, n_d, pre, post):
    hyps = list(X.snap['wb']['pc'])
    enames = {argmap['e' + c].name: c for c in 'xyz'}
    ws = [b for b in X.bounds[call['nbounds']:] if b['kind'] == 'write']
    col.lia('writeback/only_field_arrays_written', [], z3.BoolVal(all(w['arr'] in enames for w in ws) and len(ws) == 5))
    stw = X.snap['wb']['arr']
    for q, w in enumerate(ws):
        c = enames.get(w['arr'])
        if c is None:
            continue
        extra = [g for g in w['hyps'] if not any(g.eq(h) for h in hyps)]
        # the value written by the code at this index == the contract's e_post at this index
        written = stw[argmap['e' + c].uid].read(list(w['idx']))
        col.eq(f'writeback/store{q}_matches_unknown_map', hyps + extra, written, post[c](*w['idx']))
        col.lia(f'pec_frame/store{q}_hits_interior_edge', hyps + extra, z3.And(*spec.edge_interior(c, w['idx'], K.n)))
    # coverage: every unknown (m', p) of the contract is stored by SOME iteration of the write-back loop (witnesses tried: the loop
    # variable equal to m'+1, m', m'+2, m'-1 -- how the loop counts is the code's business)
    mp = z3.Int('mp')
    for p in range(5):
        c, I = unknown(d, mp, p, pos)
        rng = [0 <= mp, mp <= (n_d - 1 if p == 0 else n_d - 2)]
        base_h = [h for h in hyps if not uses(h, wbv)]
        alts = []
        for wit in (mp + 1, mp, mp + 2, mp - 1):
            hit = []
            for w in ws:
                if enames.get(w['arr']) != c:
                    continue
                extra = [g for g in w['hyps'] if not any(g.eq(h) for h in hyps)]
                sub = lambda t, wit=wit: z3.substitute(t, (wbv, wit))
                hit.append(z3.And(*[sub(g) for g in extra], *[sub(a) == b for a, b in zip(w['idx'], I)]))
            in_range = z3.And(*[z3.substitute(h, (wbv, wit)) for h in hyps if uses(h, wbv)])
            alts.append(z3.And(in_range, z3.Or(*hit) if hit else z3.BoolVal(False)))
        col.lia(f'writeback/unknown_p{p}_is_stored', base_h + rng, z3.Or(*alts))


def uses(t, v):
    seen = set()

    def walk(e):
        if e.get_id() in seen:
            return False
        seen.add(e.get_id())
        if e.eq(v):
            return True
        return any(walk(c) for c in e.children())
    return walk(t)


def task_line_affine(d):
    col = ob.Collector(PROP, f'core.gauss_seidel_{d}/affine')
    K = KEnv(pec=False)
    n_d = K.n[AX[d]]
    m = z3.Int('m')
    K.hyps = K.hyps + [m >= 1, m <= n_d - 3, n_d >= 3]
    t = z3.Real('t')
    F = {w: {c: z3.Function(f'{w}_e{c}', sx.I, sx.I, sx.I, sx.RS) for c in 'xyz'} for w in 'uv'}
    S = {w: {c: z3.Function(f'{w}_s{c}', sx.I, sx.I, sx.I, sx.RS) for c in 'xyz'} for w in 'uv'}

    def bases(w):
        if w in 'uv':
            return ({c: (lambda i, j, k, f=F[w][c]: f(i, j, k)) for c in 'xyz'},
                    {c: (lambda i, j, k, f=S[w][c]: f(i, j, k)) for c in 'xyz'})
        return ({c: (lambda i, j, k, c=c: t * F['u'][c](i, j, k) + (1 - t) * F['v'][c](i, j, k)) for c in 'xyz'},
                {c: (lambda i, j, k, c=c: t * S['u'][c](i, j, k) + (1 - t) * S['v'][c](i, j, k)) for c in 'xyz'})
    U, zero_ok, X0 = scratch_unassigned(d, K, col)
    res = {}
    for w in ('u', 'v', 'mix'):
        eb, sb = bases(w)
        X, argmap, call, x, wbv = run_line(d, K, col, 0, m, [m + 1, m + 2], scratch_U=U, e_bases=eb, s_bases=sb)
        res[w] = (X, call)
    hyps = res['mix'][0].snap['asm']['pc']
    for p in range(5):
        r = 5 * m + p
        col.eq(f'bvec_affine/p{p}', hyps, res['mix'][1]['bvec'].read([r]),
               t * res['u'][1]['bvec'].read([r]) + (1 - t) * res['v'][1]['bvec'].read([r]))
        for dd in range(-5, 1):
            cell = r + 5 * (r + dd)
            a = res['u'][1]['amat'].read([cell])
            names = uf_names(prove.Resolver(hyps).walk(a))
            bad = sorted(nm for nm in names if nm[:3] in ('u_e', 'u_s', 'v_e', 'v_s'))
            col.lia(f'amat_free_of_field_and_source/p{p}_d{dd}', [], z3.BoolVal(not bad))
    return col.pack()


def tasks(tier):
    t = []
    for d in 'xyz':
        for direction in ('forward', 'backward'):
            for case in CASES:
                t.append(('contracts.c03_lines', 'task_line', dict(d=d, direction=direction, case=case)))
        t.append(('contracts.c03_lines', 'task_line_affine', dict(d=d)))
    return t
