"""C05 -- grid hierarchy and V/W/F cycling are well-formed for every shape and setting.

Functions under contract (control executor, all paths, symbolic shapes/levels):
  solver._current_sc_dir, solver._current_lr_dir, solver.MGParameters._max_level (loop invariant
  with the spec function H), _semicoarsening/_linerelaxation/_solver_and_cycle, solver.multigrid
  (recursion invariant, V/W/F call structure, one sc/lr step per fine cycle).

Spec function  H(n) = 0 if n odd or n <= 2 else 1 + H(n/2)   (number of admissible halvings).
"""
import ast
import itertools
import os

import z3

from pyvc import cx, ob, intake
from .cxutil import clause, canary, coverage, pcs, mx, mn, merge_values, assigned_names

PROP = 'C05'
SC_DIRS = {0: (1, 1, 1), 1: (0, 1, 1), 2: (1, 0, 1), 3: (1, 1, 0), 4: (1, 0, 0), 5: (0, 1, 0), 6: (0, 0, 1)}
LR_DIRS = {0: (0, 0, 0), 1: (1, 0, 0), 2: (0, 1, 0), 3: (0, 0, 1), 4: (0, 1, 1), 5: (1, 0, 1), 6: (1, 1, 0), 7: (1, 1, 1)}

H = z3.Function('H', z3.IntSort(), z3.IntSort())


def can(n):
    return z3.And(n % 2 == 0, n > 2)


def H_ax(t):
    """unfolding of the spec function at term t (H >= 0 is a one-line induction: trusted spec-function fact)"""
    return [H(t) >= 0, z3.Implies(can(t), H(t) == 1 + H(t / 2)), z3.Implies(z3.Not(can(t)), H(t) == 0)]


def table(code, tab):
    """tab[code] for a symbolic code as a triple of z3 Bools"""
    if isinstance(code, int):
        return [z3.BoolVal(bool(b)) for b in tab[code]]
    out = []
    for i in range(3):
        out.append(z3.Or(*[code == k for k, v in tab.items() if v[i]]))
    return out


# ------------------------------------------------------------------ _current_sc_dir / _current_lr_dir
REPLAY_CONFIGS = [((16, 3, 3), 'F', True, -1), ((8, 3, 3), 'V', 21, -1), ((3, 16, 3), 'W', 213, -1), ((8, 8, 8), 'F', 0, -1),
                  ((12, 6, 4), 'W', 2, 1), ((2, 2, 8), 'V', True, -1), ((5, 16, 2), 'F', 312, -1)]


def log_replay(d):
    from . import c05_concrete
    return ob.guarded(c05_concrete.check, REPLAY_CONFIGS)


def task_dirs():
    col = ob.Collector(PROP, 'dirs')
    col.default_replay = log_replay
    col.function('solver._current_sc_dir')
    col.function('solver._current_lr_dir')
    m = z3.Ints('m0 m1 m2')
    sc, lr = z3.Ints('sc lr')

    def mk_sc(ctx):
        return [sc, cx.Obj('TensorMesh', dict(shape_cells=tuple(m)))], {}, {}
    pre = [sc >= 0, sc <= 3]
    res = cx.run_function('solver._current_sc_dir', mk_sc, pc0=pre)
    coverage(col, 'solver._current_sc_dir/paths_cover_precondition', res, pre)
    clause(col, 'solver._current_sc_dir/returns_normally_with_code_0..6', res,
           lambda r: r.outcome == 'return' and isinstance(r.value, int) and 0 <= r.value <= 6, pre)
    want = [sc != i + 1 for i in range(3)]
    good = [z3.And(want[i], can(m[i])) for i in range(3)]

    def post_sc(r):
        d = table(r.value, SC_DIRS)
        return z3.Implies(z3.Or(*good), z3.And(*[d[i] == good[i] for i in range(3)]))
    clause(col, 'solver._current_sc_dir/coarsens_exactly_the_halvable_wanted_directions', res, post_sc, pre, sample=True)
    canary(col, 'solver._current_sc_dir/canary/without_precondition', res,
           lambda r: z3.And(*[table(r.value, SC_DIRS)[i] == good[i] for i in range(3)]), pre)

    def mk_lr(ctx):
        return [lr, cx.Obj('TensorMesh', dict(shape_cells=tuple(m)))], {}, {}
    pre = [lr >= 0, lr <= 7] + [x >= 2 for x in m]
    res = cx.run_function('solver._current_lr_dir', mk_lr, pc0=pre)
    coverage(col, 'solver._current_lr_dir/paths_cover_precondition', res, pre)
    inp = table(lr, LR_DIRS)

    def post_lr(r):
        if r.outcome != 'return':
            return False
        d = table(r.value, LR_DIRS) if not isinstance(r.value, int) else table(r.value, LR_DIRS)
        rng = z3.And(r.value >= 0, r.value <= 7) if not isinstance(r.value, int) else z3.BoolVal(0 <= r.value <= 7)
        return z3.And(rng, *[d[i] == z3.And(inp[i], m[i] != 2) for i in range(3)])
    clause(col, 'solver._current_lr_dir/lines_minus_two_cell_directions', res, post_lr, pre, sample=True)
    clause(col, 'solver._current_lr_dir/never_a_line_along_a_two_cell_direction', res,
           lambda r: z3.And(*[z3.Implies(m[i] == 2, z3.Not(table(r.value, LR_DIRS)[i])) for i in range(3)]), pre)
    canary(col, 'solver._current_lr_dir/canary/identity', res, lambda r: r.value == lr, pre)
    return col.pack()


# ------------------------------------------------------------------ MGParameters._max_level
def max_level_loop():
    fn, _, _ = intake.func('solver.MGParameters._max_level')
    whiles = [l for l in intake.loops_preorder(fn) if isinstance(l, ast.While)]
    if len(whiles) != 1:
        raise cx.Unsupported(f'MGParameters._max_level: expected one while loop, found {len(whiles)}')
    return fn, whiles[0]


def task_max_level_loop():
    """the halving loop computes H: invariant  c + H(n) == c0 + H(n0),  variant n"""
    col = ob.Collector(PROP, 'solver.MGParameters._max_level/loop')
    col.function('solver.MGParameters._max_level')
    fn, wh = max_level_loop()
    n, n0, c, c0 = z3.Ints('n n0 c c0')
    inv = lambda cc, nn: cc + H(nn) == c0 + H(n0)
    res = []
    for i in range(3):
        res += max_level_loop_paths(wh, i, n, c)
    pre = [n >= 0]
    _max_level_loop_clauses(col, res, pre, inv, n, n0, c, c0)
    return col.pack()


def max_level_loop_paths(wh, i, n, c):
    def run(ctx):
        it = cx.Interp(ctx, 'solver')
        clevel = cx.Vec([z3.Int('k0'), z3.Int('k1'), z3.Int('k2')])
        env = dict(n=n, i=i, clevel=clevel, self=cx.Obj('MGParameters', {}, mod='solver'))
        ctx.assume(clevel[i] == c)
        t = it.truth(it.ev(wh.test, env))
        if t:
            it.exec_block(wh.body, env)
        return 'return', t, dict(env=env)
    return cx.explore(run, pc0=[n >= 0])


def _max_level_loop_clauses(col, res, pre, inv, n, n0, c, c0):
    def sel_c(st):
        return st['env']['clevel'][st['env']['i']]
    ax = lambda r: H_ax(n) + H_ax(r.state['env']['n']) if cx.is_sym(r.state['env']['n']) else H_ax(n)

    def pres(r):
        if not r.value:
            return None
        nn = r.state['env']['n']
        if not (cx.is_sym(nn) and z3.is_int(nn)):
            return False
        return z3.Implies(z3.And(inv(c, n), *ax(r)), z3.And(inv(sel_c(r.state), nn), nn >= 0))
    clause(col, 'invariant_preserved', res, pres, pre, sample=True)

    def exit_(r):
        if r.value:
            return None
        return z3.Implies(z3.And(inv(c, n), *H_ax(n)), c == c0 + H(n0))
    clause(col, 'exit_gives_number_of_halvings', res, exit_, pre)
    clause(col, 'variant_decreases_and_bounded', res,
           lambda r: (z3.And(r.state['env']['n'] < n, n > 0) if r.value else None), pre)
    clause(col, 'only_own_counter_changes', res,
           lambda r: (z3.And(*[r.state['env']['clevel'][k] == z3.Int(f'k{k}') for k in range(3) if k != r.state['env']['i']]) if r.value else None), pre)
    canary(col, 'canary/invariant_without_unfolding', res,
           lambda r: (z3.Implies(inv(c, n), inv(sel_c(r.state), r.state['env']['n'])) if r.value else None), pre)
    return col.pack()


def max_level_hook():
    """summary of the halving loop (justified by task_max_level_loop): clevel[i] += H(n)"""
    fn, wh = max_level_loop()

    def hook(it, node, env):
        if node is not wh:
            return NotImplemented
        cl, ii, nn = env['clevel'], env['i'], env['n']
        if not isinstance(ii, int):
            raise cx.Unsupported('_max_level: counter index not concrete')
        for a in H_ax(nn):
            it.ctx.assume(a)
        cl[ii] = cl[ii] + H(nn)
        env['n'] = cx.Opaque('n-after-halving')
        return True
    return hook


def clevel_spec(user, shape):
    cdir = [z3.If(user < 0, H(s), mn(user, H(s))) for s in shape]
    return cdir, [mx(*[cdir[i] for i in range(3) if SC_DIRS[s][i]]) for s in range(4)]


def task_max_level():
    col = ob.Collector(PROP, 'solver.MGParameters._max_level')
    col.default_replay = log_replay
    col.function('solver.MGParameters._max_level')
    shape = z3.Ints('n0 n1 n2')
    user = z3.Int('clevel_user')
    hook = max_level_hook()

    def mk(ctx):
        self = cx.Obj('MGParameters', dict(clevel=user, shape_cells=tuple(shape)), mod='solver')
        return [], {}, dict(__self__=self)
    pre = [user >= -1] + [s >= 0 for s in shape]
    res = cx.run_function('solver.MGParameters._max_level', mk, pc0=pre, opts=dict(loop_hook=hook))
    coverage(col, 'paths_cover', res, pre + [a for s_ in shape for a in H_ax(s_)])
    cdir, cl = clevel_spec(user, shape)
    clause(col, 'raises_iff_some_direction_has_fewer_than_two_cells', res,
           lambda r: z3.Or(*[s < 2 for s in shape]) if r.outcome == 'raise' else z3.And(*[s >= 2 for s in shape]), pre)

    def post(r):
        if r.outcome != 'return':
            return None
        v = r.state['__self__'].fields['clevel']
        if not isinstance(v, cx.Vec) or len(v) != 4:
            return False
        return z3.And(*[v[s] == cl[s] for s in range(4)])
    clause(col, 'clevel_is_max_over_pattern_of_min_user_limit_and_H', res, post, pre, sample=True)

    def header(r):
        if r.outcome != 'return':
            return None
        rep = r.state['__self__'].fields.get('_repr_clevel')
        if not isinstance(rep, dict) or not isinstance(rep.get('clevel'), cx.Vec):
            return False
        return z3.And(*[rep['clevel'][i] == cdir[i] for i in range(3)])
    clause(col, 'header_values_are_the_per_direction_levels', res, header, pre)
    canary(col, 'canary/clevel_ignores_user_limit', res,
           lambda r: (z3.And(*[r.state['__self__'].fields['clevel'][s] == mx(*[H(shape[i]) for i in range(3) if SC_DIRS[s][i]])
                              for s in range(4)]) if r.outcome == 'return' else None), pre)
    return col.pack()


# ------------------------------------------------------------------ multigrid
def mg_summaries(log):
    def residual(it, args, kw, node):
        norm = (len(args) > 3 and args[3]) or kw.get('norm', False)
        return it.ctx.fresh_real('l2') if norm else cx.Obj('Field', {}, mod='fields')

    def current_sc_dir(it, args, kw, node):
        # contract of solver._current_sc_dir (proved in task_dirs), used modularly
        sc_dir, grid = args
        m = grid.fields['shape_cells']
        r = it.ctx.fresh_int('csc')
        d = table(r, SC_DIRS)
        good = [z3.And(sc_dir != i + 1, can(m[i])) for i in range(3)]
        it.ctx.assume(z3.And(r >= 0, r <= 6, z3.Implies(z3.Or(*good), z3.And(*[d[i] == good[i] for i in range(3)]))))
        log.append(('current_sc_dir', sc_dir, m, r))
        return r

    def restriction(it, args, kw, node):
        model, sfield, res, sc_dir = args
        m = model.fields['grid'].fields['shape_cells']
        d = table(sc_dir, SC_DIRS)
        cm = tuple(z3.If(d[i], m[i] / 2, m[i]) for i in range(3))
        cmodel = cx.Obj('VolumeModel', dict(grid=cx.Obj('TensorMesh', dict(shape_cells=cm))), mod='models')
        log.append(('restriction', sc_dir, m))
        return (cmodel, cx.Obj('Field', {}, mod='fields'), cx.Obj('Field', {}, mod='fields'))

    def multigrid(it, args, kw, node):
        var = args[3]
        var.fields['l2'] = it.ctx.fresh_real('child_l2')
        return None

    def nothing(it, args, kw, node):
        return None

    def terminate(it, args, kw, node):
        return it.ctx.fresh_bool('terminate')
    return {'solver.residual': residual, 'solver.restriction': restriction, 'solver.multigrid': multigrid,
            'solver._current_sc_dir': current_sc_dir,
            'solver.smoothing': nothing, 'solver.prolongation': nothing, 'solver._print_gs_info': nothing,
            'solver._print_cycle_info': nothing, 'solver.MGParameters.cprint': nothing, 'solver._terminate': terminate}


def mk_var(ctx, cycle, sc_cycling, lr_cycling):
    cl = cx.Vec(z3.Ints('c0 c1 c2 c3'))
    sc = z3.Int('sc_dir')
    f = dict(clevel=cl, sc_dir=sc, lr_dir=z3.Int('lr_dir'), cycle=cycle, cycmax=(2 if cycle in ('F', 'W') else 1),
             maxcycle=z3.Int('maxcycle'), first_cycle=z3.Bool('first_cycle'), verb=z3.Int('verb'),
             nu_init=z3.Int('nu_init'), nu_pre=z3.Int('nu_pre'), nu_post=z3.Int('nu_post'), nu_coarse=z3.Int('nu_coarse'),
             it=z3.Int('var_it'), level_all=[], l2=z3.Real('var_l2'), l2_refe=z3.Real('l2_refe'), tol=z3.Real('tol'),
             sc_cycle=(cx.Obj('cycle', dict(seq=cx.Opaque('raw_sc_cycle'), pos=0, range=(0, 3))) if sc_cycling else False),
             lr_cycle=(cx.Obj('cycle', dict(seq=cx.Opaque('raw_lr_cycle'), pos=0, range=(0, 7))) if lr_cycling else False))
    return cx.Obj('MGParameters', f, mod='solver')


def mg_pre(level, m, cap_inf, cap):
    cl = z3.Ints('c0 c1 c2 c3')
    sc = z3.Int('sc_dir')
    hs = [H(x) for x in m]
    t = [z3.If(cap_inf, hs[i], mn(cap - level, hs[i])) for i in range(3)]
    inv = []
    for s in range(4):
        inv.append(cl[s] - level == mx(*[t[i] for i in range(3) if SC_DIRS[s][i]]))
    # INV is required for the pattern in use only
    inv_s = z3.And(*[z3.Implies(sc == s, z3.And(inv[s], level <= cl[s])) for s in range(4)])
    ax = []
    for x in m:
        ax += H_ax(x) + H_ax(x / 2)
    return [sc >= 0, sc <= 3, level >= 0, z3.Int('maxcycle') >= 1, z3.Or(cap_inf, cap >= 0), inv_s] + [x >= 2 for x in m] + ax, inv


def task_multigrid_coarse(cycle, new_cycmax):
    """level > 0: recursion invariant, bottom test, V/W/F child structure, termination variant"""
    col = ob.Collector(PROP, f'solver.multigrid/level>0/{cycle}/new_cycmax{new_cycmax}')
    col.default_replay = log_replay
    col.function('solver.multigrid')
    col.function('solver._current_sc_dir')
    level = z3.Int('level')
    m = z3.Ints('m0 m1 m2')
    cap = z3.Int('cap')
    cap_inf = z3.Bool('cap_inf')
    pre, inv = mg_pre(level, m, cap_inf, cap)
    pre = pre + [level >= 1]
    logs = {}

    def mk(ctx):
        log = []
        logs[id(ctx)] = log
        ctx.summaries.update(mg_summaries(log))
        var = mk_var(ctx, cycle, False, False)
        model = cx.Obj('VolumeModel', dict(grid=cx.Obj('TensorMesh', dict(shape_cells=tuple(m)))), mod='models')
        sf, ef = cx.Obj('Field', {}, mod='fields'), cx.Obj('Field', {}, mod='fields')
        return [model, sf, ef, var], dict(level=level, new_cycmax=new_cycmax), dict(var=var, log=log, efield=ef)
    res = cx.run_function('solver.multigrid', mk, pc0=pre, summaries={})
    coverage(col, 'paths_cover', res, pre)
    clause(col, 'returns_normally', res, lambda r: r.outcome == 'return', pre)
    cl = z3.Ints('c0 c1 c2 c3')
    sc = z3.Int('sc_dir')
    csel = cl[3]
    for s in (2, 1, 0):
        csel = z3.If(sc == s, cl[s], csel)
    bottom = level == csel

    def children(r):
        return r.calls('solver.multigrid')

    # bottom level: no restriction / child call, exactly one coarse-grid smoothing per loop pass, one pass
    clause(col, 'bottom_level_iff_no_levels_left__no_child_call', res,
           lambda r: z3.And(z3.Implies(bottom, len(children(r)) == 0), z3.Implies(z3.Not(bottom), len(children(r)) >= 1)), pre)
    clause(col, 'bottom_level_runs_exactly_one_pass', res,
           lambda r: z3.Implies(bottom, len(r.calls('solver.smoothing')) == 1), pre)
    # expected number of passes (= child calls) above the bottom:  V:1, W:2, F: new_cycmax
    want = {'V': 1, 'W': 2, 'F': new_cycmax}[cycle]
    clause(col, 'number_of_coarse_grid_visits_per_call', res,
           lambda r: z3.Implies(z3.Not(bottom), len(children(r)) == want), pre, sample=True)
    # hand-over: W: each child gets 2 (then uses var.cycmax=2 anyway); F: children get new_cycmax, new_cycmax-1, ..
    def handover(r):
        ch = children(r)
        vals = [c['kwargs'].get('new_cycmax') for c in ch]
        lv = [c['kwargs'].get('level') for c in ch]
        ok_level = z3.And(*[x == level + 1 for x in lv]) if lv else z3.BoolVal(True)
        if cycle == 'F':
            exp = [new_cycmax - k for k in range(len(ch))]
        elif cycle == 'W':
            exp = [2 - k for k in range(len(ch))]
        else:
            exp = [1 - k for k in range(len(ch))]
        return z3.And(ok_level, z3.BoolVal(all(isinstance(v, int) and v == e for v, e in zip(vals, exp))))
    clause(col, 'children_get_level_plus_one_and_remaining_cycles', res, handover, pre)
    # every child call: precondition of _current_sc_dir held, halved exactly the even>2 wanted directions,
    # child shape >= 2, INV re-established, variant decreases
    def child_inv(r, off=1):
        gs = []
        log = r.state['log']
        rest = [e for e in log if e[0] == 'restriction']
        ch = children(r)
        if len(rest) != len(ch):
            return False
        pre_calls = [e for e in log if e[0] == 'current_sc_dir']
        if len(pre_calls) != len(ch):
            return False
        for (tag, code, shp), c, pc_ in zip(rest, ch, pre_calls):
            cm = c['args'][0].fields['grid'].fields['shape_cells']
            d = table(code, SC_DIRS)
            # precondition of _current_sc_dir at the call site: some wanted direction can be halved
            gs.append(z3.Or(*[z3.And(pc_[1] != i + 1, can(pc_[2][i])) for i in range(3)]))
            gs.append(code == pc_[3] if not isinstance(code, int) else z3.BoolVal(True))
            for i in range(3):
                want_i = z3.And(sc != i + 1, can(m[i]))
                gs.append(d[i] == want_i)
                gs.append(cm[i] == z3.If(d[i], m[i] / 2, m[i]))
                gs.append(cm[i] >= 2)
                gs.append(z3.Implies(d[i], z3.And(m[i] % 2 == 0, m[i] > 2)))
            hs = [H(x) for x in cm]
            t = [z3.If(cap_inf, hs[i], mn(cap - (level + 1), hs[i])) for i in range(3)]
            for s in range(4):
                gs.append(z3.Implies(sc == s, cl[s] - (level + off) == mx(*[t[i] for i in range(3) if SC_DIRS[s][i]])))
            gs.append(z3.And(csel - (level + 1) >= 0, csel - (level + 1) < csel - level))
        return z3.And(*gs) if gs else z3.BoolVal(True)
    clause(col, 'child_call_halves_only_even_gt2_directions_and_reestablishes_invariant', res, child_inv, pre, sample=True)
    canary(col, 'canary/child_invariant_with_wrong_level', res, lambda r: child_inv(r, off=2), pre)
    # sc/lr directions are not touched below the fine grid
    clause(col, 'coarse_levels_do_not_advance_sc_lr_or_iteration_count', res,
           lambda r: z3.And(r.state['var'].fields['sc_dir'] == sc, r.state['var'].fields['lr_dir'] == z3.Int('lr_dir'),
                            r.state['var'].fields['it'] == z3.Int('var_it')), pre)
    return col.pack()


def mg_while():
    fn, _, _ = intake.func('solver.multigrid')
    whiles = [l for l in intake.loops_preorder(fn) if isinstance(l, ast.While)]
    if len(whiles) != 1:
        raise cx.Unsupported('multigrid: expected exactly one while loop')
    return fn, whiles[0]


def fine_entry_paths(cycle, verb=None):
    fn, wh = mg_while()
    m = z3.Ints('m0 m1 m2')
    sc = z3.Int('sc_dir_entry')
    pre = [sc >= 0, sc <= 3, z3.Int('maxcycle') >= 1] + [x >= 2 for x in m]

    def hook(it, node, env):
        if node is not wh:
            return NotImplemented
        raise cx._Stop(dict(env))

    def mk(ctx):
        log = []
        ctx.summaries.update(mg_summaries(log))
        var = mk_var(ctx, cycle, False, False)
        var.fields['sc_dir'] = sc
        if verb is not None:
            var.fields['verb'] = verb
        model = cx.Obj('VolumeModel', dict(grid=cx.Obj('TensorMesh', dict(shape_cells=tuple(m)))), mod='models')
        return [model, cx.Obj('Field', {}, mod='fields'), cx.Obj('Field', {}, mod='fields'), var], {}, dict(var=var)
    res = cx.run_function('solver.multigrid', mk, pc0=pre, summaries={}, opts=dict(loop_hook=hook))
    return res, pre


def task_multigrid_fine_entry(cycle):
    """level == 0, code before the loop: values of the locals the loop body depends on"""
    col = ob.Collector(PROP, f'solver.multigrid/level0/{cycle}/entry')
    col.default_replay = log_replay
    col.function('solver.multigrid')
    fn, wh = mg_while()
    m = z3.Ints('m0 m1 m2')
    cl = z3.Ints('c0 c1 c2 c3')
    sc = z3.Int('sc_dir_entry')
    pre = [sc >= 0, sc <= 3, z3.Int('maxcycle') >= 1] + [x >= 2 for x in m]

    def hook(it, node, env):
        if node is not wh:
            return NotImplemented
        raise cx._Stop(dict(env))

    def mk(ctx):
        log = []
        ctx.summaries.update(mg_summaries(log))
        var = mk_var(ctx, cycle, False, False)
        var.fields['sc_dir'] = sc
        model = cx.Obj('VolumeModel', dict(grid=cx.Obj('TensorMesh', dict(shape_cells=tuple(m)))), mod='models')
        return [model, cx.Obj('Field', {}, mod='fields'), cx.Obj('Field', {}, mod='fields'), var], {}, dict(var=var)
    res = cx.run_function('solver.multigrid', mk, pc0=pre, summaries={}, opts=dict(loop_hook=hook))
    clause(col, 'reaches_the_loop', res, lambda r: r.outcome == 'stop', pre)
    csel = cl[3]
    for s_ in (2, 1, 0):
        csel = z3.If(sc == s_, cl[s_], csel)
    vc = 2 if cycle in ('F', 'W') else 1
    clause(col, 'locals_at_loop_entry', res,
           lambda r: z3.And(r.value['level'] == 0, r.value['cyc'] == 0, r.value['it'] == 0,
                            r.value['cycmax'] == z3.If(csel == 0, 1, vc)), pre, sample=True)
    clause(col, 'pattern_and_counters_untouched_before_the_loop', res,
           lambda r: z3.And(r.state['var'].fields['sc_dir'] == sc, r.state['var'].fields['it'] == z3.Int('var_it')), pre)
    return col.pack()


def task_multigrid_fine(cycle, sc_cycling, lr_cycling):
    """level == 0: one generic fine-grid cycle (loop body from a havocked loop-carried state that
    satisfies the entry facts proved in task_multigrid_fine_entry)"""
    col = ob.Collector(PROP, f'solver.multigrid/level0/{cycle}/sc{int(sc_cycling)}lr{int(lr_cycling)}')
    col.default_replay = log_replay
    col.function('solver.multigrid')
    fn, wh = mg_while()
    m = z3.Ints('m0 m1 m2')
    cap = z3.Int('cap')
    cap_inf = z3.Bool('cap_inf')
    cl = z3.Ints('c0 c1 c2 c3')
    hs = [H(x) for x in m]
    t = [z3.If(cap_inf, hs[i], mn(cap, hs[i])) for i in range(3)]
    inv0 = [cl[s] == mx(*[t[i] for i in range(3) if SC_DIRS[s][i]]) for s in range(4)]   # from _max_level
    ax = []
    for x in m:
        ax += H_ax(x) + H_ax(x / 2)
    scg = z3.Int('sc_dir')             # pattern at the start of this fine-grid cycle

    def sel(code):
        r_ = cl[3]
        for s_ in (2, 1, 0):
            r_ = z3.If(code == s_, cl[s_], r_)
        return r_
    csel = sel(scg)
    vc = 2 if cycle in ('F', 'W') else 1
    cycmax = z3.Int('cycmax')
    # loop invariant (established by the entry facts, re-established by every cycle, clause below):
    # cycmax is the cycle budget of the pattern that is current
    cyc_inv = lambda cm, code: cm == z3.If(sel(code) == 0, 1, vc)
    pre = [scg >= 0, scg <= 3, z3.Int('maxcycle') >= 1, z3.Or(cap_inf, cap >= 0)] + \
        ([cyc_inv(cycmax, scg)] if cycle == 'F' else []) + inv0 + [x >= 2 for x in m] + ax
    itv = z3.Int('it')
    pre.append(itv >= 0)

    # locals at loop entry: merged over all paths of the code before the loop (its facts are proved in
    # task_multigrid_fine_entry); names assigned inside the loop are loop-carried and havocked below
    resA, preA = fine_entry_paths(cycle)
    resA = [r for r in resA if r.outcome == 'stop']
    if not resA:
        raise cx.Unsupported('multigrid: loop not reached at level 0')
    carried = assigned_names(wh.body)
    sc0 = z3.Int('sc_dir_entry')
    entry_env = {}
    for name in resA[0].value:
        if name in ('model', 'sfield', 'efield', 'var', 'kwargs') or name in carried:
            continue
        v = merge_values(resA, lambda r, name=name: r.value.get(name))
        entry_env[name] = v if v is not None else cx.Opaque('entry-' + name)
    pre = pre + [sc0 >= 0, sc0 <= 3]
    if not sc_cycling:
        pre.append(scg == sc0)          # a fixed pattern never changes (clause fixed_pattern_stays)

    def run(ctx):
        log = []
        ctx.summaries.update(mg_summaries(log))
        it = cx.Interp(ctx, 'solver')
        var = mk_var(ctx, cycle, sc_cycling, lr_cycling)
        model = cx.Obj('VolumeModel', dict(grid=cx.Obj('TensorMesh', dict(shape_cells=tuple(m)))), mod='models')
        sf, ef = cx.Obj('Field', {}, mod='fields'), cx.Obj('Field', {}, mod='fields')
        env = dict(entry_env)
        env.update(model=model, sfield=sf, efield=ef, var=var, kwargs={})
        for name in sorted(carried):
            env[name] = {'it': itv, 'cycmax': cycmax, 'cyc': 0}.get(name, None)
            if env[name] is None:
                env[name] = ctx.fresh_real(name) if name.startswith('l2') else cx.Opaque('carried-' + name)
        if 'l2_stag' not in carried:
            env['l2_stag'] = cx.NDArr(cx.Store('l2_stag'))
        if 'cycmax' not in carried:
            # not re-assigned in the loop: the entry value is what every cycle sees
            pass
        state = dict(var=var, log=log, env=env, broke=False, entered=False)
        try:
            if it.truth(it.ev(wh.test, env)):
                state['entered'] = True
                try:
                    it.exec_block(wh.body, env)
                except cx._Break:
                    state['broke'] = True
        except cx._Raise as r:
            return 'raise', r.exc, state
        return 'return', None, state
    res = cx.explore(run, pc0=pre, summaries={})
    coverage(col, 'paths_cover', res, pre)
    clause(col, 'loop_always_entered_on_the_fine_grid_and_body_returns_normally', res,
           lambda r: r.outcome == 'return' and r.state['entered'], pre)
    bottom = csel == 0

    def kids(r):
        return r.calls('solver.multigrid')
    # the bottom test of every cycle uses the pattern that is current in that cycle
    clause(col, 'each_cycle_recurses_iff_levels_left_for_the_current_pattern', res,
           lambda r: z3.And(z3.Implies(bottom, len(kids(r)) == 0), z3.Implies(z3.Not(bottom), len(kids(r)) == 1)), pre, sample=True)

    def child_ok(r):
        gs = []
        rest = [e for e in r.state['log'] if e[0] == 'restriction']
        pre_calls = [e for e in r.state['log'] if e[0] == 'current_sc_dir']
        ch = kids(r)
        if len(rest) != len(ch) or len(pre_calls) != len(ch):
            return False
        for (tag, code, shp), c, pc_ in zip(rest, ch, pre_calls):
            cm = c['args'][0].fields['grid'].fields['shape_cells']
            d = table(code, SC_DIRS)
            gs.append(c['kwargs'].get('level') == 1)
            gs.append(z3.Or(*[z3.And(pc_[1] != i + 1, can(pc_[2][i])) for i in range(3)]))
            for i in range(3):
                gs.append(d[i] == z3.And(scg != i + 1, can(m[i])))
                gs.append(cm[i] >= 2)
            hs2 = [H(x) for x in cm]
            t2 = [z3.If(cap_inf, hs2[i], mn(cap - 1, hs2[i])) for i in range(3)]
            for s in range(4):
                gs.append(z3.Implies(scg == s, z3.And(cl[s] - 1 == mx(*[t2[i] for i in range(3) if SC_DIRS[s][i]]), 1 <= cl[s])))
        return z3.And(*gs) if gs else z3.BoolVal(True)
    clause(col, 'child_call_establishes_invariant_at_level_1', res, child_ok, pre)
    # documented cycle type on the fine grid: every cycle hands the full budget to level 1
    # (only an F-cycle reads the handed-over budget; V and W use var.cycmax on every level)
    if cycle == 'F':
        def budget(r):
            ch = kids(r)
            return z3.And(*[c['kwargs'].get('new_cycmax') == 2 for c in ch]) if ch else z3.BoolVal(True)
        clause(col, 'fine_cycle_hands_full_F_cycle_budget_to_level_1', res, budget, pre)

    # one sc / lr step per fine-grid cycle, after the residual was recomputed
    def advance(r):
        ev = r.events
        nx_ = [e for e in ev if e['kind'] == 'next']
        sc_n = [e for e in nx_ if e['obj'] is r.state['var'].fields['sc_cycle']]
        lr_n = [e for e in nx_ if e['obj'] is r.state['var'].fields['lr_cycle']]
        ok = len(sc_n) == (1 if sc_cycling else 0) and len(lr_n) == (1 if lr_cycling else 0)
        last_res = max([k for k, e in enumerate(ev) if e['kind'] == 'call' and e['name'] == 'solver.residual'], default=-1)
        writers = [k for k, e in enumerate(ev) if e['kind'] == 'call' and e['name'] in ('solver.smoothing', 'solver.prolongation', 'solver.multigrid')]
        nexts = [k for k, e in enumerate(ev) if e['kind'] == 'next']
        return ok and last_res >= 0 and all(w < last_res for w in writers) and all(k > last_res for k in nexts)
    clause(col, 'sc_and_lr_advance_exactly_once_per_fine_cycle_after_the_residual', res, advance, pre)
    clause(col, 'iteration_counters_advance_by_one', res,
           lambda r: z3.And(r.state['var'].fields['it'] == z3.Int('var_it') + 1, r.state['env']['it'] == itv + 1,
                            r.state['env']['cyc'] == 0), pre)

    def reest(r):
        nsc = r.state['var'].fields['sc_dir']
        if not cx.is_sym(nsc):
            return False
        # the next pattern is some element of the (validated) pattern cycle: 0..3
        return z3.Implies(z3.And(nsc >= 0, nsc <= 3), cyc_inv(r.state['env']['cycmax'], nsc))
    d = clause(col, 'cycle_budget_invariant_reestablished_for_the_next_pattern', res, reest, pre) if cycle == 'F' else {'status': ''}
    if d['status'] == 'refuted':
        from . import c05_concrete
        d['replay'] = ob.guarded(c05_concrete.check, [((16, 3, 3), 'F', True, -1), ((16, 3, 3), 'F', 12, -1), ((3, 16, 3), 'F', 213, -1)])
    if not sc_cycling:
        clause(col, 'fixed_pattern_stays', res, lambda r: r.state['var'].fields['sc_dir'] == scg, pre)
    clause(col, 'smoothing_uses_the_current_line_direction', res,
           lambda r: all(c['args'][4] is not None for c in r.calls('solver.smoothing')), pre)
    return col.pack()


def task_params():
    """_semicoarsening / _linerelaxation / _solver_and_cycle: cycle arrays, first direction, cycmax, maxcycle"""
    col = ob.Collector(PROP, 'solver.MGParameters/setup')
    for f in ('_semicoarsening', '_linerelaxation', '_solver_and_cycle'):
        col.function(f'solver.MGParameters.{f}')
    # enumerated inputs are literal (finite): True, single digits, multi-digit patterns
    sc_inputs = [True, False, 0, 1, 2, 3, 12, 123, 312, 21, 1213, 33]
    lr_inputs = [True, False, 0, 1, 2, 3, 4, 5, 6, 7, 45, 567, 1234567, 74]
    oks = []
    for kind, inputs, hi, meth in (('sc', sc_inputs, 3, '_semicoarsening'), ('lr', lr_inputs, 7, '_linerelaxation')):
        for v in inputs:
            def mk(ctx, v=v):
                f = {'semicoarsening' if kind == 'sc' else 'linerelaxation': v}
                return [], {}, dict(__self__=cx.Obj('MGParameters', f, mod='solver'))
            res = cx.run_function(f'solver.MGParameters.{meth}', mk)
            want = ([1, 2, 3] if kind == 'sc' else [4, 5, 6]) if v is True else ([int(c) for c in str(abs(int(v)))])
            for r in res:
                o = r.state['__self__'].fields
                cyc = o.get(f'{kind}_cycle')
                raw = o.get(f'raw_{kind}_cycle')
                ok = r.outcome == 'return' and list(raw) == want and o.get(f'{kind}_dir') == want[0]
                if len(want) > 1 or v is True:
                    ok = ok and isinstance(cyc, cx.Obj) and cyc.cls == 'cycle' and list(cyc.fields['seq']) == want and cyc.fields['pos'] == 1
                else:
                    ok = ok and cyc is False
                oks.append(ok)
                if not ok:
                    col.lia(f'{meth}/input_{v}', [], z3.BoolVal(False))
    col.lia('cycle_arrays_first_direction_and_iterators_for_literal_inputs', [], z3.BoolVal(all(oks) and len(oks) >= 26))
    # out-of-range digits are rejected
    bad = []
    for kind, v, meth in (('sc', 14, '_semicoarsening'), ('lr', 18, '_linerelaxation'), ('sc', 4, '_semicoarsening'), ('lr', 9, '_linerelaxation')):
        def mk(ctx, v=v, kind=kind):
            f = {'semicoarsening' if kind == 'sc' else 'linerelaxation': v}
            return [], {}, dict(__self__=cx.Obj('MGParameters', f, mod='solver'))
        res = cx.run_function(f'solver.MGParameters.{meth}', mk)
        bad.append(all(r.outcome == 'raise' and r.value.typ == 'ValueError' for r in res))
    col.lia('digits_outside_range_raise_ValueError', [], z3.BoolVal(all(bad)))
    # _solver_and_cycle
    oks = []
    for cyc, ssl in itertools.product(['F', 'V', 'W', None], [False, True, 'bicgstab', 'cgs', 'gcrotmk']):
        def mk(ctx, cyc=cyc, ssl=ssl):
            f = dict(cycle=cyc, sslsolver=ssl, maxit=z3.Int('maxit'), raw_sc_cycle=cx.Vec([1, 2, 3]), raw_lr_cycle=cx.Vec([4, 5]))
            return [], {}, dict(__self__=cx.Obj('MGParameters', f, mod='solver'))
        res = cx.run_function('solver.MGParameters._solver_and_cycle', mk)
        for r in res:
            o = r.state['__self__'].fields
            if cyc is None and not ssl:
                oks.append(r.outcome == 'raise')
                continue
            ok = r.outcome == 'return' and o['cycmax'] == (2 if cyc in ('F', 'W') else 1) and o['maxcycle'] == 3
            ok = ok and (o['sslsolver'] == ('bicgstab' if ssl is True else ssl))
            oks.append(ok)
    col.lia('cycmax_2_for_F_and_W_else_1__maxcycle_is_longest_pattern', [], z3.BoolVal(all(oks) and len(oks) >= 20))
    return col.pack()


def task_concrete():
    """bounded cross-check: H / clevel spec against the real MGParameters for all shapes n <= 40 (single direction up to 1024)"""
    from emg3d import solver as S
    col = ob.Collector(PROP, 'concrete')

    def Hc(n):
        k = 0
        while n % 2 == 0 and n > 2:
            n //= 2
            k += 1
        return k
    tier = os.environ.get('VERIF_TIER', 'quick')
    # _current_lr_dir / _current_sc_dir on the real functions, exhaustively for small shapes: the adapted code relaxes / coarsens exactly the
    # wanted directions that can be relaxed (more than two cells) / halved (even, more than two cells)
    import types
    LR = {0: '', 1: 'x', 2: 'y', 3: 'z', 4: 'yz', 5: 'xz', 6: 'xy', 7: 'xyz'}
    SC = {0: 'xyz', 1: 'yz', 2: 'xz', 3: 'xy', 4: 'x', 5: 'y', 6: 'z'}
    dbad, dcases = None, 0
    for shp in itertools.product((2, 3, 4, 5, 6, 8), repeat=3):
        g = types.SimpleNamespace(shape_cells=shp)
        for lr in range(8):
            dcases += 1
            got = int(S._current_lr_dir(lr, g))
            want = ''.join(d for d in LR[lr] if shp['xyz'.index(d)] != 2)
            if LR.get(got) != want and dbad is None:
                dbad = dict(function='_current_lr_dir', shape=shp, lr_dir=lr, got=got, relaxes=LR.get(got), expected_lines=want)
        for sc in range(4):
            dcases += 1
            got = int(S._current_sc_dir(sc, g))
            want = ''.join(d for d in SC[sc] if shp['xyz'.index(d)] % 2 == 0 and shp['xyz'.index(d)] > 2)
            if want and SC.get(got) != want and dbad is None:
                dbad = dict(function='_current_sc_dir', shape=shp, sc_dir=sc, got=got, coarsens=SC.get(got), expected=want)
    col.concrete('adapted_directions_on_the_real_functions_for_all_small_shapes', dbad is None, dbad or {}, bounded='shapes {2,3,4,5,6,8}^3 x lr_dir 0..7 / sc_dir 0..3',
                 cases=dcases)
    N = 40 if tier != 'quick' else 18
    bad = None
    cases = 0
    rng = list(range(2, N + 1))
    for nx in rng:
        for ny in (rng if tier != 'quick' else rng[::3]):
            for nz in (rng if tier != 'quick' else rng[::5]):
                for user in (-1, 0, 1, 2, 5):
                    cases += 1
                    var = S.MGParameters(cycle='F', sslsolver=False, semicoarsening=0, linerelaxation=0, shape_cells=(nx, ny, nz),
                                         verb=0, clevel=user)
                    hs = [Hc(n) if user < 0 else min(user, Hc(n)) for n in (nx, ny, nz)]
                    want = [max(hs[i] for i in range(3) if SC_DIRS[s][i]) for s in range(4)]
                    if list(var.clevel) != want:
                        bad = dict(shape=(nx, ny, nz), clevel=user, got=[int(v) for v in var.clevel], want=want)
                        break
                if bad:
                    break
            if bad:
                break
        if bad:
            break
    if not bad:
        for n in range(2, 1025):
            cases += 1
            var = S.MGParameters(cycle='F', sslsolver=False, semicoarsening=0, linerelaxation=0, shape_cells=(n, 2, 2), verb=0)
            if int(var.clevel[0]) != Hc(n):
                bad = dict(shape=(n, 2, 2), got=int(var.clevel[0]), want=Hc(n))
                break
    col.concrete('MGParameters_clevel_matches_spec_H', bad is None, bad or dict(cases=cases),
                 bounded=f'all shapes 2..{N} (quick: strided) x clevel in (-1,0,1,2,5); single direction n<=1024', cases=cases)
    from . import c05_concrete
    cfg = list(c05_concrete.QUICK)
    if tier != 'quick':
        for shp in ((4, 4, 4), (16, 16, 16), (6, 12, 24), (10, 20, 8), (2, 2, 8), (8, 3, 3), (3, 3, 16), (32, 2, 4)):
            for cyc in 'FVW':
                for sc in (0, 1, 2, 3, True, 21, 312):
                    cfg.append((shp, cyc, sc, -1))
            cfg.append((shp, 'F', True, 1))
    r = ob.guarded(c05_concrete.check, cfg)
    col.concrete('solver_log_level_sequence_matches_documented_cycle', r['reproduced'] is False, r,
                 bounded=f'{len(cfg)} (shape, cycle, semicoarsening, clevel) configurations, 3 fine cycles each, verb=5 log', cases=r['cases'])
    r = ob.guarded(c05_concrete.check_preconditioner_directions)
    col.concrete('directions_advance_cyclically_across_the_calls_of_multigrid_as_preconditioner', r['reproduced'] is False, r,
                 bounded='16^3 grid, bicgstab + multigrid, F and V cycles, pattern pairs (12, True), (True, 47), (102, 4567); recorded at solver.restriction / solver.smoothing on the fine grid',
                 cases=r.get('cases', 0))
    return col.pack()


def tasks(tier):
    t = [('contracts.c05', 'task_dirs', {}), ('contracts.c05', 'task_max_level_loop', {}),
         ('contracts.c05', 'task_max_level', {}), ('contracts.c05', 'task_params', {}),
         ('contracts.c05', 'task_concrete', {})]
    for cyc in ('V', 'W', 'F'):
        for ncm in ((1, 2) if cyc == 'F' else ((2,) if cyc == 'W' else (1,))):
            t.append(('contracts.c05', 'task_multigrid_coarse', dict(cycle=cyc, new_cycmax=ncm)))
        t.append(('contracts.c05', 'task_multigrid_fine_entry', dict(cycle=cyc)))
        for scc, lrc in ((False, False), (True, True), (True, False)):
            t.append(('contracts.c05', 'task_multigrid_fine', dict(cycle=cyc, sc_cycling=scc, lr_cycling=lrc)))
    # multigrid as pre-conditioner: krylov() and its wrapper write nothing of the cycling state (exploration of contracts/c01.py, that clause only)
    t += [('contracts.c01', 'task_krylov', dict(cycle='F', prop=PROP)), ('contracts.c01', 'task_krylov', dict(cycle='V', prop=PROP))]
    return t


LEVEL = ('Deductive proof over the real source of the cycling control code: all paths of _current_sc_dir/_current_lr_dir, '
         '_max_level (loop invariant with the spec function H), the parameter set-up methods, and solver.multigrid '
         '(recursion invariant "levels left = max remaining halvings", V/W/F call structure at a symbolic level > 0, '
         'one generic fine-grid cycle at level 0) -- symbolic shapes, levels and limits, so unbounded in n.')
ASSUMPTIONS = ['spec-function fact H(n) >= 0 and its unfolding (one-line induction, trusted)',
               'callee summaries used while verifying multigrid: residual/smoothing/prolongation/_print_* do not touch var.sc_dir, var.lr_dir, var.it, var.clevel (checked syntactically in C01 frames); restriction halves the shape in exactly the directions of the pattern (C04-R6)',
               'itertools.cycle / next: dependency contract',
               'level sequence pictures (V/W/F) follow from the proved call structure by induction on depth (paper step)']
