"""C11 -- survey results do not depend on worker count, scheduling or file-based mode (slot correspondence).

(a) _multiprocessing.process_map: in each of its four branches the result is [fn(*a) for a in zip(*iterables)] in input
    order -- from the dependency contracts of Executor.map, tqdm.contrib.concurrent.process_map, map and tqdm(iterable=..).
(b) Simulation._compute / _bcompute / jvec: the task list is built from the source-frequency list in order, and the i-th
    result is stored in the slot of the i-th pair: slot (src,freq) holds the result of its own task (three pairs).
(c) _multiprocessing.solve: forwards model (interpolated to the task's grid), start field and solver options of ITS task and
    returns (efield, info).
(d) file-based execution ("fields exchanged through files"), over an abstract scratch directory (ScratchDir) that is either fresh
    or holds under EVERY name what an earlier simulation with another model may have left there:
    _multiprocessing.solve given the name of a task file makes the solver call it makes for the task the file holds (start field
    None stays None), reads its own task file and no other file, returns files that hold field and info of its own solver call,
    writes no task file, and two task files have disjoint result files;
    end to end Simulation._data_or_file -> _multiprocessing.solve -> Simulation._load for two tasks of a run (two sources / two
    frequencies / forward + back-propagation / back-propagation + J v task of one slot), workers finishing in either order: each
    slot loads field and info of its own task, the solver calls are those of the in-memory run, and every file that is read was
    written earlier in the same computation (so nothing depends on what the directory held before).
Not covered: bit-identity of worker processes, the serialisation itself (io.save / io.load round trip of a task; needs C17).
"""
import os

import z3

from pyvc import cx, ob
from .cxutil import clause, canary, UNRECOGNISED, _Unrecognised
from .c13 import ds_hook
from . import c12

PROP = 'C11'
SF3 = [('TxED-1', 'f-1'), ('TxED-2', 'f-1'), ('TxED-3', 'f-1')]


def replay(d):
    from . import c11_concrete
    return ob.guarded(c11_concrete.check, 'quick', 0)


def task_process_map():
    col = ob.Collector(PROP, '_multiprocessing.process_map')
    col.default_replay = replay
    col.function('_multiprocessing.process_map')
    col.trust('concurrent.futures.Executor.map, tqdm.contrib.concurrent.process_map, builtins.map, tqdm(iterable=...): results in the order of the inputs (dependency contracts)')
    col.trust('concurrent.futures: Executor.submit(fn, *args) returns a future whose result() is fn(*args); as_completed(fs) yields every future exactly once, '
              'in an ARBITRARY order (all orders are explored)')
    res = []
    for workers, extra in [(w, e) for w in (1, 4) for e in ({}, dict(disable=True), dict(disable=False))]:
        def mk(ctx, workers=workers, extra=extra):
            log = []
            items = ['task-a', 'task-b', 'task-c']

            def fn(it, args, kw, node):
                return ('result-of', args[0])

            def ordered_map(it, f, args, kw, node):
                func, its = args[0], args[1:]
                log.append(f.name)
                return [it.call(func, list(xs), {}, node) for xs in zip(*[it.iterate(a) for a in its])]

            def executor(it, f, args, kw, node):
                ex = cx.Obj('ProcessPoolExecutor', dict(max_workers=kw.get('max_workers')))
                ex.fields['map'] = cx.LibFn('Executor.map', bound=ex)
                ex.fields['submit'] = cx.LibFn('Executor.submit', bound=ex)
                return ex

            def submit(it, f, args, kw, node):
                fut = cx.Obj('Future', {})
                fut.fields['__result__'] = it.call(args[0], list(args[1:]), dict(kw), node)
                fut.fields['result'] = cx.LibFn('Future.result', bound=fut)
                log.append('Executor.submit')
                return fut

            def fut_result(it, f, args, kw, node):
                return f.bound.fields['__result__']

            def as_completed(it, f, args, kw, node):
                # every order of completion: pick the next future among the remaining ones by branching
                rest = list(it.iterate(args[0]))
                out = []
                log.append('as_completed')
                while len(rest) > 1:
                    k = 0
                    while k < len(rest) - 1 and not it.ctx.branch(it.ctx.fresh_bool(f'completes_next_{len(out)}_{k}'), 'completion order'):
                        k += 1
                    out.append(rest.pop(k))
                return out + rest

            def tqdm_iter(it, f, args, kw, node):
                log.append(f.name)
                return kw.get('iterable', args[0] if args else None)
            pl = ctx.opts.setdefault('prelude', {})
            pl['Executor.map'] = ordered_map
            pl['Executor.submit'] = submit
            pl['Future.result'] = fut_result
            pl['concurrent.futures.as_completed'] = as_completed
            pl['as_completed'] = as_completed
            pl['builtins.print'] = lambda it, f, args, kw, node: None
            pl['ProcessPoolExecutor'] = executor
            pl['concurrent.futures.ProcessPoolExecutor'] = executor
            pl['tqdm.contrib.concurrent.process_map'] = ordered_map
            pl['tqdm.auto.tqdm'] = tqdm_iter
            fobj = cx.Closure(__import__('ast').parse('lambda x: RESULT(x)').body[0].value, {'RESULT': cx.LibFn('RESULT')}, cx.Interp(ctx, '_multiprocessing'))
            pl['RESULT'] = lambda it, f, args, kw, node: ('result-of', args[0])
            return [fobj, items], dict(max_workers=workers, desc='x', **extra), dict(items=items, log=log, workers=workers)
        res += cx.run_function('_multiprocessing.process_map', mk, summaries={}, opts={})
    clause(col, 'all_branches_return_the_results_in_input_order', res,
           lambda r: r.outcome == 'return' and list(r.value) == [('result-of', x) for x in r.state['items']], sample=True)
    clause(col, 'four_branches_explored', res, lambda r: True)
    col.lia('branch_count', [], z3.BoolVal(len(res) >= 12))
    return col.pack()


def mk_sim3(pre='plain'):
    sim, ds = c12.mk_sim(pre)
    srcs = {s: cx.Obj('TxElectricDipole', {'__name__': s}) for s, f in SF3}
    sim.fields['survey'].fields['sources'] = srcs
    for nm in ('_dict_grid', '_dict_efield', '_dict_efield_info'):
        sim.fields[nm] = {s: {'f-1': None} for s in srcs}
    sim.fields['_srcfreq'] = list(SF3)
    sim.fields['max_workers'] = z3.Int('max_workers')       # any worker count
    return sim, srcs


def slot_summaries(log):
    d = c12.summaries(log)

    def process_map(it, args, kw, node):
        fn, tasks = args[0], args[1]
        out = []
        for k, t in enumerate(tasks):
            log.append(('task', k, dict(t)))
            f = c12.field_obj({('RESULT-OF-TASK', k)})
            f.fields['__task__'] = t
            out.append((f, {'task': k}))
        return out

    def get_rfield(it, args, kw, node):
        f = c12.field_obj({('RFIELD', args[1], args[2])})
        f.fields['__for__'] = (args[1], args[2])
        return f
    d['_multiprocessing.process_map'] = process_map
    d['simulations.Simulation._get_rfield'] = get_rfield
    return d


def task_slots(which):
    col = ob.Collector(PROP, f'simulations.Simulation.{which}/slots')
    col.default_replay = replay
    col.function(f'simulations.Simulation.{which}')

    def run(ctx):
        log = []
        ctx.opts['getattr_hook'] = ds_hook
        ctx.summaries.update(slot_summaries(log))
        sim, srcs = mk_sim3('plain')
        it = cx.Interp(ctx, 'simulations')
        st = dict(sim=sim, log=log, srcs=srcs)
        if which in ('_bcompute', 'jvec'):
            # computed state with forward fields, residual and weights
            items = sim.fields['survey'].fields['_data'].fields['__items__']
            items['residual'] = cx.DArr(cx.Store('data.residual'))
            items['weights'] = cx.DArr(cx.Store('data.weights'))
            sim.fields['_computed'] = True
            sim.fields['_misfit'] = cx.Opaque('misfit')
            for s, f in SF3:
                e = c12.field_obj({('E', 0, s, f)})
                e.fields['frequency'] = 1.0
                e.fields['grid'] = cx.Obj('TensorMesh', dict(n_cells=z3.Int('nc'), get_edge_inner_product_deriv=cx.Opaque('deriv')))
                sim.fields['_dict_efield'][s][f] = e
        try:
            if which == '_compute':
                it.call(it.getattr(sim, '_compute'), [[(None, None)]], {})
            elif which == '_bcompute':
                it.call(it.getattr(sim, '_bcompute'), [], {})
            else:
                vec = cx.NDArr(cx.Store('vector'))
                it.call(it.getattr(sim, 'jvec'), [vec], {})
        except cx._Raise as e:
            return 'raise', e.exc, st
        return 'return', None, st
    res = cx.explore(run, pc0=[z3.Int('max_workers') >= 1])
    clause(col, 'returns_normally', res, lambda r: r.outcome == 'return')

    def tasks_in_order(r):
        tasks = [x for x in r.state['log'] if x[0] == 'task']
        if len(tasks) != 3:
            return False
        ok = True
        for k, (s, f) in enumerate(SF3):
            t = tasks[k][2]
            if which == '_compute':
                ok = ok and t.get('source') is r.state['srcs'][s] and t.get('model') is r.state['sim'].fields['model']
            elif which == '_bcompute':
                ok = ok and isinstance(t.get('sfield'), cx.Obj) and t['sfield'].fields.get('__for__') == (s, f)
            else:
                ok = ok and isinstance(t.get('sfield'), cx.Obj) and ('E', 0, s, f) in cx.deps_of(t['sfield'])
        return ok
    clause(col, 'i_th_task_is_built_from_the_i_th_source_frequency_pair', res, tasks_in_order, sample=True)

    def slots(r):
        sim = r.state['sim']
        ok = True
        for k, (s, f) in enumerate(SF3):
            if which == '_compute':
                got = sim.fields['_dict_efield'][s][f]
                info = sim.fields['_dict_efield_info'][s][f]
                ok = ok and isinstance(got, cx.Obj) and cx.deps_of(got) == {('RESULT-OF-TASK', k)} and info == {'task': k}
            elif which == '_bcompute':
                got = sim.fields['_dict_bfield'][s][f]
                ok = ok and isinstance(got, cx.Obj) and cx.deps_of(got) == {('RESULT-OF-TASK', k)} and sim.fields['_dict_bfield_info'][s][f] == {'task': k}
        if which == 'jvec':
            # the response of slot k is sampled from the k-th result and written to row [src, :, freq] of data['jvec']
            muts = [e for e in r.mutations() if str(e['store'].origin).startswith('fresh') or True]
            wr = [e for e in r.events if e['kind'] == 'mutate' and e['how'] == 'setitem' and isinstance(e.get('key'), tuple) and len(e['key']) == 3]
            rows = [(e['key'][0], e['key'][2], cx.deps_of(e.get('value'))) for e in wr]
            ok = ok and [(a, b) for a, b, c in rows] == SF3 and all(('RESULT-OF-TASK', k) in c for k, (a, b, c) in enumerate(rows))
        return ok
    clause(col, 'slot_of_a_pair_receives_the_result_of_its_own_task', res, slots, sample=True)
    if which == '_compute':
        canary(col, 'canary/slots_hold_results_in_reversed_order', res,
               lambda r: all(cx.deps_of(r.state['sim'].fields['_dict_efield'][s][f]) == {('RESULT-OF-TASK', 2 - k)} for k, (s, f) in enumerate(SF3)))
    return col.pack()


def task_solve_wrapper():
    col = ob.Collector(PROP, '_multiprocessing.solve')
    col.default_replay = replay
    col.function('_multiprocessing.solve')
    res = []
    for kind in ('source', 'sfield'):
        def mk(ctx, kind=kind):
            log = []

            def fct(name):
                def f(it, args, kw, node):
                    log.append((name, dict(kw)))
                    return (cx.Obj('Field', {'__id__': 'result'}), {'exit': 0})
                return f

            def i2g(it, args, kw, node):
                m = cx.Obj('Model', {'__interpolated_from__': args[0], '__grid__': args[1]})
                return m
            ctx.summaries.update({'solver.solve': fct('solve'), 'solver.solve_source': fct('solve_source'), 'models.Model.interpolate_to_grid': i2g})
            model = cx.Obj('Model', {}, mod='models')
            inp = dict(model=model, efield=cx.Obj('Field', {'__id__': 'start'}), solver_opts={'tol': z3.Real('tol'), 'verb': 1})
            if kind == 'source':
                inp.update(grid=cx.Obj('TensorMesh', {}), source=cx.Obj('Tx', {}), frequency=z3.Real('f'))
            else:
                g = cx.Obj('TensorMesh', {})
                inp.update(sfield=cx.Obj('Field', dict(grid=g)))
            return [inp], {}, dict(inp=dict(inp), log=log, kind=kind)
        res += cx.run_function('_multiprocessing.solve', mk, summaries={}, opts={})

    def ok(r):
        if r.outcome != 'return' or len(r.state['log']) != 1:
            return False
        name, kw = r.state['log'][0]
        inp = r.state['inp']
        good = name == ('solve_source' if r.state['kind'] == 'source' else 'solve')
        m = kw.get('model')
        grid = inp['grid'] if r.state['kind'] == 'source' else inp['sfield'].fields['grid']
        good = good and isinstance(m, cx.Obj) and m.fields.get('__interpolated_from__') is inp['model'] and m.fields.get('__grid__') is grid
        good = good and kw.get('efield') is inp['efield'] and kw.get('return_info') is True and kw.get('always_return') is True
        good = good and (kw.get('tol') is inp['solver_opts']['tol'] or (cx.is_sym(kw.get('tol')) and kw['tol'].eq(inp['solver_opts']['tol'])))
        if r.state['kind'] == 'source':
            good = good and kw.get('source') is inp['source'] and kw.get('frequency') is inp['frequency']
        else:
            good = good and kw.get('sfield') is inp['sfield']
        return good and isinstance(r.value, tuple) and len(r.value) == 2 and r.value[0].fields.get('__id__') == 'result'
    clause(col, 'forwards_its_own_task_and_returns_field_and_info', res, ok, sample=True)
    return col.pack()


# ----------------------------------------------------------------------------- file-based execution
SAVE_OPTIONS = ('verb', 'compression', 'json_indent', 'collect_classes')       # keyword arguments of io.save that are not stored


class ScratchDir:
    """Abstract scratch directory (`file_dir`) shared by a simulation and its workers: path -> what io.load returns for it.

    `reused=False`: a fresh directory, only files written during the computation exist.
    `reused=True` : EVERY path that has not been written during the computation exists already and holds what an earlier
                    simulation (same survey, same grids, same frequencies -- but another model, other fields, other options)
                    may have left behind under that name: `leftover(path)`.  This is the most adversarial history of the
                    directory; nothing in the property allows a result to depend on it.
    Assumed contracts (listed in the evidence): io.save(p, **kw) stores kw (minus its options) under p; io.load(p) returns
    what was stored under p last; os.path.isfile / exists tell whether p is stored; they touch no other file."""

    def __init__(self, reused, leftover):
        self.reused, self.leftover = reused, leftover
        self.files = {}
        self.written = []            # paths in the order they are written during the computation
        self.log = []                # ('read' | 'write' | 'probe', path, was written before in this computation?)

    def _path(self, p):
        if isinstance(p, PathV):
            p = str(p.p)
        if not isinstance(p, str):
            raise cx.Unsupported(f'file name is not a concrete string: {p!r}')
        return p

    def exists(self, p):
        return p in self.files or self.reused

    def put(self, p, **content):
        """a file written by the computation under contract itself (e.g. the task file by the simulation)"""
        self.files[p] = dict(content)
        self.written.append(p)

    def load(self, it, args, kw, node):
        p = self._path(args[0] if args else kw.get('fname'))
        self.log.append(('read', p, p in self.written))
        if p not in self.files:
            if not self.reused:
                raise cx._Raise(cx.ExcVal('FileNotFoundError', (p,)))
            self.files[p] = self.leftover(p)
        return {k: (dict(v) if isinstance(v, dict) else v) for k, v in self.files[p].items()}      # every load builds new containers

    def save(self, it, args, kw, node):
        p = self._path(args[0] if args else kw.get('fname'))
        self.log.append(('write', p, p in self.written))
        self.files[p] = {k: v for k, v in kw.items() if k not in SAVE_OPTIONS and k != 'fname'}
        self.written.append(p)
        return None

    def probe(self, it, f, args, kw, node):
        p = self._path(args[0])
        self.log.append(('probe', p, p in self.written))
        return self.exists(p)

    @staticmethod
    def join(it, f, args, kw, node):
        import posixpath
        args = [str(a.p) if isinstance(a, PathV) else a for a in args]
        if not all(isinstance(a, str) for a in args):
            raise cx.Unsupported('os.path.join of a non-literal path component')
        return posixpath.join(*args)

    @staticmethod
    def pure(it, f, args, kw, node):
        # os.path.splitext / basename / dirname / split: functions of the path text
        import posixpath
        args = [str(a.p) if isinstance(a, PathV) else a for a in args]
        if not all(isinstance(a, str) for a in args) or kw:
            raise cx.Unsupported(f'{f.name} of a non-literal path')
        return getattr(posixpath, f.name.rsplit('.', 1)[1])(*args)

    def install(self, ctx, col=None):
        ctx.summaries.update({'io.load': self.load, 'io.save': self.save})
        pl = ctx.opts.setdefault('prelude', {})
        pl.update({'os.path.isfile': self.probe, 'os.path.exists': self.probe, 'os.path.join': self.join})
        pl.update({f'os.path.{n}': self.pure for n in ('splitext', 'basename', 'dirname', 'split')})
        pl.update({'pathlib.Path': PathV.make, 'pathlib.PurePath': PathV.make, 'pathv.method': PathV.method, 'os.fspath': lambda it, f, a, k, n: self._path(a[0])})

    def reads(self):
        return [e for e in self.log if e[0] == 'read']

    def writes(self):
        return [e for e in self.log if e[0] == 'write']


class PathV(cx.Ext):
    """pathlib.Path of concrete text: the pure (text-only) part of the pathlib interface, evaluated by pathlib.PurePosixPath itself"""
    PURE = ('with_suffix', 'with_name', 'with_stem', 'joinpath', 'as_posix', '__str__', '__fspath__')
    ATTRS = ('name', 'stem', 'suffix', 'parent', 'parts', 'suffixes')

    def __init__(self, p):
        self.p = p

    @staticmethod
    def lift(v):
        import pathlib
        return PathV(v) if isinstance(v, pathlib.PurePath) else v

    @staticmethod
    def make(it, f, args, kw, node):
        import pathlib
        args = [a.p if isinstance(a, PathV) else a for a in args]
        if kw or not all(isinstance(a, (str, pathlib.PurePath)) for a in args):
            raise cx.Unsupported('Path() of a non-literal path component')
        return PathV(pathlib.PurePosixPath(*args))

    @staticmethod
    def method(it, f, args, kw, node):
        self, name = f.bound
        args = [a.p if isinstance(a, PathV) else a for a in args]
        if kw or not all(isinstance(a, (str,)) or hasattr(a, 'parts') for a in args):
            raise cx.Unsupported(f'Path.{name} with a non-literal argument')
        return PathV.lift(getattr(self.p, name)(*args))

    def cx_getattr(self, it, attr):
        if attr in self.ATTRS:
            return PathV.lift(getattr(self.p, attr))
        if attr in self.PURE:
            return cx.LibFn('pathv.method', bound=(self, attr))
        return NotImplemented            # anything touching the file system (glob, unlink, exists, ...) is outside this model

    def cx_str(self, it):
        return str(self.p)

    def cx_binop(self, it, op, other, reflected):
        other = other.p if isinstance(other, PathV) else other
        if op == 'Div' and (isinstance(other, str) or hasattr(other, 'parts')):
            return PathV(other / self.p if reflected else self.p / other)
        return NotImplemented

    def cx_cmp(self, it, op, other, reflected):
        if isinstance(other, PathV) and op in ('Eq', 'NotEq'):
            return (self.p == other.p) == (op == 'Eq')
        return NotImplemented

    def __repr__(self):
        return f'<Path {self.p}>'


FS_TRUST = ('emg3d.io.save(p, **kw) / io.load(p) / os.path.isfile / exists / join / splitext / basename / dirname: a file holds what was saved under its name last, '
            'load returns it, the calls touch no other file (abstract scratch directory; the h5/npz/json round trip itself is not covered)')


def mk_task(kind, start, tag=''):
    """the input of one worker task as Simulation.{_compute, _bcompute, jvec} build it, and what an earlier simulation may have left"""
    grid = cx.Obj('TensorMesh', {'__id__': 'grid-of-the-task' + tag})
    freq = z3.Real('f')
    task = dict(model=cx.Obj('Model', {'__id__': 'model-of-the-task' + tag}, mod='models'),
                efield=None if start == 'none' else cx.Obj('Field', {'__id__': 'start-field-of-the-task' + tag, 'grid': grid, '_frequency': freq, 'frequency': freq}),
                solver_opts={'tol': z3.Real('tol' + tag), 'verb': 1})
    if kind == 'source':
        task.update(grid=grid, source=cx.Obj('Tx', {'__id__': 'source-of-the-task' + tag}), frequency=freq)
    else:
        task.update(sfield=cx.Obj('Field', {'__id__': 'source-field-of-the-task' + tag, 'grid': grid, '_frequency': freq, 'frequency': freq}))

    def leftover(path):
        # same grid (the very same object: equal in every respect), same frequency -- everything else from another model
        old = cx.Obj('Field', {'__id__': 'field-left-by-an-earlier-run', 'grid': grid, '_frequency': freq, 'frequency': freq})
        old_task = dict(model=cx.Obj('Model', {'__id__': 'model-of-an-earlier-run'}, mod='models'), efield=old,
                        solver_opts={'tol': z3.Real('tol_of_an_earlier_run'), 'verb': 1})
        if kind == 'source':
            old_task.update(grid=grid, source=cx.Obj('Tx', {'__id__': 'source-of-an-earlier-run'}), frequency=freq)
        else:
            old_task.update(sfield=cx.Obj('Field', {'__id__': 'source-field-of-an-earlier-run', 'grid': grid, '_frequency': freq, 'frequency': freq}))
        return {'data': old_task, 'efield': old, 'info': {'exit': 0, '__id__': 'info-left-by-an-earlier-run'},
                '_date': 'earlier', '_version': 'emg3d', '_format': '1.0'}
    return task, grid, leftover


def solver_summaries(log):
    """solver.solve / solve_source / Model.interpolate_to_grid as uninterpreted functions of their arguments (each call is logged
    and returns a result that names the call)"""
    def fct(name):
        def f(it, args, kw, node):
            k = len(log)
            log.append((name, list(args), dict(kw)))
            return (cx.Obj('Field', {'__id__': 'result', '__call__': k}), {'exit': 0, '__call__': k})
        return f

    def i2g(it, args, kw, node):
        return cx.Obj('Model', {'__interpolated_from__': args[0], '__grid__': args[1] if len(args) > 1 else kw.get('grid')})
    return {'solver.solve': fct('solve'), 'solver.solve_source': fct('solve_source'), 'models.Model.interpolate_to_grid': i2g}


def same_value(a, b):
    """two abstract values denote the same thing: identical objects / equal constants / equal terms / models interpolated from the
    same model to the same grid / containers of such"""
    if a is b:
        return True
    if cx.is_sym(a) and cx.is_sym(b):
        return a.eq(b)
    if isinstance(a, cx.Obj) and isinstance(b, cx.Obj):
        if '__interpolated_from__' in a.fields and '__interpolated_from__' in b.fields:
            return a.fields['__interpolated_from__'] is b.fields['__interpolated_from__'] and a.fields.get('__grid__') is b.fields.get('__grid__')
        return False
    if isinstance(a, dict) and isinstance(b, dict):
        return set(a) == set(b) and all(same_value(a[k], b[k]) for k in a)
    if isinstance(a, (list, tuple)) and isinstance(b, (list, tuple)):
        return len(a) == len(b) and all(same_value(x, y) for x, y in zip(a, b))
    if isinstance(a, (cx.Obj, cx.Opaque, cx.NDArr)) or isinstance(b, (cx.Obj, cx.Opaque, cx.NDArr)) or cx.is_sym(a) or cx.is_sym(b):
        return False
    return type(a) is type(b) and a == b


def same_solver_call(c1, c2):
    return c1[0] == c2[0] and same_value(c1[1], c2[1]) and same_value(c1[2], c2[2])


TASK_FILES = ('/scratch/run.v1/efield_TxED-1_f-1.h5', '/scratch/run.v1/efield_TxED-2_f-1.h5')      # a dot in the directory name is legitimate


def task_solve_wrapper_files():
    """_multiprocessing.solve with the NAME OF A TASK FILE instead of the task: for both kinds of task (source / source field), with
    and without a start field, in a fresh and in a re-used scratch directory, for two task files of the same run:
    the worker is first run on the task itself (in memory), then on the file that holds this task."""
    col = ob.Collector(PROP, '_multiprocessing.solve/files')
    col.default_replay = replay
    col.function('_multiprocessing.solve')
    col.trust(FS_TRUST)
    res = []
    for kind in ('source', 'sfield'):
        for start in ('none', 'field'):
            for reused in (False, True):
                for tf in TASK_FILES:
                    def run(ctx, kind=kind, start=start, reused=reused, tf=tf):
                        log = []
                        ctx.summaries.update(solver_summaries(log))
                        task, grid, leftover = mk_task(kind, start)
                        fs = ScratchDir(reused, leftover)
                        fs.install(ctx)
                        it = cx.Interp(ctx, '_multiprocessing')
                        fn = ('repo', '_multiprocessing', 'solve')
                        st = dict(kind=kind, start=start, reused=reused, tf=tf, task=dict(task), fs=fs, log=log, others=[t for t in TASK_FILES if t != tf])
                        try:
                            st['mem_value'] = it.call(fn, [dict(task, solver_opts=dict(task['solver_opts']))], {})
                            st['n_mem'] = len(log)
                            st['fs_log_mem'] = list(fs.log)
                            fs.put(tf, data=dict(task, solver_opts=dict(task['solver_opts'])), _date='now', _version='emg3d', _format='1.0')
                            v = it.call(fn, [tf], {})
                        except cx._Raise as e:
                            return 'raise', e.exc, st
                        return 'return', v, st
                    res += cx.explore(run)

    clause(col, 'returns_normally', res, lambda r: r.outcome == 'return')
    clause(col, 'task_given_in_memory_touches_no_file', res, lambda r: r.outcome != 'return' or r.state['fs_log_mem'] == [])

    def calls(r):
        n = r.state.get('n_mem')
        if r.outcome != 'return':
            return None
        log = r.state['log']
        if n != 1 or len(log) != 2:
            return UNRECOGNISED(f'{n} solver call(s) for the task in memory, {len(log) - (n or 0)} for the task file (the contract talks about one call per task)')
        return log[0], log[1]

    def same_call(r):
        c = calls(r)
        if c is None or isinstance(c, _Unrecognised):
            return c
        return same_solver_call(*c)
    clause(col, 'solver_call_for_a_task_file_is_the_solver_call_for_the_task_it_holds', res, same_call, sample=True)

    def start_field(r):
        c = calls(r)
        if c is None or isinstance(c, _Unrecognised):
            return c
        kw = c[1][2]
        return 'efield' in kw and kw['efield'] is r.state['task']['efield']
    clause(col, 'start_field_is_the_one_of_the_task_file_none_if_it_holds_none', res, start_field)

    def reads(r):
        if r.outcome != 'return':
            return None
        rd = [e[1] for e in r.state['fs'].reads()]
        return len(rd) >= 1 and all(p == r.state['tf'] for p in rd)
    clause(col, 'reads_its_own_task_file_and_no_other_file', res, reads, sample=True)

    def stored(r):
        if r.outcome != 'return':
            return None
        v, fs = r.value, r.state['fs']
        c = calls(r)
        if isinstance(c, _Unrecognised):
            return c
        if not (isinstance(v, tuple) and len(v) == 2 and all(isinstance(p, str) for p in v)):
            return UNRECOGNISED('in file-based mode the worker does not return two file names (field, info)')
        k = 1                                             # index of the solver call made for the task file
        fld = fs.files.get(v[0], {}).get('efield') if v[0] in fs.written else None
        inf = fs.files.get(v[1], {}).get('info') if v[1] in fs.written else None
        return isinstance(fld, cx.Obj) and fld.fields.get('__call__') == k and isinstance(inf, dict) and inf.get('__call__') == k
    clause(col, 'returned_files_hold_field_and_info_of_its_own_solver_call', res, stored, sample=True)

    def frame(r):
        if r.outcome != 'return':
            return None
        wr = [e[1] for e in r.state['fs'].writes()]
        return r.state['tf'] not in wr and not any(w in r.state['others'] for w in wr)
    clause(col, 'writes_no_task_file', res, frame)

    def disjoint(r):
        # the files written for one task file are not the files written for the other one (same kind / start / directory state)
        if r.outcome != 'return':
            return None
        mine = {e[1] for e in r.state['fs'].writes()}
        for q in res:
            if q.outcome == 'return' and all(q.state[k] == r.state[k] for k in ('kind', 'start', 'reused')) and q.state['tf'] != r.state['tf']:
                if mine & {e[1] for e in q.state['fs'].writes()}:
                    return False
        return True
    clause(col, 'two_task_files_of_a_run_have_disjoint_result_files', res, disjoint)
    col.lia('all_configurations_explored', [], z3.BoolVal({(r.state['kind'], r.state['start'], r.state['reused'], r.state['tf']) for r in res}
                                                            == {(k, s, u, t) for k in ('source', 'sfield') for s in ('none', 'field') for u in (False, True) for t in TASK_FILES}))
    canary(col, 'canary/start_field_is_what_an_earlier_run_left_in_the_directory', res,
           lambda r: r.outcome == 'return' and len(r.state['log']) == 2 and isinstance(r.state['log'][1][2].get('efield'), cx.Obj)
           and r.state['log'][1][2]['efield'].fields.get('__id__') == 'field-left-by-an-earlier-run')
    canary(col, 'canary/reads_no_file_at_all', res, lambda r: r.outcome == 'return' and not r.state['fs'].reads())
    return col.pack()

SLOT_PAIRS = [(('efield', 'TxED-1', 'f-1', 'source'), ('efield', 'TxED-2', 'f-1', 'source')),        # two sources
              (('efield', 'TxED-1', 'f-1', 'source'), ('efield', 'TxED-1', 'f-2', 'source')),        # two frequencies
              (('efield', 'TxED-1', 'f-1', 'source'), ('bfield', 'TxED-1', 'f-1', 'sfield')),        # forward and back-propagation task of one slot
              (('bfield', 'TxED-1', 'f-1', 'sfield'), ('gfield', 'TxED-1', 'f-1', 'sfield')),        # back-propagation and J v task of one slot
              # names chosen by the user (a Survey takes dictionaries of sources / frequencies with any keys): dots, differing only after the last dot
              (('efield', 'TxED-1', 'f-0.5', 'source'), ('efield', 'TxED-1', 'f-0.25', 'source')),
              (('efield', 'Tx-1.5km', 'f-1', 'source'), ('efield', 'Tx-1.25km', 'f-1', 'source'))]


def task_file_hand_over():
    """The hand-over of two tasks of a simulation through its scratch directory, end to end over the real
    Simulation._data_or_file -> _multiprocessing.solve -> Simulation._load: both tasks are handed over first (as _compute / _bcompute /
    jvec do), the workers then finish in either order, the simulation loads what they returned.  Compared with the workers run on
    the tasks themselves.  Directory fresh or re-used (see ScratchDir)."""
    col = ob.Collector(PROP, 'file_hand_over')
    col.default_replay = replay
    for q in ('simulations.Simulation._data_or_file', 'simulations.Simulation._load', '_multiprocessing.solve'):
        col.function(q)
    col.trust(FS_TRUST)
    res = []
    for pair in SLOT_PAIRS:
        for start in ('none', 'field'):
            for reused in (False, True):
                for order in ((0, 1), (1, 0)):
                    for file_dir in ('/scratch/run.v1', None):
                        if file_dir is None and (reused or order == (1, 0)):
                            continue

                        def run(ctx, pair=pair, start=start, reused=reused, order=order, file_dir=file_dir):
                            log = []
                            ctx.summaries.update(solver_summaries(log))
                            tasks = [mk_task(sl[3], start, tag=f' {k}') for k, sl in enumerate(pair)]
                            fs = ScratchDir(reused, tasks[0][2])
                            fs.install(ctx)
                            sim = cx.Obj('Simulation', {'file_dir': file_dir}, mod='simulations')
                            its = cx.Interp(ctx, 'simulations')
                            itm = cx.Interp(ctx, '_multiprocessing')
                            solve = ('repo', '_multiprocessing', 'solve')
                            st = dict(pair=pair, start=start, reused=reused, order=order, file_dir=file_dir, fs=fs, log=log, tasks=[t[0] for t in tasks])

                            def copy(t):
                                return dict(t, solver_opts=dict(t['solver_opts']))
                            try:
                                st['mem'] = [itm.call(solve, [copy(t[0])], {}) for t in tasks]
                                st['n_mem'] = len(log)
                                st['fs_log_mem'] = list(fs.log)
                                st['given'] = [copy(t[0]) for t in tasks]
                                handed = [its.call(its.getattr(sim, '_data_or_file'), [sl[0], sl[1], sl[2], d], {}) for sl, d in zip(pair, st['given'])]
                                st['handed'] = handed
                                out = [None, None]
                                for k in order:
                                    out[k] = itm.call(solve, [handed[k]], {})
                                st['out'] = out
                                st['loaded'] = [(its.call(its.getattr(sim, '_load'), [o[0], 'efield'], {}), its.call(its.getattr(sim, '_load'), [o[1], 'info'], {}))
                                                for o in out]
                            except cx._Raise as e:
                                return 'raise', e.exc, st
                            return 'return', None, st
                        res += cx.explore(run)

    clause(col, 'returns_normally', res, lambda r: r.outcome == 'return')
    mem = [r for r in res if r.state['file_dir'] is None]
    fil = [r for r in res if r.state['file_dir'] is not None]

    def call_of(r, k, lo, hi):
        """index of THE solver call (among calls lo..hi-1) whose model was interpolated from the model of task k"""
        m = r.state['tasks'][k]['model']
        ix = [j for j in range(lo, hi) if isinstance(r.state['log'][j][2].get('model'), cx.Obj)
              and r.state['log'][j][2]['model'].fields.get('__interpolated_from__') is m]
        return ix

    def per_task(r, what):
        if r.outcome != 'return':
            return None
        n, log = r.state['n_mem'], r.state['log']
        if n != 2 or len(log) != 4:
            return UNRECOGNISED(f'{n} solver calls for two tasks in memory, {len(log) - n} for the two tasks handed over (the contract talks about one call per task)')
        ok = True
        for k in (0, 1):
            a, b = call_of(r, k, 0, 2), call_of(r, k, 2, 4)
            if len(a) != 1:
                return UNRECOGNISED('the solver call for a task given in memory cannot be identified by its model')
            if what == 'call':
                ok = ok and len(b) == 1 and same_solver_call(log[a[0]], log[b[0]])
            else:
                e, i = r.state['loaded'][k]
                ok = ok and len(b) == 1 and isinstance(e, cx.Obj) and e.fields.get('__call__') == b[0] and isinstance(i, dict) and i.get('__call__') == b[0]
        return ok
    clause(col, 'worker_solves_the_task_handed_over_for_its_slot_as_it_would_in_memory', res, lambda r: per_task(r, 'call'), sample=True)
    clause(col, 'slot_loads_field_and_info_of_its_own_task_whatever_the_order_of_completion', res, lambda r: per_task(r, 'load'), sample=True)
    clause(col, 'every_file_read_was_written_earlier_in_the_same_computation', fil,
           lambda r: None if r.outcome != 'return' else all(e[2] for e in r.state['fs'].reads()), sample=True)
    clause(col, 'file_based_hand_over_reads_what_it_wrote', fil,
           lambda r: None if r.outcome != 'return' else len(r.state['fs'].reads()) >= 4)
    clause(col, 'without_file_dir_tasks_and_results_are_handed_over_as_they_are_and_no_file_is_touched', mem,
           lambda r: None if r.outcome != 'return' else (r.state['fs'].log == [] and all(h is g for h, g in zip(r.state['handed'], r.state['given']))
                                                         and all(l[0] is o[0] and l[1] is o[1] for l, o in zip(r.state['loaded'], r.state['out']))))
    col.lia('all_configurations_explored', [], z3.BoolVal(len({(r.state['pair'], r.state['start'], r.state['reused'], r.state['order'], r.state['file_dir']) for r in res})
                                                            == len(SLOT_PAIRS) * 2 * (2 * 2 + 1)))
    canary(col, 'canary/slot_loads_the_result_of_the_other_task', fil,
           lambda r: r.outcome == 'return' and len(r.state['log']) == 4 and all(
               isinstance(r.state['loaded'][k][0], cx.Obj) and r.state['loaded'][k][0].fields.get('__call__') in call_of(r, 1 - k, 2, 4) for k in (0, 1)))
    canary(col, 'canary/some_file_is_read_that_the_computation_did_not_write', fil,
           lambda r: r.outcome == 'return' and not all(e[2] for e in r.state['fs'].reads()))
    return col.pack()


def task_concrete():
    from . import c11_concrete
    col = ob.Collector(PROP, 'concrete')
    seed = int(os.environ.get('VERIF_SEED', '0'))
    tier = os.environ.get('VERIF_TIER', 'quick')
    r = ob.guarded(c11_concrete.check, tier, seed)
    col.concrete('results_identical_for_worker_counts_with_source_dependent_grids', r['reproduced'] is False, r,
                 bounded='1 source x 3 frequencies on three different computational grids (gridding=dict: small, large, medium); max_workers 1 vs 3 and file-based with 2 workers (quick) / 1..4 + file-based 1, 3 (thorough); file-based run in a scratch directory that an earlier simulation with another model has used (1 worker; thorough: 1, 3); fields, responses, misfit, gradient bit-identical to the sequential in-memory run',
                 cases=r.get('cases', 0))
    return col.pack()


def tasks(tier):
    return [('contracts.c11', 'task_process_map', {}), ('contracts.c11', 'task_slots', dict(which='_compute')),
            ('contracts.c11', 'task_slots', dict(which='_bcompute')), ('contracts.c11', 'task_slots', dict(which='jvec')),
            ('contracts.c11', 'task_solve_wrapper', {}), ('contracts.c11', 'task_solve_wrapper_files', {}), ('contracts.c11', 'task_file_hand_over', {}),
            # a worker's result depends only on its task: what the worker derives from the task's model is derived from the model as it is NOW,
            # whether the model object is the simulation's own (sequential, in memory), a pickled copy (processes) or loaded from a task file
            ('contracts.c15', 'task_interpolate_to_grid', dict(prop=PROP)),
            ('contracts.c11', 'task_concrete', {})]


LEVEL = ('Proof over the real source that process_map preserves the input order in all four branches (given the order contracts of the libraries) and that '
         '_compute, _bcompute and jvec build the i-th task from the i-th source-frequency pair and store the i-th result in that pair\'s slot (three pairs), '
         'and that the worker wrapper forwards exactly its own task -- given in memory or as a task file; in file-based mode the worker reads only its own task file, '
         'the slot loads the result of its own task for either order of completion, and every file read was written earlier in the same computation '
         '(fresh or re-used scratch directory).')
ASSUMPTIONS = ['order contracts of concurrent.futures.Executor.map, tqdm process_map, builtins.map, tqdm(iterable=...)',
               'a worker computes a deterministic function of its task (bit-identity of worker processes is only checked in the bounded concrete run)',
               'file-based hand-over: io.load(p) returns what io.save stored under p last (the h5 serialisation round trip of tasks and fields is assumed, C17 not applicable); '
               'the scratch directory is modelled as fresh or as holding leftovers of an earlier simulation under every name']
