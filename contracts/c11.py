"""C11 -- survey results do not depend on worker count, scheduling or file-based mode (slot correspondence).

(a) _multiprocessing.process_map: in each of its four branches the result is [fn(*a) for a in zip(*iterables)] in input
    order -- from the dependency contracts of Executor.map, tqdm.contrib.concurrent.process_map, map and tqdm(iterable=..).
(b) Simulation._compute / _bcompute / jvec: the task list is built from the source-frequency list in order, and the i-th
    result is stored in the slot of the i-th pair: slot (src,freq) holds the result of its own task (three pairs).
(c) _multiprocessing.solve: forwards model (interpolated to the task's grid), start field and solver options of ITS task and
    returns (efield, info).
Not covered: bit-identity of worker processes, the file hand-over (needs C17).
"""
import os

import z3

from pyvc import cx, ob
from .cxutil import clause
from .c13 import ds_hook
from . import c12

PROP = 'C11'
SF3 = [('TxED-1', 'f-1'), ('TxED-2', 'f-1'), ('TxED-3', 'f-1')]


def replay(d):
    from . import c11_concrete
    return ob.guarded(c11_concrete.check, 'quick', 0)


def task_process_map():
    col = ob.Collector(PROP, '_multiprocessing.process_map')
    col.default_replay = replay
    col.function('_multiprocessing.process_map')
    col.trust('concurrent.futures.Executor.map, tqdm.contrib.concurrent.process_map, builtins.map, tqdm(iterable=...): results in the order of the inputs (dependency contracts)')
    res = []
    for workers in (1, 4):
        def mk(ctx, workers=workers):
            log = []
            items = ['task-a', 'task-b', 'task-c']

            def fn(it, args, kw, node):
                return ('result-of', args[0])

            def ordered_map(it, f, args, kw, node):
                func, its = args[0], args[1:]
                log.append(f.name)
                return [it.call(func, list(xs), {}, node) for xs in zip(*[it.iterate(a) for a in its])]

            def executor(it, f, args, kw, node):
                ex = cx.Obj('ProcessPoolExecutor', dict(max_workers=kw.get('max_workers')))
                ex.fields['map'] = cx.LibFn('Executor.map', bound=ex)
                return ex

            def tqdm_iter(it, f, args, kw, node):
                log.append(f.name)
                return kw.get('iterable', args[0] if args else None)
            pl = ctx.opts.setdefault('prelude', {})
            pl['Executor.map'] = ordered_map
            pl['ProcessPoolExecutor'] = executor
            pl['concurrent.futures.ProcessPoolExecutor'] = executor
            pl['tqdm.contrib.concurrent.process_map'] = ordered_map
            pl['tqdm.auto.tqdm'] = tqdm_iter
            fobj = cx.Closure(__import__('ast').parse('lambda x: RESULT(x)').body[0].value, {'RESULT': cx.LibFn('RESULT')}, cx.Interp(ctx, '_multiprocessing'))
            pl['RESULT'] = lambda it, f, args, kw, node: ('result-of', args[0])
            return [fobj, items], dict(max_workers=workers, desc='x'), dict(items=items, log=log, workers=workers)
        res += cx.run_function('_multiprocessing.process_map', mk, summaries={}, opts={})
    clause(col, 'all_branches_return_the_results_in_input_order', res,
           lambda r: r.outcome == 'return' and list(r.value) == [('result-of', x) for x in r.state['items']], sample=True)
    clause(col, 'four_branches_explored', res, lambda r: True)
    col.lia('branch_count', [], z3.BoolVal(len(res) == 4))
    return col.pack()


def mk_sim3(pre='plain'):
    sim, ds = c12.mk_sim(pre)
    srcs = {s: cx.Obj('TxElectricDipole', {'__name__': s}) for s, f in SF3}
    sim.fields['survey'].fields['sources'] = srcs
    for nm in ('_dict_grid', '_dict_efield', '_dict_efield_info'):
        sim.fields[nm] = {s: {'f-1': None} for s in srcs}
    sim.fields['_srcfreq'] = list(SF3)
    sim.fields['max_workers'] = z3.Int('max_workers')       # any worker count
    return sim, srcs


def slot_summaries(log):
    d = c12.summaries(log)

    def process_map(it, args, kw, node):
        fn, tasks = args[0], args[1]
        out = []
        for k, t in enumerate(tasks):
            log.append(('task', k, dict(t)))
            f = c12.field_obj({('RESULT-OF-TASK', k)})
            f.fields['__task__'] = t
            out.append((f, {'task': k}))
        return out

    def get_rfield(it, args, kw, node):
        f = c12.field_obj({('RFIELD', args[1], args[2])})
        f.fields['__for__'] = (args[1], args[2])
        return f
    d['_multiprocessing.process_map'] = process_map
    d['simulations.Simulation._get_rfield'] = get_rfield
    return d


def task_slots(which):
    col = ob.Collector(PROP, f'simulations.Simulation.{which}/slots')
    col.default_replay = replay
    col.function(f'simulations.Simulation.{which}')

    def run(ctx):
        log = []
        ctx.opts['getattr_hook'] = ds_hook
        ctx.summaries.update(slot_summaries(log))
        sim, srcs = mk_sim3('plain')
        it = cx.Interp(ctx, 'simulations')
        st = dict(sim=sim, log=log, srcs=srcs)
        if which in ('_bcompute', 'jvec'):
            # computed state with forward fields, residual and weights
            items = sim.fields['survey'].fields['_data'].fields['__items__']
            items['residual'] = cx.DArr(cx.Store('data.residual'))
            items['weights'] = cx.DArr(cx.Store('data.weights'))
            sim.fields['_computed'] = True
            sim.fields['_misfit'] = cx.Opaque('misfit')
            for s, f in SF3:
                e = c12.field_obj({('E', 0, s, f)})
                e.fields['frequency'] = 1.0
                e.fields['grid'] = cx.Obj('TensorMesh', dict(n_cells=z3.Int('nc'), get_edge_inner_product_deriv=cx.Opaque('deriv')))
                sim.fields['_dict_efield'][s][f] = e
        try:
            if which == '_compute':
                it.call(it.getattr(sim, '_compute'), [[(None, None)]], {})
            elif which == '_bcompute':
                it.call(it.getattr(sim, '_bcompute'), [], {})
            else:
                vec = cx.NDArr(cx.Store('vector'))
                it.call(it.getattr(sim, 'jvec'), [vec], {})
        except cx._Raise as e:
            return 'raise', e.exc, st
        return 'return', None, st
    res = cx.explore(run, pc0=[z3.Int('max_workers') >= 1])
    clause(col, 'returns_normally', res, lambda r: r.outcome == 'return')

    def tasks_in_order(r):
        tasks = [x for x in r.state['log'] if x[0] == 'task']
        if len(tasks) != 3:
            return False
        ok = True
        for k, (s, f) in enumerate(SF3):
            t = tasks[k][2]
            if which == '_compute':
                ok = ok and t.get('source') is r.state['srcs'][s] and t.get('model') is r.state['sim'].fields['model']
            elif which == '_bcompute':
                ok = ok and isinstance(t.get('sfield'), cx.Obj) and t['sfield'].fields.get('__for__') == (s, f)
            else:
                ok = ok and isinstance(t.get('sfield'), cx.Obj) and ('E', 0, s, f) in cx.deps_of(t['sfield'])
        return ok
    clause(col, 'i_th_task_is_built_from_the_i_th_source_frequency_pair', res, tasks_in_order, sample=True)

    def slots(r):
        sim = r.state['sim']
        ok = True
        for k, (s, f) in enumerate(SF3):
            if which == '_compute':
                got = sim.fields['_dict_efield'][s][f]
                info = sim.fields['_dict_efield_info'][s][f]
                ok = ok and isinstance(got, cx.Obj) and cx.deps_of(got) == {('RESULT-OF-TASK', k)} and info == {'task': k}
            elif which == '_bcompute':
                got = sim.fields['_dict_bfield'][s][f]
                ok = ok and isinstance(got, cx.Obj) and cx.deps_of(got) == {('RESULT-OF-TASK', k)} and sim.fields['_dict_bfield_info'][s][f] == {'task': k}
        if which == 'jvec':
            # the response of slot k is sampled from the k-th result and written to row [src, :, freq] of data['jvec']
            muts = [e for e in r.mutations() if str(e['store'].origin).startswith('fresh') or True]
            wr = [e for e in r.events if e['kind'] == 'mutate' and e['how'] == 'setitem' and isinstance(e.get('key'), tuple) and len(e['key']) == 3]
            rows = [(e['key'][0], e['key'][2], cx.deps_of(e.get('value'))) for e in wr]
            ok = ok and [(a, b) for a, b, c in rows] == SF3 and all(('RESULT-OF-TASK', k) in c for k, (a, b, c) in enumerate(rows))
        return ok
    clause(col, 'slot_of_a_pair_receives_the_result_of_its_own_task', res, slots, sample=True)
    if which == '_compute':
        from .cxutil import canary
        canary(col, 'canary/slots_hold_results_in_reversed_order', res,
               lambda r: all(cx.deps_of(r.state['sim'].fields['_dict_efield'][s][f]) == {('RESULT-OF-TASK', 2 - k)} for k, (s, f) in enumerate(SF3)))
    return col.pack()


def task_solve_wrapper():
    col = ob.Collector(PROP, '_multiprocessing.solve')
    col.default_replay = replay
    col.function('_multiprocessing.solve')
    res = []
    for kind in ('source', 'sfield'):
        def mk(ctx, kind=kind):
            log = []

            def fct(name):
                def f(it, args, kw, node):
                    log.append((name, dict(kw)))
                    return (cx.Obj('Field', {'__id__': 'result'}), {'exit': 0})
                return f

            def i2g(it, args, kw, node):
                m = cx.Obj('Model', {'__interpolated_from__': args[0], '__grid__': args[1]})
                return m
            ctx.summaries.update({'solver.solve': fct('solve'), 'solver.solve_source': fct('solve_source'), 'models.Model.interpolate_to_grid': i2g})
            model = cx.Obj('Model', {}, mod='models')
            inp = dict(model=model, efield=cx.Obj('Field', {'__id__': 'start'}), solver_opts={'tol': z3.Real('tol'), 'verb': 1})
            if kind == 'source':
                inp.update(grid=cx.Obj('TensorMesh', {}), source=cx.Obj('Tx', {}), frequency=z3.Real('f'))
            else:
                g = cx.Obj('TensorMesh', {})
                inp.update(sfield=cx.Obj('Field', dict(grid=g)))
            return [inp], {}, dict(inp=dict(inp), log=log, kind=kind)
        res += cx.run_function('_multiprocessing.solve', mk, summaries={}, opts={})

    def ok(r):
        if r.outcome != 'return' or len(r.state['log']) != 1:
            return False
        name, kw = r.state['log'][0]
        inp = r.state['inp']
        good = name == ('solve_source' if r.state['kind'] == 'source' else 'solve')
        m = kw.get('model')
        grid = inp['grid'] if r.state['kind'] == 'source' else inp['sfield'].fields['grid']
        good = good and isinstance(m, cx.Obj) and m.fields.get('__interpolated_from__') is inp['model'] and m.fields.get('__grid__') is grid
        good = good and kw.get('efield') is inp['efield'] and kw.get('return_info') is True and kw.get('always_return') is True
        good = good and (kw.get('tol') is inp['solver_opts']['tol'] or (cx.is_sym(kw.get('tol')) and kw['tol'].eq(inp['solver_opts']['tol'])))
        if r.state['kind'] == 'source':
            good = good and kw.get('source') is inp['source'] and kw.get('frequency') is inp['frequency']
        else:
            good = good and kw.get('sfield') is inp['sfield']
        return good and isinstance(r.value, tuple) and len(r.value) == 2 and r.value[0].fields.get('__id__') == 'result'
    clause(col, 'forwards_its_own_task_and_returns_field_and_info', res, ok, sample=True)
    return col.pack()


def task_concrete():
    from . import c11_concrete
    col = ob.Collector(PROP, 'concrete')
    seed = int(os.environ.get('VERIF_SEED', '0'))
    tier = os.environ.get('VERIF_TIER', 'quick')
    r = ob.guarded(c11_concrete.check, tier, seed)
    col.concrete('results_identical_for_worker_counts_with_source_dependent_grids', r['reproduced'] is False, r,
                 bounded='1 source x 3 frequencies on three different computational grids (gridding=dict: small, large, medium); max_workers 1 vs 3 (quick) / 1..4 + file-based (thorough); fields, responses, misfit, gradient bit-identical',
                 cases=r.get('cases', 0))
    return col.pack()


def tasks(tier):
    return [('contracts.c11', 'task_process_map', {}), ('contracts.c11', 'task_slots', dict(which='_compute')),
            ('contracts.c11', 'task_slots', dict(which='_bcompute')), ('contracts.c11', 'task_slots', dict(which='jvec')),
            ('contracts.c11', 'task_solve_wrapper', {}), ('contracts.c11', 'task_concrete', {})]


LEVEL = ('Proof over the real source that process_map preserves the input order in all four branches (given the order contracts of the libraries) and that '
         '_compute, _bcompute and jvec build the i-th task from the i-th source-frequency pair and store the i-th result in that pair\'s slot (three pairs), '
         'and that the worker wrapper forwards exactly its own task.')
ASSUMPTIONS = ['order contracts of concurrent.futures.Executor.map, tqdm process_map, builtins.map, tqdm(iterable=...)',
               'a worker computes a deterministic function of its task (bit-identity of worker processes is only checked in the bounded concrete run)',
               'file-based hand-over (io.save / io.load) is not covered (C17 not applicable)']
