"""Shared kernel-level contracts of C09 (receiver sampling / point sources are transposes) and
C10 (sources inject their nominal moment): fields._point_vector.point_source, fields._edge_curl_factor,
the cell body of fields._dipole_vector, electrodes.rotation & conversions."""
import ast
import itertools

import sympy as sp
import z3

from pyvc import sx, ob, intake, prove
from . import spec
from .kernel_env import ZERO, ONE
from .c03 import bounds_obligations


def hatw(cc, i0, c, rc_needed=True):
    """linear hat weights of the two nodes i0, i0+1 of the 1-D vector cc at coordinate c"""
    r = (c - cc(i0)) * sx.RCP(cc(i0 + 1) - cc(i0))
    return 1 - r, r


def run_point_source(col, tag=''):
    fn = col.function('fields._point_vector.point_source')
    params = [a.arg for a in fn.args.args]
    if params != ['xx', 'yy', 'zz', 'coo', 's']:
        raise sx.OutsideSubset(f'point_source signature changed: {params}')
    n = z3.Ints('nx ny nz')
    hyps = [k >= 2 for k in n]
    V = [z3.Function(f'vec{k}', sx.I, sx.RS) for k in range(3)]
    vec = [sx.ArrObj(f'vec{k}', (n[k],), base=(lambda i, k=k: V[k](i))) for k in range(3)]
    coo = tuple(z3.Reals('c0 c1 c2'))
    s = sx.ArrObj('s', tuple(n), base=lambda *i: ZERO)
    X = sx.Ex('fields', pc=hyps)
    X.run_function(fn, vec + [coo, s])
    return X, n, V, coo, s, hyps


def point_source_facts(X, n, V, coo):
    """strictly increasing vectors (WF grid), finite coordinates below np.inf, instantiated where needed"""
    env = X.env
    facts = []
    for k, nm in enumerate(('ix', 'iy', 'iz')):
        i0 = env[nm]
        facts += [V[k](i0) < V[k](i0 + 1), coo[k] < sx.INF, V[k](i0) < sx.INF]
        for (fi, cond) in X.first_index_facts:
            facts += [V[k](fi - 1) < V[k](fi), z3.Implies(fi >= 2, V[k](fi - 2) < V[k](fi - 1))]
    return facts


def task_point_source(prop):
    col = ob.Collector(prop, 'fields._point_vector.point_source')
    from . import c0910_concrete
    col.default_replay = lambda d: ob.guarded(c0910_concrete.check_point_vector, seeds=(0, 1))
    X, n, V, coo, s, hyps = run_point_source(col)
    env = X.env
    I0 = [env['ix'], env['iy'], env['iz']]
    I1 = [env['ix1'], env['iy1'], env['iz1']]
    facts = point_source_facts(X, n, V, coo)
    pc = list(X.pc) + facts
    # the position lies within the range of every vector, below its last entry (for the component's own direction the vector holds
    # the cell centres, and a receiver position nodes[1] <= c lies in their FIRST interval: the first interval must not be excluded)
    inside = [z3.And(V[k](0) <= coo[k], coo[k] < V[k](n[k] - 1)) for k in range(3)]
    mono = []
    for k in range(3):
        j = z3.Int(f'mj{k}')
        # monotonicity instances: used to locate the cell
        mono += [z3.Implies(I0[k] >= 1, V[k](0) <= V[k](1))]
    h = pc + inside
    col.satisfiable('hyps-sat', h)
    if prop == 'C09':
        # cell search: the unique cell with cc[i] <= c < cc[i+1]
        for k, d in enumerate('xyz'):
            col.lia(f'cell_search/{d}_bracket', h + [z3.Implies(I0[k] == 0, V[k](0) <= coo[k])],
                    z3.And(V[k](I0[k]) <= coo[k], coo[k] < V[k](I0[k] + 1), I0[k] >= 0, I0[k] + 1 <= n[k] - 1, I1[k] == I0[k] + 1), sample=(k == 0))
        # the eight stores carry the product of the 1-D hat weights; every other cell stays zero
        side = [V[k](I0[k] + 1) - V[k](I0[k]) != 0 for k in range(3)]
        for o in itertools.product((0, 1), repeat=3):
            idx = [I0[k] + o[k] for k in range(3)]
            w = ONE
            for k in range(3):
                e, r = hatw(lambda i, k=k: V[k](i), I0[k], coo[k])
                w = w * (r if o[k] else e)
            col.eq(f'weights/corner{o[0]}{o[1]}{o[2]}_is_product_of_hat_weights', h + [I1[k] == I0[k] + 1 for k in range(3)],
                   s.read(idx), w, side=side, smt_sample=(o == (0, 0, 0)))
        q = z3.Ints('qx qy qz')
        outside = z3.Or(*[z3.And(q[k] != I0[k], q[k] != I0[k] + 1) for k in range(3)])
        col.eq('weights/all_other_cells_zero', h + [I1[k] == I0[k] + 1 for k in range(3)] + [outside], s.read(list(q)), ZERO)
        col.canary_eq('canary/corner000_with_swapped_weight', h + [I1[k] == I0[k] + 1 for k in range(3)], s.read(I0),
                      hatw(lambda i: V[0](i), I0[0], coo[0])[1] * hatw(lambda i: V[1](i), I0[1], coo[1])[0] * hatw(lambda i: V[2](i), I0[2], coo[2])[0],
                      side=side)
        bounds_obligations(col, X, h)
    else:
        # C10: the weights of one component sum to one -- in every branch (also the aliased stores at the last index)
        pcs_ = list(X.pc) + facts
        # enumerate which directions sit at the last index (ic == nc-1): then ic1 == ic, weights (1, 1) with aliased stores
        for last in itertools.product((False, True), repeat=3):
            hb = pcs_ + [(I0[k] == n[k] - 1) if last[k] else (I0[k] < n[k] - 1) for k in range(3)]
            if prove.check_sat(hb) != z3.sat:
                continue
            cells = set()
            tot = ZERO
            for o in itertools.product((0, 1), repeat=3):
                key = tuple(0 if last[k] else o[k] for k in range(3))
                if key in cells:
                    continue
                cells.add(key)
                tot = tot + s.read([I0[k] + key[k] for k in range(3)])
            side = [V[k](I0[k] + 1) - V[k](I0[k]) != 0 for k in range(3)]
            col.eq('sum_of_weights_is_one/last_' + ''.join('1' if x else '0' for x in last), hb, tot, ONE, side=side)
        col.canary_eq('canary/sum_of_weights_is_two', pcs_ + [I0[k] < n[k] - 1 for k in range(3)],
                      sum([s.read([I0[k] + o[k] for k in range(3)]) for o in itertools.product((0, 1), repeat=3)], ZERO), ONE + ONE,
                      side=[V[k](I0[k] + 1) - V[k](I0[k]) != 0 for k in range(3)])
        # every store lands inside the array for EVERY position (also before the first / behind the last entry of a vector, i.e. in the
        # first and last half cell of the component's own direction): no index below zero, none beyond the end
        bounds_obligations(col, X, pcs_, prefix='bounds_for_every_position')
        # non-negativity for positions inside the vectors
        hb = pcs_ + [I0[k] < n[k] - 1 for k in range(3)] + [V[k](I0[k]) <= coo[k] for k in range(3)]
        for k, d in enumerate('xyz'):
            rc = z3.Real(f'rc{k}')
            e_, r_ = (1 - (coo[k] - V[k](I0[k])) * rc), (coo[k] - V[k](I0[k])) * rc
            col.lia(f'weights_nonnegative/{d}', hb + [rc * (V[k](I0[k] + 1) - V[k](I0[k])) == 1, coo[k] < V[k](I0[k] + 1)],
                    z3.And(e_ >= 0, r_ >= 0, e_ <= 1, r_ <= 1))
    return col.pack()


# ------------------------------------------------------------------ _edge_curl_factor (C09-P4)
def task_edge_curl_factor():
    col = ob.Collector('C09', 'fields._edge_curl_factor')
    from . import c0910_concrete
    col.default_replay = lambda d: ob.guarded(c0910_concrete.check_magnetic, seeds=(0,))
    fn = col.function('fields._edge_curl_factor')
    params = [a.arg for a in fn.args.args]
    if params != ['mx', 'my', 'mz', 'ex', 'ey', 'ez', 'hx', 'hy', 'hz', 'zeta']:
        raise sx.OutsideSubset('_edge_curl_factor signature changed')
    from .kernel_env import KEnv
    K = KEnv()
    n = K.n
    face_shape = dict(x=(n[0] + 1, n[1], n[2]), y=(n[0], n[1] + 1, n[2]), z=(n[0], n[1], n[2] + 1))
    M = {c: sx.ArrObj('m' + c, face_shape[c]) for c in 'xyz'}
    X = sx.Ex('fields', pc=K.hyps, loops={0: ('sym', 'iz'), 1: ('sym', 'iy'), 2: ('sym', 'body')})
    args = [M['x'], M['y'], M['z'], K.a('ex'), K.a('ey'), K.a('ez'), K.a('hx'), K.a('hy'), K.a('hz'), K.a('zeta')]
    X.run_function(fn, args)
    env = X.snap['body']['env']
    I = (env['ix'], env['iy'], env['iz'])
    hyps = X.snap['body']['pc']
    post = X.snap['body']['arr']
    e = {c: K.acc0('e' + c) for c in 'xyz'}
    ih = K.ih()
    zeta = K.acc0('zeta')
    hacc = [K.acc0('hx'), K.acc0('hy'), K.acc0('hz')]
    col.satisfiable('hyps-sat', hyps)
    for k, c in enumerate('xyz'):
        h = hyps + [I[k] >= 1]
        # discrete Faraday, volume weighted: curl (the C02 stencil) times (zeta- + zeta+) / ((h- + h+) * area widths)
        Im = list(I)
        Im[k] = I[k] - 1
        dual = hacc[k](Im[k]) + hacc[k](I[k])
        others = [j for j in range(3) if j != k]
        want = spec.curl(c, e, ih, *I) * (zeta(*Im) + zeta(*I)) * sx.RCP(dual * hacc[others[0]](I[others[0]]) * hacc[others[1]](I[others[1]]))
        col.eq(f'post/m{c}_is_volume_weighted_curl', h, post[M[c].uid].read(list(I)), want, smt_sample=(c == 'x'))
        col.eq(f'post/m{c}_untouched_on_first_face', hyps + [I[k] == 0], post[M[c].uid].read(list(I)), M[c].read0(I))
    col.canary_eq('canary/mx_without_dual_width', hyps + [I[0] >= 1], post[M['x'].uid].read(list(I)),
                  spec.curl('x', e, ih, *I) * (zeta(I[0] - 1, I[1], I[2]) + zeta(*I)) * sx.RCP(hacc[1](I[1]) * hacc[2](I[2])))
    writes = [b for b in X.bounds if b['kind'] == 'write']
    col.lia('frame/writes_only_own_face', hyps, z3.And(z3.BoolVal(all(w['arr'] in ('mx', 'my', 'mz') for w in writes) and len(writes) == 3),
                                                      *[z3.And(*[a == b for a, b in zip(w['idx'], I)]) for w in writes]))
    bounds_obligations(col, X, hyps)
    return col.pack()


# ------------------------------------------------------------------ _dipole_vector cell body (C10)
def task_dipole_cell():
    col = ob.Collector('C10', 'fields._dipole_vector/cell')
    from . import c0910_concrete
    col.default_replay = lambda d: ob.guarded(c0910_concrete.check_sources, 'quick', 0)
    fn = col.function('fields._dipole_vector')
    loops = [l for l in intake.loops_preorder(fn) if isinstance(l, ast.For)]
    inner = None
    for l in loops:
        if isinstance(l.target, ast.Name) and l.target.id == 'ix' and not any(isinstance(x, ast.For) for x in l.body):
            inner = l
    if inner is None:
        raise sx.OutsideSubset('_dipole_vector: innermost ix loop not found')
    # statements of the cell body from `xmin = ...` on (after the clipping interval [al, ar] has been computed)
    names = [s.targets[0].id if isinstance(s, ast.Assign) and isinstance(s.targets[0], ast.Name) else None for s in inner.body]
    if 'xmin' not in names or 'ar' not in names or names.index('ar') > names.index('xmin'):
        raise sx.OutsideSubset('_dipole_vector: cell body does not have the expected al/ar -> xmin structure')
    body = inner.body[names.index('xmin'):]
    n = z3.Ints('nx ny nz')
    ix, iy, iz = z3.Ints('ix iy iz')
    al, ar = z3.Reals('al ar')
    P0 = z3.Reals('p0x p0y p0z')
    D = z3.Reals('dx dy dz')
    hyps = [k >= 1 for k in n] + [0 <= ix, ix < n[0], 0 <= iy, iy < n[1], 0 <= iz, iz < n[2], 0 <= al, al <= ar, ar <= 1]
    NX = [z3.Function(f'node{d}', sx.I, sx.RS) for d in 'xyz']
    nodes = [sx.ArrObj(f'nodes_{d}', (n[k] + 1,), base=(lambda i, k=k: NX[k](i))) for k, d in enumerate('xyz')]
    hh = [sx.ArrObj(f'h{k}', (n[k],), base=(lambda i, k=k: NX[k](i + 1) - NX[k](i))) for k in range(3)]
    points = sx.ArrObj('points', (2, 3), base=lambda r, c: z3.If(r == 0, _sel(P0, c), _sel(P0, c) + _sel(D, c)))
    dxdydz = sx.LocalArr(list(D), 'dxdydz')
    F = {c: sx.ArrObj('f' + c, spec.edge_shape(c, n)) for c in 'xyz'}
    length = z3.Real('length')
    norms = []

    def norm(ex_, args, node):
        v = args[0]
        comps = [v.read([k]) if isinstance(v, sx.ArrObj) else v.vals[k] for k in range(3)]
        N = z3.Real(f'norm{len(norms)}')
        norms.append((N, comps))
        ex_.pc += [N >= 0, N * N == sum([c * c for c in comps], ZERO)]
        return N
    X = sx.Ex('fields', pc=hyps + [length > 0, length * length == D[0] * D[0] + D[1] * D[1] + D[2] * D[2]],
              funcs={'np.linalg.norm': norm, 'np.max': lambda ex_, a, nd: a[0], 'abs': None})
    X.funcs.pop('abs')
    grid = dict(h=tuple(hh))
    vfield = dict(fx=F['x'], fy=F['y'], fz=F['z'])
    X.env = dict(points=points, dxdydz=dxdydz, al=al, ar=ar, length=length, nodes_x=nodes[0], nodes_y=nodes[1], nodes_z=nodes[2],
                 grid=grid, vfield=vfield, ix=ix, iy=iy, iz=iz, np=sx.Opaque('np'))
    for a in list(F.values()) + nodes + hh + [points]:
        X.arrays.append(a)
    try:
        X.run(body)
    except sx._Return:
        pass
    pc = list(X.pc)
    col.satisfiable('hyps-sat', pc)
    x_len = X.env['x_len']
    guard = None
    wr = [b for b in X.bounds if b['kind'] == 'write']
    extra = []
    for b in wr:
        extra = [g for g in b['hyps'] if not any(g.eq(hp) for hp in pc)]
    guard = z3.And(*extra) if extra else z3.BoolVal(True)
    col.lia('guard/writes_happen_only_under_the_in_cell_and_nonempty_guard', [], z3.BoolVal(len(extra) >= 1 and len(wr) == 12))
    # D5: clipped length fraction
    col.lia('x_len_is_the_clipped_length_fraction', pc, x_len == ar - al, sample=True)
    # the remaining obligations use x_len only through this fact: abstract it (keeps the queries linear in x_len)
    XL = z3.Real('x_len')
    x_len_term = sx.toreal(x_len)
    norm_syms = {str(N) for N, _ in norms}
    pc = [hh_ for hh_ in pc if not any(str(v) in norm_syms or str(v) == 'length' for v in _consts(hh_))] + [XL == ar - al]
    guard = z3.substitute(guard, (x_len_term, XL))
    for c in 'xyz':
        F[c].st = sx.ArrState(F[c].st.base, tuple((None if g is None else z3.substitute(g, (x_len_term, XL)), wi, z3.substitute(wv, (x_len_term, XL)))
                                                     for g, wi, wv in F[c].st.writes))
    x_len = XL
    # D1: per component the four increments sum to x_len; D2: each is >= 0; D3: only the 12 edges of the cell
    cell_edges = {'x': [(0, 0, 0), (0, 1, 0), (0, 0, 1), (0, 1, 1)], 'y': [(0, 0, 0), (1, 0, 0), (0, 0, 1), (1, 0, 1)],
                  'z': [(0, 0, 0), (1, 0, 0), (0, 1, 0), (1, 1, 0)]}
    side = [NX[k](I + 1) - NX[k](I) != 0 for k, I in enumerate((ix, iy, iz))]
    for c in 'xyz':
        tot = ZERO
        for o in cell_edges[c]:
            idx = [ix + o[0], iy + o[1], iz + o[2]]
            inc = F[c].read(idx) - F[c].read0(idx)
            tot = tot + inc
            col.lia(f'increments_nonnegative/f{c}_{o[0]}{o[1]}{o[2]}', pc + [guard, x_len == ar - al], inc >= 0)
        col.eq(f'increments_sum_to_clipped_length/f{c}', pc + [guard], tot, sx.toreal(x_len), side=side, smt_sample=(c == 'x'))
        q = z3.Ints('qx qy qz')
        notcell = z3.And(*[z3.Or(*[q[k] != (ix, iy, iz)[k] + o[k] for k in range(3)]) for o in cell_edges[c]])
        col.eq(f'frame/f{c}_only_edges_of_this_cell', pc + [notcell], F[c].read(list(q)), F[c].read0(q))
        col.eq(f'frame/f{c}_nothing_written_when_guard_fails', pc + [z3.Not(guard)], F[c].read([ix, iy, iz]), F[c].read0([ix, iy, iz]))
    col.canary_eq('canary/fx_increments_sum_to_twice_the_length', pc + [guard],
                  sum([F['x'].read([ix + o[0], iy + o[1], iz + o[2]]) - F['x'].read0([ix + o[0], iy + o[1], iz + o[2]]) for o in cell_edges['x']], ZERO),
                  2 * sx.toreal(x_len), side=side)
    bounds_obligations(col, X, pc + [guard])
    return col.pack()


class NoBinding(Exception):
    """the call does not fit the signature (Python would raise TypeError)"""


def bind_call(qualname, args, kwargs):
    """parameter name -> value for a call of the repo function / class `qualname` (for a class: its __init__, without self),
    using the signature read from the CURRENT source: positional and keyword forms of the same call give the same binding.
    Defaults are evaluated as literals (anything else stays an ast node)."""
    node, _, _ = intake.func(qualname)
    skip = 0
    if isinstance(node, ast.ClassDef):
        init = [b for b in node.body if isinstance(b, ast.FunctionDef) and b.name == '__init__']
        if not init:
            raise NoBinding(f'{qualname} has no __init__ of its own')
        node, skip = init[0], 1
    a = node.args
    if a.vararg is not None or a.kwonlyargs or a.posonlyargs:
        raise NoBinding(f'{qualname}: signature with * / keyword-only / positional-only parameters')
    params = [p.arg for p in a.args][skip:]
    defaults = dict(zip(params[len(params) - len(a.defaults):], a.defaults)) if a.defaults else {}
    if len(args) > len(params):
        raise NoBinding('too many positional arguments')
    out = dict(zip(params, args))
    extra = {}
    for k, v in kwargs.items():
        if k in out or (k not in params and a.kwarg is None):
            raise NoBinding(f'unexpected or repeated argument {k}')
        if k in params:
            out[k] = v
        else:
            extra[k] = v          # collected by the ** parameter
    if a.kwarg is not None:
        out['**'] = extra
    for p in params:
        if p not in out:
            if p not in defaults:
                raise NoBinding(f'missing argument {p}')
            try:
                out[p] = ast.literal_eval(defaults[p])
            except Exception:
                out[p] = defaults[p]
    return out


def _consts(e):
    out, seen = [], set()

    def walk(t):
        if t.get_id() in seen:
            return
        seen.add(t.get_id())
        if z3.is_const(t) and t.decl().kind() == z3.Z3_OP_UNINTERPRETED:
            out.append(t)
        for c in t.children():
            walk(c)
    walk(e)
    return out


def _sel(v, c):
    r = v[2]
    for k in (1, 0):
        r = z3.If(c == k, v[k], r)
    return r


# ------------------------------------------------------------------ electrodes: rotation & conversions (sympy on source terms)
def sym_env_electrodes():
    az, el = sp.symbols('azimuth elevation', real=True)
    return az, el


def task_rotation(prop):
    """rotation == (cos az cos el, sin az cos el, sin el) (degrees), unit norm; both _point_vector and get_receiver call it"""
    col = ob.Collector(prop, 'electrodes.rotation')
    col.trust('sympy 1.14 (trigonometric identities), cross-checked numerically')
    fn = col.function('electrodes.rotation')
    import time
    t0 = time.time()
    # read the returned expression from the source
    ret = [s for s in ast.walk(fn) if isinstance(s, ast.Return)]
    ok = len(ret) == 1 and isinstance(ret[0].value, ast.Call) and len(ret[0].value.args) == 1 and isinstance(ret[0].value.args[0], ast.List)
    az, el = sp.symbols('az el', real=True)
    comps = []
    if ok:
        env = dict(azimuth=az, elevation=el)

        def tr(node):
            if isinstance(node, ast.BinOp) and isinstance(node.op, ast.Mult):
                return tr(node.left) * tr(node.right)
            if isinstance(node, ast.Call) and isinstance(node.func, ast.Name) and node.func.id in ('cos', 'sin') and len(node.args) == 1:
                a = node.args[0]
                if isinstance(a, ast.Name) and a.id in env:
                    return (sp.cos if node.func.id == 'cos' else sp.sin)(env[a.id])
            raise ValueError(ast.unparse(node))
        try:
            comps = [tr(e) for e in ret[0].value.args[0].elts]
        except ValueError as e:
            ok = False
    # deg branch binds cos/sin to the degree versions, else to np.cos/np.sin
    src = ast.unparse(fn)
    ok = ok and 'sp.special.cosdg, sp.special.sindg' in src and 'np.cos, np.sin' in src and len(comps) == 3
    want = [sp.cos(az) * sp.cos(el), sp.sin(az) * sp.cos(el), sp.sin(el)]
    if not ok:
        col.undecided('returned_expression_in_subset', 'electrodes.rotation: return expression not of the form np.array([products of cos/sin])')
        return col.pack()
    for k, d in enumerate('xyz'):
        z = sp.simplify(comps[k] - want[k])
        col._add(f'component_{d}_is_the_documented_direction_cosine', 'vc',
                 dict(status='proved' if z == 0 else 'refuted', backend='sympy', time=round(time.time() - t0, 3), sample=f'{comps[k]} == {want[k]}'))
    nrm = sp.simplify(sum(c ** 2 for c in comps) - 1)
    col._add('unit_norm', 'vc', dict(status='proved' if nrm == 0 else 'refuted', backend='sympy', time=round(time.time() - t0, 3)))
    col._add('canary/norm_two', 'canary', dict(status='ok' if sp.simplify(sum(c ** 2 for c in comps) - 2) != 0 else 'canary-not-refuted', backend='sympy', time=0.0))
    return col.pack()
