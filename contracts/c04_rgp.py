"""C04 -- the body of solver.RegularGridProlongator under contract (was: assumed contract RGP + bounded check).

Contract RGP (what solver.prolongation relies on, contracts/c04_prolong.py):

    fn = RegularGridProlongator(cx, cy, x, y);    r = fn(values)            values: 2-D array over the coarse nodes (cx, cy)
    r.reshape((len(x), len(y)), order='F')[a, b] == sum_{I,J} hat_cx(I; x[a]) * hat_cy(J; y[b]) * values[I, J]

with the piecewise-linear hat functions of the coarse node vectors: for x[a] in a coarse interval [cx[I], cx[I+1]] the only non-zero
weights are (cx[I+1]-x[a])/(cx[I+1]-cx[I]) at I and (x[a]-cx[I])/(cx[I+1]-cx[I]) at I+1.  Stated without an existential: for EVERY
pair of coarse intervals (I, J) that contain the point,  r[a,b] == the bilinear interpolant of values on that pair (two admissible
intervals at a node give the same number, so the clause is consistent).  Preconditions (hold at the call sites in prolongation(),
where the coarse nodes are every second fine node): cx, cy strictly increasing with at least two nodes, cx[0] <= x[a] <= cx[-1],
cy[0] <= y[b] <= cy[-1].

How it is proved: the class is executed from its current source by the control executor (cx) on *point-wise* values: every array of
length `size` (one entry per fine point) is represented by its generic element at the symbolic fine point (a, b).  numpy's layout
functions enter as dependency contracts (listed in the evidence):
  broadcast_arrays(y, x[:, None])  -> two (nx, ny) arrays  [a,b] -> y[b], x[a]
  A.ravel('F') of an (nx, ny) array -> 1-D, entry of point p = a + nx*b is A[a, b]           (Fortran order)
  np.r_[u, v].reshape(-1, 2, order='F') for len(u) == len(v) == S -> (S, 2) array with columns u, v;  .T iterates over the columns
  np.searchsorted(g, v) (g increasing) -> the first index k in 0..len(g) with g[k] >= v  =>  k > 0 -> g[k-1] < v;  k < len(g) -> v <= g[k]
  i[mask] = c,  np.where(mask, u, v),  g[i], values[(i0, i1)] (gather), element-wise arithmetic: point-wise
  np.ones((4, S)) -> four rows of ones;  w[n, :] = row;  itertools.product / tee on lists
The obligations are nonlinear real arithmetic in two coordinates and eight coarse-node values: milliseconds.
"""
import ast

import z3

from pyvc import cx, ob, sx, prove

PROP = 'C04'
I, RS = z3.IntSort(), z3.RealSort()
A, B = z3.Ints('a_fine b_fine')
NX, NY, MX, MY = z3.Ints('n_x n_y m_cx m_cy')
GX = z3.Function('cx_node', I, RS)
GY = z3.Function('cy_node', I, RS)
FX = z3.Function('x_node', I, RS)
FY = z3.Function('y_node', I, RS)
VAL = z3.Function('coarse_value', I, I, RS)
S = z3.Int('size_S')


def Rr(v):
    v = cx.R(v)
    return z3.ToReal(v) if z3.is_int(v) else v


class PW(cx.Ext):
    """array with one entry per fine point: generic element at the symbolic point (A, B)"""

    def __init__(self, val, kind='real'):
        self.val, self.kind = val, kind

    def __repr__(self):
        return f'<PW {self.kind} {str(self.val)[:60]}>'

    def cx_getattr(self, it, attr):
        if attr == 'size':
            return S
        return NotImplemented

    def cx_binop(self, it, op, other, reflected):
        if isinstance(other, PW):
            o = other.val
        elif isinstance(other, (int, float)) and not isinstance(other, bool) or cx.is_sym(other):
            o = cx.R(other)
        else:
            return NotImplemented
        a, b = (o, self.val) if reflected else (self.val, o)
        both_int = z3.is_int(a) and z3.is_int(b)
        if not both_int:
            a, b = Rr(a), Rr(b)
        if isinstance(op, ast.Add):
            r = a + b
        elif isinstance(op, ast.Sub):
            r = a - b
        elif isinstance(op, ast.Mult):
            r = a * b
        elif isinstance(op, ast.Div):
            a, b = Rr(a), Rr(b)
            it.ctx.event('division', divisor=b, pc=list(it.ctx.pc))
            r = a * sx.RCP(b)          # reciprocal atom (b * rcp(b) == 1 for b != 0), as in the kernel executor
            both_int = False
        else:
            return NotImplemented
        return PW(r, 'int' if both_int else 'real')

    def cx_cmp(self, it, op, other, reflected):
        if isinstance(other, PW):
            o = other.val
        elif isinstance(other, (int, float)) and not isinstance(other, bool) or cx.is_sym(other):
            o = cx.R(other)
        else:
            return NotImplemented
        a, b = (o, self.val) if reflected else (self.val, o)
        if z3.is_int(a) != z3.is_int(b):
            a, b = Rr(a), Rr(b)
        ops = {ast.Gt: lambda p, q: p > q, ast.Lt: lambda p, q: p < q, ast.GtE: lambda p, q: p >= q, ast.LtE: lambda p, q: p <= q,
               ast.Eq: lambda p, q: p == q, ast.NotEq: lambda p, q: p != q}
        if type(op) not in ops:
            return NotImplemented
        return PW(ops[type(op)](a, b), 'bool')

    def cx_setitem(self, it, key, value):
        # i[mask] = scalar
        if isinstance(key, PW) and key.kind == 'bool' and (isinstance(value, (int, float)) or cx.is_sym(value)) and not isinstance(value, bool):
            v = cx.R(value)
            if z3.is_int(self.val) != z3.is_int(v):
                v, self.val = Rr(v), Rr(self.val)
            self.val = z3.If(key.val, v, self.val)
            return True
        return NotImplemented


class Grid(cx.Ext):
    """1-D coordinate vector: length m, element function g"""

    def __init__(self, name, m, g):
        self.name, self.m, self.g = name, m, g

    def __repr__(self):
        return f'<Grid {self.name}>'

    def cx_getattr(self, it, attr):
        if attr == 'size':
            return self.m
        if attr == 'shape':
            return (self.m,)
        return NotImplemented

    def cx_getitem(self, it, key):
        if isinstance(key, PW) and key.kind == 'int':
            it.ctx.event('gather', grid=self.name, index=key.val, length=self.m, pc=list(it.ctx.pc))
            return PW(self.g(key.val))
        if isinstance(key, tuple) and len(key) == 2 and key[0] == slice(None, None, None) and key[1] is None:
            return Bcast((self.m, 1), lambda a, b: self.g(a), f'{self.name}[:,None]')
        if isinstance(key, int) or (cx.is_sym(key) and z3.is_int(key)):
            return self.g(cx.R(key))
        return NotImplemented


class Bcast(cx.Ext):
    """2-D array given by an element function"""

    def __init__(self, shape, fn, name):
        self.shape, self.fn, self.name = shape, fn, name

    def cx_getattr(self, it, attr):
        if attr == 'ravel':
            return cx.LibFn('rgp.ravel', bound=self)
        if attr == 'shape':
            return self.shape
        return NotImplemented


class Flat(cx.Ext):
    """np.r_[u, v] of two point-wise arrays (length 2 S)"""

    def __init__(self, parts):
        self.parts = parts

    def cx_getattr(self, it, attr):
        if attr == 'reshape':
            return cx.LibFn('rgp.reshape', bound=self)
        return NotImplemented


class Cols(cx.Ext):
    """(S, k) array with point-wise columns;  .T iterates over the columns"""

    def __init__(self, cols, transposed=False):
        self.cols, self.transposed = cols, transposed

    def cx_getattr(self, it, attr):
        if attr == 'shape':
            return (len(self.cols), S) if self.transposed else (S, len(self.cols))
        if attr == 'T':
            return Cols(self.cols, not self.transposed)
        return NotImplemented

    def cx_iter(self, it):
        if not self.transposed:
            raise cx.Unsupported('iteration over the rows of a point array')
        return list(self.cols)


class Rows(cx.Ext):
    """(k, S) array: k point-wise rows (np.ones((4, S)));  w[n, :] reads / writes a row"""

    def __init__(self, rows):
        self.rows = rows

    def cx_getitem(self, it, key):
        if isinstance(key, int) and not isinstance(key, bool):
            key = (key, slice(None, None, None))          # w[n] is the row w[n, :]
        if isinstance(key, tuple) and len(key) == 2 and isinstance(key[0], int) and key[1] == slice(None, None, None):
            if not 0 <= key[0] < len(self.rows):
                raise cx._Raise(cx.ExcVal('IndexError'))
            return self.rows[key[0]]
        return NotImplemented

    def cx_setitem(self, it, key, value):
        if isinstance(key, int) and not isinstance(key, bool):
            key = (key, slice(None, None, None))
        if isinstance(key, tuple) and len(key) == 2 and isinstance(key[0], int) and key[1] == slice(None, None, None) \
                and 0 <= key[0] < len(self.rows):
            if isinstance(value, PW):
                self.rows[key[0]] = PW(value.val, value.kind)
            elif isinstance(value, (int, float)) and not isinstance(value, bool):
                self.rows[key[0]] = PW(cx.R(float(value)))
            else:
                return NotImplemented
            return True
        return NotImplemented


class Values(cx.Ext):
    """2-D coarse array; values[(i0, i1)] with point-wise index arrays gathers"""

    def cx_getitem(self, it, key):
        if isinstance(key, tuple) and len(key) == 2 and all(isinstance(k, PW) and k.kind == 'int' for k in key):
            it.ctx.event('gather2', index=(key[0].val, key[1].val), pc=list(it.ctx.pc))
            return PW(VAL(key[0].val, key[1].val))
        return NotImplemented


def rgp_prelude():
    P = {}

    def broadcast_arrays(it, f, args, kw, node):
        y, xc = args
        if not (isinstance(y, Grid) and isinstance(xc, Bcast) and xc.shape[1] == 1):
            raise cx.Unsupported('np.broadcast_arrays: expected (y, x[:, None])')
        ob_used('np.broadcast_arrays(y, x[:,None]) -> two (len x, len y) arrays: [a,b] -> y[b] and x[a]')
        n0, n1 = xc.shape[0], y.m
        return [Bcast((n0, n1), lambda a, b: y.g(b), 'by'), Bcast((n0, n1), lambda a, b, xc=xc: xc.fn(a, 0), 'bx')]
    P['np.broadcast_arrays'] = broadcast_arrays

    def ravel(it, f, args, kw, node):
        arr = f.bound
        order = args[0] if args else kw.get('order', 'C')
        if order != 'F' or not isinstance(arr, Bcast):
            raise cx.Unsupported("ravel: only Fortran order of a 2-D array is modelled")
        # the point arrays of the class are indexed by the fine point (a, b) with flat index a + len(x)*b: requires shape (NX, NY)
        if not (arr.shape[0].eq(NX) and arr.shape[1].eq(NY)):
            raise cx.Unsupported('ravel of an array that is not (len x, len y)')
        ob_used("A.ravel('F') of an (nx, ny) array: entry of the point with flat index a + nx*b is A[a, b]")
        return PW(arr.fn(A, B))
    P['rgp.ravel'] = ravel

    def r_(it, parts):
        if len(parts) == 2 and all(isinstance(p, PW) for p in parts):
            ob_used('np.r_[u, v]: concatenation')
            return Flat(list(parts))
        raise cx.Unsupported('np.r_ of these values')
    P['np.r_'] = r_

    def reshape(it, f, args, kw, node):
        fl = f.bound
        shp = args[0] if len(args) == 1 and isinstance(args[0], tuple) else tuple(args)
        if not (isinstance(fl, Flat) and shp == (-1, 2) and kw.get('order') == 'F'):
            raise cx.Unsupported('reshape: only np.r_[u, v].reshape(-1, 2, order="F") is modelled')
        ob_used("np.r_[u, v].reshape(-1, 2, order='F') with len(u) == len(v) == S: the (S, 2) array with columns u and v")
        return Cols(list(fl.parts))
    P['rgp.reshape'] = reshape

    def searchsorted(it, f, args, kw, node):
        g, v = args
        if not (isinstance(g, Grid) and isinstance(v, PW)) or kw:
            raise cx.Unsupported('np.searchsorted: expected (coordinate vector, point array)')
        ob_used('np.searchsorted(g, v), g increasing, side=left: first index k in 0..len(g) with g[k] >= v (k > 0 -> g[k-1] < v; k < len(g) -> v <= g[k])')
        k = it.ctx.fresh_int(f'ss_{g.name}')
        it.ctx.assume(z3.And(0 <= k, k <= g.m))
        it.ctx.event('search', grid=g.name, k=k)
        it.ctx.assume(z3.Implies(k > 0, g.g(k - 1) < v.val))
        it.ctx.assume(z3.Implies(k < g.m, v.val <= g.g(k)))
        return PW(k, 'int')
    P['np.searchsorted'] = searchsorted

    def where(it, f, args, kw, node):
        if len(args) == 3 and isinstance(args[0], PW) and args[0].kind == 'bool':
            u, v = [a.val if isinstance(a, PW) else cx.R(a) for a in args[1:]]
            if z3.is_int(u) != z3.is_int(v):
                u, v = Rr(u), Rr(v)
            return PW(z3.If(args[0].val, u, v), 'int' if z3.is_int(u) else 'real')
        raise cx.Unsupported('np.where of these values')
    P['np.where'] = where

    def isclose(it, f, args, kw, node):
        a, b = args[:2]
        if not (isinstance(a, PW) or isinstance(b, PW)):
            raise cx.Unsupported('np.isclose of these values')
        rtol = kw.get('rtol', args[2] if len(args) > 2 else 1e-5)
        atol = kw.get('atol', args[3] if len(args) > 3 else 1e-8)
        if not all(isinstance(t, (int, float)) for t in (rtol, atol)):
            raise cx.Unsupported('np.isclose with symbolic tolerances')
        ob_used('np.isclose(a, b, rtol=1e-5, atol=1e-8): element-wise |a - b| <= atol + rtol*|b| (finite values)')
        av = Rr(a.val if isinstance(a, PW) else a)
        bv = Rr(b.val if isinstance(b, PW) else b)
        ab = lambda t: z3.If(t >= 0, t, -t)
        return PW(ab(av - bv) <= cx.R(float(atol)) + cx.R(float(rtol)) * ab(bv), 'bool')
    P['np.isclose'] = isclose

    def ones(it, f, args, kw, node):
        shp = args[0]
        if isinstance(shp, tuple) and len(shp) == 2 and isinstance(shp[0], int) and cx.is_sym(shp[1]) and shp[1].eq(S):
            return Rows([PW(z3.RealVal(1)) for _ in range(shp[0])])
        raise cx.Unsupported('np.ones of this shape')
    P['np.ones'] = ones

    def asarray(it, f, args, kw, node):
        if isinstance(args[0], PW):
            return args[0]
        raise cx.Unsupported('np.asarray of this value')
    P['np.asarray'] = asarray

    def tee(it, f, args, kw, node):
        ob_used('itertools.tee(it): two independent iterators over the same items')
        items = it.iterate(args[0])
        return (list(items), list(items))
    P['itertools.tee'] = tee
    return P


_USED = set()


def ob_used(text):
    _USED.add(text)


def hat_pair(g, k, v):
    """weights of the linear interpolant on the coarse interval [g(k), g(k+1)] at coordinate v"""
    w1 = (v - g(k)) * sx.RCP(g(k + 1) - g(k))
    return 1 - w1, w1


def explore_rgp():
    """all paths of RegularGridProlongator(cx, cy, x, y)(values) at the generic fine point (A, B)"""
    pre = [NX >= 1, NY >= 1, MX >= 2, MY >= 2, S >= 1, 0 <= A, A < NX, 0 <= B, B < NY,
           GX(0) <= FX(A), FX(A) <= GX(MX - 1), GY(0) <= FY(B), FY(B) <= GY(MY - 1)]

    def run(ctx):
        it = cx.Interp(ctx, 'solver')
        cxg, cyg = Grid('cx', MX, lambda k: GX(k)), Grid('cy', MY, lambda k: GY(k))
        xg, yg = Grid('x', NX, lambda k: FX(k)), Grid('y', NY, lambda k: FY(k))
        try:
            obj = it.instantiate(cx.ClassRef('solver', 'RegularGridProlongator'), [cxg, cyg, xg, yg], {})
            call = it.getattr(obj, '__call__')
            r = it.call(call, [Values()], {})
            return 'return', r, dict(obj=obj)
        except cx._Raise as e:
            return 'raise', e.exc, {}
    return pre, cx.explore(run, pre, opts=dict(prelude=rgp_prelude(), r_hook=True), max_paths=400)


def sorted_instances(terms_idx, g, m):
    """strict monotonicity of a node vector instantiated at pairs of index terms (k < l -> g(k) < g(l)), adjacent form included"""
    out = []
    for k in terms_idx:
        out.append(z3.Implies(z3.And(0 <= k, k + 1 < m), g(k) < g(k + 1)))
        for l in terms_idx:
            if not k.eq(l):
                out.append(z3.Implies(z3.And(0 <= k, k < l, l < m), g(k) < g(l)))
    return out


def task_rgp():
    col = ob.Collector(PROP, 'solver.RegularGridProlongator')
    col.function('solver.RegularGridProlongator')

    def replay(d):
        from . import c04_concrete
        return ob.guarded(c04_concrete.check_prolongation, (0, 5, 6), [(4, 6, 8)], (0,))
    col.default_replay = replay
    pre, paths = explore_rgp()
    col.satisfiable('hyps-sat', pre)
    Ic, Jc = z3.Ints('I_coarse J_coarse')
    ok_paths = [p for p in paths if p.outcome == 'return']
    col.lia('returns_normally_on_every_path', [], z3.BoolVal(len(ok_paths) == len(paths) and len(paths) >= 1))
    goals, bound_goals, div_goals = [], [], []
    X, Yv = FX(A), FY(B)
    # case split per axis over how the point sits in the contract's interval [g(I), g(I+1)]
    def axis_cases(g, k, v):
        return {'inside_or_right_node': [g(k) < v], 'left_node_first_interval': [g(k) == v, k == 0], 'left_node_later_interval': [g(k) == v, k >= 1]}
    for p in ok_paths:
        r = p.value
        if not isinstance(r, PW):
            raise cx.Unsupported('RegularGridProlongator.__call__ did not return a point array')
        pc = list(p.pc)
        # index terms occurring on this path (search results, gather indices) + the contract's interval indices
        idx_terms = [z3.IntVal(0), MX - 1, MY - 1, MX - 2, MY - 2, Ic - 1, Ic, Ic + 1, Jc - 1, Jc, Jc + 1]
        for e in p.events:
            if e['kind'] == 'gather':
                idx_terms.append(e['index'])
            if e['kind'] == 'gather2':
                idx_terms += list(e['index'])
            if e['kind'] == 'search':
                idx_terms += [e['k'], e['k'] - 1]
        seen, uniq = set(), []
        for t in idx_terms:
            t = z3.simplify(t)
            if t.sexpr() not in seen:
                seen.add(t.sexpr())
                uniq.append(t)
        mono = sorted_instances(uniq, GX, MX) + sorted_instances(uniq, GY, MY)
        wx0, wx1 = hat_pair(GX, Ic, X)
        wy0, wy1 = hat_pair(GY, Jc, Yv)
        spec = wx0 * wy0 * VAL(Ic, Jc) + wx0 * wy1 * VAL(Ic, Jc + 1) + wx1 * wy0 * VAL(Ic + 1, Jc) + wx1 * wy1 * VAL(Ic + 1, Jc + 1)
        bracket = [0 <= Ic, Ic <= MX - 2, GX(Ic) <= X, X <= GX(Ic + 1), 0 <= Jc, Jc <= MY - 2, GY(Jc) <= Yv, Yv <= GY(Jc + 1)]
        for cxn, cxf in axis_cases(GX, Ic, X).items():
            for cyn, cyf in axis_cases(GY, Jc, Yv).items():
                side = [f for f in cxf + cyf if not z3.is_int(f.arg(0))]
                side += [GX(Ic) < GX(Ic + 1), GY(Jc) < GY(Jc + 1), GX(Ic - 1) < GX(Ic), GY(Jc - 1) < GY(Jc)][:2] + \
                        ([GX(Ic - 1) < GX(Ic)] if 'later' in cxn else []) + ([GY(Jc - 1) < GY(Jc)] if 'later' in cyn else [])
                hy = pc + mono + bracket + cxf + cyf
                lhs = Rr(r.val)
                # the search results are determined in each case: prove `k == I + c` (LRA + the monotonicity instances) and substitute,
                # so that the gathered coarse values and the contract's coarse values are the same terms
                for e in p.events:
                    if e['kind'] == 'search':
                        base = Ic if e['grid'] == 'cx' else Jc
                        for cand in (base + 1, base, base - 1):
                            if prove.prove_lia(hy, e['k'] == cand, timeout=10000, want_model=False)['status'] == 'proved':
                                lhs = z3.substitute(lhs, (e['k'], cand))
                                break
                # in the first-interval cases the interval index is the literal 0: substitute it, so that the code's VAL(0, .) and the
                # contract's VAL(I, .) are the same term (otherwise the proof hinges on the slower full-UF stage)
                sub = ([(Ic, z3.IntVal(0))] if 'first' in cxn else []) + ([(Jc, z3.IntVal(0))] if 'first' in cyn else [])
                rhs = spec
                if sub:
                    hy = [z3.substitute(h, *sub) for h in hy]
                    lhs, rhs = z3.substitute(lhs, *sub), z3.substitute(spec, *sub)
                    side = [z3.substitute(h, *sub) for h in side]
                goals.append((f'x_{cxn}/y_{cyn}', hy, lhs, rhs, side))
        for e in p.events:
            if e['kind'] == 'gather':
                bound_goals.append(z3.Implies(z3.And(*e['pc']), z3.And(0 <= e['index'], e['index'] < e['length'])))
            if e['kind'] == 'gather2':
                bound_goals.append(z3.Implies(z3.And(*e['pc']), z3.And(0 <= e['index'][0], e['index'][0] < MX, 0 <= e['index'][1], e['index'][1] < MY)))
            if e['kind'] == 'division':
                div_goals.append((list(e['pc']) + mono, e['divisor'] != 0))
    for n, (nm, hy, lhs, rhs, side) in enumerate(goals):
        col.eq(f'call/{nm}/result_is_the_bilinear_interpolant_on_every_coarse_interval_pair_containing_the_point', hy, lhs, rhs, side=side,
               smt_sample=(n == 0))
    # the case split is exhaustive for a point inside the contract's interval
    col.lia('call/case_split_is_exhaustive', [GX(Ic) <= X, 0 <= Ic], z3.Or(GX(Ic) < X, z3.And(GX(Ic) == X, Ic == 0), z3.And(GX(Ic) == X, Ic >= 1)))
    col.lia('every_gather_index_is_inside_its_array', pre, z3.And(*bound_goals) if bound_goals else z3.BoolVal(False))
    for n, (hy, g) in enumerate(div_goals):
        col.lia(f'normalised_distance/division{n}_by_a_positive_interval_length', hy, g)
    col.lia('paths_and_divisions_exist', [], z3.BoolVal(len(goals) >= 9 and len(div_goals) >= 2))
    # hat weights of the contract: non-negative and summing to one (so the interpolant is a convex combination)
    wx0, wx1 = hat_pair(GX, Ic, FX(A))
    col.lia('spec/hat_weights_nonnegative_and_sum_to_one', [GX(Ic) < GX(Ic + 1), GX(Ic) <= FX(A), FX(A) <= GX(Ic + 1)],
            z3.And(wx0 >= 0, wx1 >= 0, wx0 + wx1 == 1))
    # canary: nearest-neighbour instead of linear weights must be refuted
    if goals:
        nm, hy, lhs, rhs, side = goals[0]
        col.canary_eq('canary/not_nearest_neighbour', hy, lhs, VAL(Ic, Jc), side=side)
    for t in sorted(_USED):
        col.trust('numpy layout / search contract: ' + t)
    return col.pack()


def tasks(tier):
    return [('contracts.c04_rgp', 'task_rgp', {})]
