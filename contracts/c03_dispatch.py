"""C03 -- solver.smoothing binds the fields, coefficients and widths of ONE problem to the kernel parameters and always relaxes.

The four kernels are proved (c03, c03_lines) to relax the system `A_spec(eta, zeta, h) e = s` given by THEIR parameters
(ex, ey, ez, sx, sy, sz, eta_x, eta_y, eta_z, zeta, hx, hy, hz, nu).  Here: for every requested line direction code and grid,
  * every kernel call receives efield.fx/fy/fz, sfield.fx/fy/fz, model.eta_x/eta_y/eta_z/zeta, model.grid.h[0..2], nu -- matched
    against the parameter NAMES read from the kernel definitions in the current source;
  * the point smoother runs iff the current code (contract of _current_lr_dir, proved under C05) is 0, and the x/y/z line smoother
    runs iff the code contains that direction (1:x 2:y 3:z 4:yz 5:xz 6:xy 7:xyz); so at least one kernel runs;
  * lines never run along a direction with only two cells (composition with the C05 contract of _current_lr_dir);
  * smoothing itself writes nothing (only the kernels write, and only ex, ey, ez: their frames).
"""
import z3

from pyvc import cx, ob, intake
from .cxutil import clause, canary, coverage

PROP = 'C03'
KERNELS = {'core.gauss_seidel': None, 'core.gauss_seidel_x': 0, 'core.gauss_seidel_y': 1, 'core.gauss_seidel_z': 2}
LR_DIRS = {0: (0, 0, 0), 1: (1, 0, 0), 2: (0, 1, 0), 3: (0, 0, 1), 4: (0, 1, 1), 5: (1, 0, 1), 6: (1, 1, 0), 7: (1, 1, 1)}
ROLES = ['ex', 'ey', 'ez', 'sx', 'sy', 'sz', 'eta_x', 'eta_y', 'eta_z', 'zeta', 'hx', 'hy', 'hz', 'nu']


def run_smoothing():
    c = z3.Int('c_lr_dir')
    lr = z3.Int('lr_dir')
    nu = z3.Int('nu')

    def mk(ctx):
        tok = {r: cx.NDArr(cx.Store(r)) for r in ROLES[:13]}
        ef = cx.Obj('Field', dict(fx=tok['ex'], fy=tok['ey'], fz=tok['ez']), mod='fields')
        sf = cx.Obj('Field', dict(fx=tok['sx'], fy=tok['sy'], fz=tok['sz']), mod='fields')
        grid = cx.Obj('TensorMesh', dict(h=[tok['hx'], tok['hy'], tok['hz']]), mod='meshes')
        model = cx.Obj('VolumeModel', dict(eta_x=tok['eta_x'], eta_y=tok['eta_y'], eta_z=tok['eta_z'], zeta=tok['zeta'], grid=grid), mod='models')
        for o in (ef, sf, grid, model):
            o.fields['__strict__'] = True
        return [model, sf, ef, nu, lr], {}, dict(tok=tok, grid=grid)

    def cur(it, args, kw, node):
        it.ctx.assume(z3.And(c >= 0, c <= 7))
        return c

    def kernel(name):
        def h(it, args, kw, node):
            return None
        return h
    summs = {'solver._current_lr_dir': cur}
    summs.update({k: kernel(k) for k in KERNELS})
    return cx.run_function('solver.smoothing', mk, pc0=[lr >= 0, lr <= 7], summaries=summs, opts={}), c, lr, nu


def replay(d):
    from . import c03_concrete
    return ob.guarded(c03_concrete.check_dispatch)


def task_dispatch():
    col = ob.Collector(PROP, 'solver.smoothing')
    col.default_replay = replay
    col.function('solver.smoothing')
    res, c, lr, nu = run_smoothing()
    pre = [lr >= 0, lr <= 7, c >= 0, c <= 7]
    # parameter names of the kernels, from the current source
    for k in KERNELS:
        fn = col.function(k)
        names = [a.arg for a in fn.args.args]
        if names != ROLES:
            # positional binding can still be right after a renaming: this contract no longer lines up with the kernels
            col.undecided(f'kernel_parameter_names/{k}', f'kernel parameters are {names}; the contract is written for {ROLES}')
        else:
            col.concrete(f'kernel_parameter_names/{k}', True, dict(got=names))
    coverage(col, 'paths_cover_all_direction_codes', res, pre)
    clause(col, 'returns_normally', res, lambda r: r.outcome == 'return' and r.value is None, pre)

    def kcalls(r):
        return [e for e in r.events if e['kind'] == 'call' and e['name'] in KERNELS]

    def binding(r):
        tok = r.state['tok']
        ok = True
        for e in kcalls(r):
            a = list(e['args']) + [e['kwargs'][k] for k in ROLES[len(e['args']):] if k in e['kwargs']]
            ok = ok and len(a) == 14 and len(e['args']) + len(e['kwargs']) == 14
            for role, v in zip(ROLES[:13], a[:13]):
                ok = ok and isinstance(v, cx.NDArr) and v.store is tok[role].store and v.view == 'whole'
            ok = ok and cx.is_sym(a[13]) and a[13].eq(nu)
        return ok
    clause(col, 'every_kernel_call_gets_fields_coefficients_widths_of_this_problem_in_parameter_order', res, binding, pre)

    def which(r):
        names = [e['name'] for e in kcalls(r)]
        g = [z3.BoolVal(names.count('core.gauss_seidel') == 1) == (c == 0)]
        for k, d in KERNELS.items():
            if d is None:
                continue
            has = z3.Or(*[c == code for code, dirs in LR_DIRS.items() if dirs[d]])
            g.append(z3.BoolVal(names.count(k) == 1) == has)
            g.append(z3.BoolVal(names.count(k) <= 1))
        g.append(z3.BoolVal(len(names) >= 1))
        return z3.And(*g)
    clause(col, 'point_smoother_iff_code_0__line_smoother_iff_direction_in_code__at_least_one_runs', res, which, pre, sample=True)
    canary(col, 'canary/x_lines_only_for_code_1', res,
           lambda r: z3.BoolVal([e['name'] for e in kcalls(r)].count('core.gauss_seidel_x') == 1) == (c == 1), pre)

    def lr_query(r):
        q = [e for e in r.events if e['kind'] == 'call' and e['name'] == 'solver._current_lr_dir']
        if len(q) != 1:
            return False
        b = dict(zip(('lr_dir', 'grid'), q[0]['args']))
        b.update(q[0]['kwargs'])
        return set(b) == {'lr_dir', 'grid'} and cx.is_sym(b['lr_dir']) and b['lr_dir'].eq(lr) and b['grid'] is r.state['grid']
    clause(col, 'current_direction_is_asked_for_the_requested_code_on_this_grid', res, lr_query, pre)
    clause(col, 'smoothing_itself_writes_nothing', res, lambda r: not r.mutations(), pre)
    # composition with the C05 contract of _current_lr_dir: d in code(c) => d requested and more than two cells along d
    m = z3.Ints('m0 m1 m2')

    def table(v, tab):
        return [z3.Or(*[v == k for k, d in tab.items() if d[i]]) for i in range(3)]
    dc, dl = table(c, LR_DIRS), table(lr, LR_DIRS)
    contract = [dc[i] == z3.And(dl[i], m[i] != 2) for i in range(3)]
    col.lia('composition/no_line_relaxation_along_a_two_cell_direction', pre + contract,
            z3.And(*[z3.Implies(m[i] == 2, z3.Not(dc[i])) for i in range(3)]))
    col.lia('composition/requested_code_without_two_cell_directions_is_kept', pre + contract + [x != 2 for x in m], c == lr)
    r = replay(None)
    col.concrete('smoothing_equals_stated_kernel_sequence_on_real_arrays', r['reproduced'] is False, r,
                 bounded='3 shapes (incl. two-cell directions) x 8 direction codes x nu in {1,2}', cases=r.get('cases', 0))
    return col.pack()


def tasks(tier):
    return [('contracts.c03_dispatch', 'task_dispatch', {})]
