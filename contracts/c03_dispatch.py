def tasks(tier):
    return []
