"""C18 -- the command-line interface is equivalent to the Python API (key contracts only).

The real cli.parser.parse_config_file is executed by the control executor on an abstract ConfigParser:
  (K1) discovery run: every (section, key) the parser can recognise is observed through its own has_option / pop calls;
  (K2) a config holding ALL recognised keys is accepted and every key lands, converted, under the stated destination;
  (K3) a key that is none of the recognised ones (opaque sentinel; the parser only ever compares keys with literals) is rejected with
       TypeError, in every section;
  (K4) terminal value, when given, wins over the file value for path, survey, model, output, save, load, cache, nproc, layered, function;
       cache overrides load/save;
  (K5) static inclusion chain: documented keys (docs/manual/cli.rst) <= recognised keys; keys emitted under simulation_options /
       solver_opts / gridding_opts / layered_opts / noise_kwargs / data are accepted by the API (names collected from the API source);
  (K6) cli.run.simulation: the [data] section reaches Survey.select with every given key, the simulation options reach Simulation;
  (K7) values: every documented option written in the documented format (`key = value   # comment`, comma-separated lists, lists of lists separated by semi-colons,
       with or without blanks around the separators) arrives at its destination with the value the equivalent API call is given; the abstract ConfigParser models
       the value extraction of configparser (inline comments as configured by the constructor call of the code under contract).
  (K8) `-l / --layered` and [layered] (contracts/c18_layered.py): whatever way the simulation took (direct run; stored with --save / --cache and loaded with or without `-l`, i.e. the real
       Simulation.__init__ / to_dict / from_dict / setter of Simulation.layered executed in sequence), an option the user gave is held with the user's value, and a simulation switched to
       layered holds the same layered_opts as the API call Simulation(..., layered=True, layered_opts=<options of [layered]>); documented defaults only where nothing is given.
Not covered: equality of computed results between CLI and API.
"""
import ast
import itertools
import os
import re

import z3

from pyvc import cx, ob, intake
from .cxutil import clause

PROP = 'C18'
SECTIONS = ['files', 'simulation', 'solver_opts', 'gridding_opts', 'noise_opts', 'data', 'layered']
SENTINEL = '‹unknown-key›'
SAMPLE = {  # sample textual values (only their parse-ability matters)
    'domain': '-1, 1; None; -2, 2', 'distance': 'None; None; -1, 1', 'stretching': '1, 1.5; None; 1.05, 1.5', 'min_width_limits': '10, 100; None; 50',
    'center_on_edge': 'True; False; True', 'sources': 'TxED-1, TxED-2', 'receivers': 'RxEP-1', 'frequencies': 'f-1, f-2', 'mapping': 'Resistivity', 'vector': 'xy',
    'cycle': 'F', 'gridding': 'single', 'name': 'MySim', 'file_dir': 'fdir', 'receiver_interpolation': 'linear', 'ntype': 'white_noise', 'method': 'prism',
    'path': '/data', 'survey': 'survey.h5', 'model': 'model.npz', 'output': 'out.json', 'save': 'sim.h5', 'load': 'old.h5', 'cache': 'cch.h5',
}


def replay(d):
    from . import c18_concrete
    if '/cli.parser/values/' in d.get('id', ''):        # value clauses: the scenario that writes values in the documented format first
        r = ob.guarded(c18_concrete.check_values)
        if r.get('reproduced'):
            return r
    return ob.guarded(c18_concrete.check)


CFG_TRUST = ('configparser.ConfigParser (dependency contract, as modelled in contracts/c18.cfg_handlers): option names are compared as given (lower case); a value is the text '
             'right of the first delimiter up to the first INLINE COMMENT -- the earliest occurrence of one of the constructor\'s inline_comment_prefixes that stands at the start of the '
             'line or after white space (none by default) -- stripped of surrounding white space; getint / getfloat / getboolean = int / float / BOOLEAN_STATES of that value')
BOOLEAN_STATES = {'1': True, 'yes': True, 'true': True, 'on': True, '0': False, 'no': False, 'false': False, 'off': False}


def cfg_value(key, raw, inline_prefixes):
    """configparser.RawConfigParser._read on the single line `key = raw`: cut at the first inline-comment prefix that is at position 0 or preceded by white
    space, strip, split at the first delimiter"""
    line = f'{key} = {raw}'
    start = len(line)
    nxt = {p: -1 for p in inline_prefixes}
    while start == len(line) and nxt:          # round by round, as RawConfigParser._read does
        cur, nxt = nxt, {}
        for pre, i in cur.items():
            i = line.find(pre, i + 1)
            if i == -1:
                continue
            nxt[pre] = i
            if i == 0 or line[i - 1].isspace():
                start = min(start, i)
    line = line[:start].strip()
    m = re.match(r'(?P<option>.*?)\s*(?:=|:)\s*(?P<value>.*)$', line)
    if not m:
        raise cx.Unsupported(f'configuration line {line!r} outside the modelled format')
    return m.group('value').strip()


def cfg_handlers(sections, log, values=False):
    """abstract configparser.ConfigParser over `sections` (dict section -> dict key -> text right of the `=` as written in the file, inline comment included).
    values=False: getint / getfloat / getboolean return typed tokens (kind, section, key); values=True: they convert the text as configparser does."""
    st = dict(inline=())

    def ctor(it, f, args, kw, node):
        # strict only concerns duplicate sections / options, comment_prefixes only lines that START with a prefix: neither occurs in the abstract file
        extra = set(kw) - {'inline_comment_prefixes', 'strict', 'comment_prefixes'}
        cpre = kw.get('comment_prefixes', ('#', ';'))
        cpre = tuple(cpre) if isinstance(cpre, (str, tuple, list)) else None
        if args or extra or cpre is None or any(not isinstance(c, str) or not c or k.startswith(c) for c in cpre for sec in sections.values() for k in sec):
            # defaults, delimiters, interpolation, ...: not modelled => undecided, never a verdict
            raise cx.Unsupported(f'configparser.ConfigParser called with arguments outside the modelled dependency contract: {sorted(extra) or "positional / comment_prefixes"}')
        pre = kw.get('inline_comment_prefixes')
        if pre is None:
            pre = ()
        if isinstance(pre, str):
            pre = tuple(pre)
        if not (isinstance(pre, (tuple, list)) and all(isinstance(x, str) and x for x in pre)):
            raise cx.Unsupported('inline_comment_prefixes is not a string / tuple of non-empty strings')
        st['inline'] = tuple(pre)
        log.append(('ConfigParser', tuple(pre)))
        o = cx.Obj('ConfigParser', {})
        for m in ('sections', 'add_section', 'items', 'has_option', 'get', 'getint', 'getfloat', 'getboolean', 'read_file'):
            o.fields[m] = cx.LibFn('cfg.' + m, bound=o)
        return o

    def bind(args, kw, names):
        kw = dict(kw)
        out = list(args)
        for n in names[len(out):]:
            if n not in kw:
                raise cx.Unsupported(f'ConfigParser method called without `{n}`')
            out.append(kw.pop(n))
        if kw or len(out) != len(names) or not all(isinstance(x, str) for x in out):
            raise cx.Unsupported(f'ConfigParser method called with arguments outside the modelled dependency contract: {sorted(kw)}')
        return out

    def val(sec, key):
        return cfg_value(key, sections[sec][key], st['inline'])

    def sections_(it, f, args, kw, node):
        return list(sections.keys())

    def add_section(it, f, args, kw, node):
        sections.setdefault(bind(args, kw, ['section'])[0], {})

    def items(it, f, args, kw, node):
        sec, = bind(args, kw, ['section'])
        d = {k: val(sec, k) for k in sections[sec]}
        log.append(('items', sec, d))
        return list(d.items())

    def has_option(it, f, args, kw, node):
        sec, key = bind(args, kw, ['section', 'option'])
        log.append(('has_option', sec, key))
        return key in sections.get(sec, {})

    def get(kind):
        def g(it, f, args, kw, node):
            sec, key = bind(args, kw, ['section', 'option'])
            v = val(sec, key)
            log.append(('get', kind, sec, key))
            if kind == 'str':
                return v
            if not values:
                return (kind, sec, key)        # typed token
            try:
                if kind == 'bool':
                    if v.lower() not in BOOLEAN_STATES:
                        raise ValueError(v)
                    return BOOLEAN_STATES[v.lower()]
                return dict(int=int, float=float)[kind](v)
            except ValueError:
                raise cx._Raise(cx.ExcVal('ValueError', (f'{kind}: {v!r}',)))
        return g
    return {'configparser.ConfigParser': ctor, 'cfg.sections': sections_, 'cfg.add_section': add_section, 'cfg.items': items, 'cfg.has_option': has_option,
            'cfg.get': get('str'), 'cfg.getint': get('int'), 'cfg.getfloat': get('float'), 'cfg.getboolean': get('bool'), 'cfg.read_file': lambda *a: None}


def env_handlers(log):
    def path_ctor(it, f, args, kw, node):
        s = args[0]
        suf = os.path.splitext(s)[1] if isinstance(s, str) else ''
        o = cx.Obj('Path', dict(_s=s, suffix=suf))
        o.fields['with_suffix'] = cx.LibFn('path.with_suffix', bound=o)
        return o

    def with_suffix(it, f, args, kw, node):
        s = f.bound.fields['_s']
        return path_ctor(it, None, [os.path.splitext(s)[0] + args[0]], {}, node)

    def str_(it, f, args, kw, node):
        v = args[0]
        if isinstance(v, cx.Obj) and v.cls == 'Path':
            return v.fields['_s']
        if isinstance(v, (int, float, str, bool)) or v is None:
            return str(v)
        return cx.Opaque('str')

    def float_(it, f, args, kw, node):
        v = args[0]
        if isinstance(v, str):
            try:
                return float(v)
            except ValueError:
                raise cx._Raise(cx.ExcVal('ValueError'))
        return ('float-of', v)

    def popd(it, f, args, kw, node):
        d = f.bound
        log.append(('pop', id(d), args[0]))
        if args[0] in d:
            return d.pop(args[0])
        if len(args) > 1:
            return args[1]
        raise cx._Raise(cx.ExcVal('KeyError', (args[0],)))
    return {'os.path.abspath': lambda it, f, a, k, n: a[0], 'os.path.isfile': lambda it, f, a, k, n: True, 'os.path.join': lambda it, f, a, k, n: '/'.join(a),
            'builtins.open': lambda it, f, a, k, n: cx.Obj('file', {}), 'pathlib.Path': path_ctor, 'Path': path_ctor, 'path.with_suffix': with_suffix,
            'builtins.str': str_, 'builtins.float': float_, 'warnings.warn': lambda it, f, a, k, n: None, 'dict.pop': popd}


TERM0 = dict(config='emg3d.cfg', verbosity=0, nproc=None, dry_run=False, clean=False, layered=None, forward=False, misfit=False, gradient=False,
             path=None, survey=None, model=None, output=None, save=None, load=None, cache=None)


def run_parser(sections, term=None, values=False):
    out = {}

    def mk(ctx):
        log = []
        pl = ctx.opts.setdefault('prelude', {})
        pl.update(cfg_handlers(sections, log, values))
        pl.update(env_handlers(log))
        t = dict(TERM0)
        t.update(term or {})
        out['log'] = log
        return [t], {}, dict(log=log)
    res = cx.run_function('cli/parser.parse_config_file', mk, summaries={}, opts={})
    return res


def discover():
    """K1: recognised keys per section, observed from the parser's own probes on a config with all sections present but empty"""
    secs = {s: {} for s in SECTIONS}
    res = run_parser(secs)
    if len(res) != 1 or res[0].outcome != 'return':
        raise cx.Unsupported('parse_config_file: discovery run did not return on a single path')
    log = res[0].state['log']
    keys = {s: [] for s in SECTIONS}
    dict_of = {}
    for e in log:
        if e[0] == 'items':
            dict_of[id(e[2])] = e[1]
    # dict(cfg.items(S)) creates a new dict: map the pops by order of appearance of items() calls
    order = [e[1] for e in log if e[0] == 'items']
    pops_by_dict = {}
    for e in log:
        if e[0] == 'pop':
            pops_by_dict.setdefault(e[1], []).append(e[2])
    for e in log:
        if e[0] == 'has_option' and e[2] not in keys[e[1]]:
            keys[e[1]].append(e[2])
    # pops on the per-section dicts: attribute them to sections in the order the dicts were created
    ids = list(pops_by_dict.keys())
    return keys, pops_by_dict, order, res[0]


def documented():
    path = os.path.join(intake.REPO, 'docs', 'manual', 'cli.rst')
    txt = open(path).read()
    out, sec = {}, None
    for ln in txt.splitlines():
        m = re.match(r'\s*\[(\w+)\]\s*$', ln)
        if m:
            sec = m.group(1)
            out[sec] = []
            continue
        m = re.match(r'\s*#\s*([a-z_]+)\s*=', ln)
        if m and sec:
            out[sec].append(m.group(1))
    return out


def api_names():
    """parameter / option names accepted by the API functions the CLI feeds (collected from signatures, dataclass fields and literal
    keys popped from option dictionaries)"""
    def sig(q):
        fn, _, _ = intake.func(q)
        return [a.arg for a in fn.args.args + fn.args.kwonlyargs if a.arg not in ('self', 'cls')]

    def popped(q):
        fn, _, _ = intake.func(q)
        out = set()
        for n in ast.walk(fn):
            if isinstance(n, ast.Call) and isinstance(n.func, ast.Attribute) and n.func.attr in ('pop', 'get') and n.args and isinstance(n.args[0], ast.Constant) \
                    and isinstance(n.args[0].value, str):
                out.add(n.args[0].value)
            if isinstance(n, ast.For) and isinstance(n.iter, ast.List):
                for e in n.iter.elts:
                    if isinstance(e, ast.Constant) and isinstance(e.value, str):
                        out.add(e.value)
        return out
    cls, _, _ = intake.func('solver.MGParameters')
    mg = [b.target.id for b in cls.body if isinstance(b, ast.AnnAssign)]
    names = dict(
        simulation=set(sig('simulations.Simulation.__init__')) | popped('simulations.Simulation.__init__') | popped('simulations.Simulation._set_model') | {'layered', 'layered_opts', 'gridding_opts', 'solver_opts', 'tqdm_opts'},
        solver=set(sig('solver.solve')) | set(mg) | popped('solver.solve') | {'tol_gradient'},
        gridding=popped('meshes.estimate_gridding_opts') | popped('simulations.Simulation._set_model') | set(sig('meshes.construct_mesh')),
        noise=set(sig('surveys.Survey.add_noise')) | popped('surveys.Survey.add_noise') | set(sig('surveys.random_noise')) | {'add_noise'},
        data=set(sig('surveys.Survey.select')),
        layered=popped('simulations.Simulation._set_layered_opts') | {'method', 'merge', 'ellipse'},
        ellipse=set(sig('maps.ellipse_indices')),
    )
    return names


def task_keys():
    col = ob.Collector(PROP, 'cli.parser/keys')
    col.default_replay = replay
    col.function('cli/parser.parse_config_file')
    keys, pops, order, r0 = discover()
    # keys recognised through plain dict pops (files, data) are the literals popped from those dicts
    all_pops = sorted({k for v in pops.values() for k in v})
    rec = {s: list(keys[s]) for s in SECTIONS}
    for k in ('path', 'survey', 'model', 'output', 'save', 'load', 'cache'):
        if k in all_pops and k not in rec['files']:
            rec['files'].append(k)
    for k in ('sources', 'receivers', 'frequencies'):
        if k in all_pops and k not in rec['data']:
            rec['data'].append(k)
    for k in ('max_workers', 'layered'):
        if k in all_pops and k not in rec['simulation']:
            rec['simulation'].append(k)
    doc = documented()
    col.lia('K1_discovery_run_finds_recognised_keys_in_every_section', [], z3.BoolVal(all(len(rec[s]) > 0 for s in SECTIONS)))
    for s in SECTIONS:
        missing = [k for k in doc.get(s, []) if k not in rec[s]]
        d = col.lia(f'K5_documented_keys_are_recognised/{s}', [], z3.BoolVal(s in doc and not missing), sample=(s == 'files'))
        if missing:
            d['reason'] = f'documented but not recognised: {missing}'
    # K2: a config with all recognised keys is accepted, each key reaches its destination
    full = {s: {k: SAMPLE.get(k, '1') for k in rec[s]} for s in SECTIONS}
    # deprecated duplicates in [simulation] (noise keys) are exercised separately
    dep = [k for k in ('min_offset', 'mean_noise', 'max_offset', 'ntype') if k in full['simulation']]
    for k in dep:
        full['simulation'].pop(k)
    full['files'].pop('cache', None)
    res = run_parser({s: dict(v) for s, v in full.items()})
    ok = len(res) == 1 and res[0].outcome == 'return'
    col.lia('K2_config_with_all_recognised_keys_is_accepted', [], z3.BoolVal(ok))
    if ok:
        out, term = res[0].value
        simo = out['simulation_options']
        dest = dict(simulation=simo, solver_opts=simo.get('solver_opts', {}), gridding_opts=simo.get('gridding_opts', {}), noise_opts=out['noise_kwargs'], data=out['data'],
                    layered=dict(simo.get('layered_opts', {}), **simo.get('layered_opts', {}).get('ellipse', {})), files=out['files'])
        for s in SECTIONS:
            lost = [k for k in full[s] if k not in dest[s] and not (s == 'files' and k == 'path')]
            d = col.lia(f'K2_every_recognised_key_reaches_its_destination/{s}', [], z3.BoolVal(not lost))
            if lost:
                d['reason'] = f'accepted but dropped: {lost}'
        # K2b: ... and does so on its own: a section given alone (no switch set in any other section) still delivers every key
        for s in SECTIONS:
            ra = run_parser({s: dict(full[s])})
            if len(ra) != 1 or ra[0].outcome != 'return':
                col.lia(f'K2b_section_alone_is_accepted_and_every_key_reaches_its_destination/{s}', [], z3.BoolVal(False))
                continue
            o2 = ra[0].value[0]
            so2 = o2['simulation_options']
            d2 = dict(simulation=so2, solver_opts=so2.get('solver_opts', {}), gridding_opts=so2.get('gridding_opts', {}), noise_opts=o2['noise_kwargs'], data=o2['data'],
                      layered=dict(so2.get('layered_opts', {}), **so2.get('layered_opts', {}).get('ellipse', {})), files=o2['files'])
            lost = [k for k in full[s] if k not in d2[s] and not (s == 'files' and k == 'path')]
            d = col.lia(f'K2b_section_alone_is_accepted_and_every_key_reaches_its_destination/{s}', [], z3.BoolVal(not lost))
            if lost:
                d['reason'] = f'dropped when the section stands alone: {lost}'
        # K5: emitted names are accepted by the API
        api = api_names()
        # names are handed over by cli.run.simulation, which may rename a key (gopts[new] = gopts.pop(old))
        runfn, _, _ = intake.func('cli/run.simulation')
        renames = {}
        for n in ast.walk(runfn):
            if isinstance(n, ast.Assign) and len(n.targets) == 1 and isinstance(n.targets[0], ast.Subscript) and isinstance(n.value, ast.Call) \
                    and isinstance(n.value.func, ast.Attribute) and n.value.func.attr == 'pop' and n.value.args and isinstance(n.value.args[0], ast.Constant) \
                    and isinstance(n.targets[0].slice, ast.Constant) and ast.unparse(n.targets[0].value) == ast.unparse(n.value.func.value):
                renames[n.value.args[0].value] = n.targets[0].slice.value
        gemit = {renames.get(k, k) for k in simo.get('gridding_opts', {})}
        checks = [('simulation_options', set(simo) - {'solver_opts', 'gridding_opts', 'layered_opts'}, api['simulation']),
                  ('solver_opts', set(simo.get('solver_opts', {})), api['solver']), ('gridding_opts', gemit, api['gridding']),
                  ('noise_kwargs', set(out['noise_kwargs']), api['noise']), ('data', set(out['data']), api['data']),
                  ('layered_opts', set(simo.get('layered_opts', {})), api['layered']), ('ellipse', set(simo.get('layered_opts', {}).get('ellipse', {})), api['ellipse'])]
        for nm, emitted, accepted in checks:
            badk = sorted(emitted - accepted)
            d = col.lia(f'K5_emitted_names_are_accepted_by_the_API/{nm}', [], z3.BoolVal(not badk), sample=(nm == 'gridding_opts'))
            if badk:
                d['reason'] = f'emitted by the CLI parser but not accepted downstream: {badk}'
    # K3: unknown keys are rejected in every section
    for s in SECTIONS:
        secs = {x: {} for x in SECTIONS}
        secs[s] = {SENTINEL: '1'}
        res = run_parser(secs)
        okr = len(res) >= 1 and all(r.outcome == 'raise' and r.value.typ == 'TypeError' for r in res)
        col.lia(f'K3_unknown_key_is_rejected_with_TypeError/{s}', [], z3.BoolVal(okr))
    # canary: a recognised key must not be rejected
    secs = {x: {} for x in SECTIONS}
    secs['solver_opts'] = {'tol': '1e-5'}
    res = run_parser(secs)
    col.canary_lia('canary/recognised_key_is_rejected', [], z3.BoolVal(all(r.outcome == 'raise' for r in res)))
    return col.pack()


def task_precedence():
    col = ob.Collector(PROP, 'cli.parser/precedence')
    col.default_replay = replay
    col.function('cli/parser.parse_config_file')
    filev = dict(path='/filepath', survey='fsurvey.h5', model='fmodel.h5', output='fout.h5', save='fsave.h5', load='fload.h5')
    termv = dict(path='/termpath', survey='tsurvey.h5', model='tmodel.h5', output='tout.h5', save='tsave.h5', load='tload.h5')
    for k in ['path', 'survey', 'model', 'output', 'save', 'load']:
        secs = {s: {} for s in SECTIONS}
        secs['files'] = dict(filev)
        res = run_parser(secs, {k: termv[k]})
        ok = len(res) == 1 and res[0].outcome == 'return'
        if ok:
            files = res[0].value[0]['files']
            if k == 'path':
                ok = all(str(files[x]).startswith('/termpath/') for x in ('survey', 'model', 'output'))
            else:
                ok = files[k] == '/filepath/' + termv[k] and all(files[x] == '/filepath/' + filev[x] for x in filev if x not in (k, 'path'))
        col.lia(f'K4_terminal_overrides_file/{k}', [], z3.BoolVal(bool(ok)), sample=(k == 'path'))
    # cache overrides load / save, terminal cache overrides file cache
    secs = {s: {} for s in SECTIONS}
    secs['files'] = dict(filev, cache='fcache.h5')
    res = run_parser(secs, dict(cache='tcache.h5'))
    ok = len(res) == 1 and res[0].outcome == 'return' and res[0].value[0]['files']['load'] == '/filepath/tcache.h5' and res[0].value[0]['files']['save'] == '/filepath/tcache.h5'
    col.lia('K4_cache_overrides_load_and_save__terminal_cache_wins', [], z3.BoolVal(bool(ok)))
    # nproc -> max_workers, layered, function
    secs = {s: {} for s in SECTIONS}
    secs['simulation'] = dict(max_workers='4', layered='False')
    res = run_parser(secs, dict(nproc=7, layered=True, gradient=True))
    ok = len(res) == 1 and res[0].outcome == 'return'
    if ok:
        simo, term = res[0].value[0]['simulation_options'], res[0].value[1]
        ok = simo.get('max_workers') == 7 and simo.get('layered') is True and term.get('function') == 'gradient' and simo.get('receiver_interpolation') == 'linear'
    col.lia('K4_nproc_layered_function_from_the_terminal_win', [], z3.BoolVal(bool(ok)))
    res = run_parser(secs, {})
    ok = len(res) == 1 and res[0].outcome == 'return' and res[0].value[0]['simulation_options'].get('max_workers') == ('int', 'simulation', 'max_workers') \
        and res[0].value[0]['simulation_options'].get('layered') == ('bool', 'simulation', 'layered') and res[0].value[1].get('function') == 'forward'
    col.lia('K4_file_values_used_when_the_terminal_is_silent', [], z3.BoolVal(bool(ok)))
    return col.pack()


def task_run():
    """K6: cli.run.simulation hands the [data] selection to Survey.select and the options to Simulation (static argument binding)"""
    col = ob.Collector(PROP, 'cli.run/hand-over')
    col.default_replay = replay
    fn = col.function('cli/run.simulation')
    sel = [n for n in ast.walk(fn) if isinstance(n, ast.Call) and isinstance(n.func, ast.Attribute) and n.func.attr == 'select']
    ok = len(sel) == 1
    if ok:
        kws = {k.arg: ast.unparse(k.value) for k in sel[0].keywords}
        ok = all(kws.get(k, '').replace(' ', '') in (f"data.get('{k}',None)", f"data.get('{k}',False)") for k in ('sources', 'receivers', 'frequencies', 'remove_empty'))
        # the call is guarded by `if data:` only (so that every given key has an effect)
        guards = [n for n in ast.walk(fn) if isinstance(n, ast.If) and any(sel[0] in list(ast.walk(b)) for b in n.body)]
        ok = ok and any(ast.unparse(g.test) == 'data' for g in guards) and all(ast.unparse(g.test) in ('data', "cfg['files']['load']") or
                                                                                 isinstance(g.test, ast.Subscript) for g in guards)
    col.lia('data_section_reaches_Survey_select_with_all_four_keys_whenever_the_section_is_not_empty', [], z3.BoolVal(bool(ok)), sample=True)
    sims = [n for n in ast.walk(fn) if isinstance(n, ast.Call) and ast.unparse(n.func) == 'simulations.Simulation']
    ok = len(sims) == 1 and any(k.arg is None and ast.unparse(k.value) == "cfg['simulation_options']" for k in sims[0].keywords) \
        and {k.arg for k in sims[0].keywords if k.arg} >= {'survey', 'model'}
    col.lia('simulation_options_are_passed_to_Simulation', [], z3.BoolVal(bool(ok)))
    comp = [n for n in ast.walk(fn) if isinstance(n, ast.Call) and isinstance(n.func, ast.Attribute) and n.func.attr == 'compute' and n.keywords]
    ok = len(comp) == 1 and any(k.arg is None and ast.unparse(k.value) == "cfg['noise_kwargs']" for k in comp[0].keywords) and \
        any(k.arg == 'observed' and ast.unparse(k.value) == 'True' for k in comp[0].keywords)
    col.lia('noise_options_are_passed_to_compute_observed', [], z3.BoolVal(bool(ok)))
    # gridding key translation: the parser's `cell_number` must reach the API as `cell_numbers`
    src = ast.unparse(fn)
    col.lia('cell_number_is_translated_to_the_API_name_cell_numbers', [], z3.BoolVal("'cell_numbers'" in src and "'cell_number'" in src))
    return col.pack()


# ---------------------------------------------------------------------------------------------------------------- K7: values
# API values of the documented options (what one would pass to Simulation / solve / estimate_gridding_opts / add_noise / Survey.select / ellipse_indices), keyed by
# section; the configuration text is RENDERED from them in the documented format (docs/manual/cli.rst: `key = value   # comment`; "lists are comma-separated values,
# lists are separated by semi-colons"), so the specification of the parser is simply: the value that arrives is the value that was written.
XYZ = ('x', 'y', 'z')
API_VALUES = {
    'files': dict(path='/data', survey='survey.h5', model='model.npz', output='out.json', save='sim.h5', load='old.h5'),
    'simulation': dict(max_workers=4, gridding='single', name='MyTestSimulation', file_dir='fdir', receiver_interpolation='linear', layered=True),
    'solver_opts': dict(sslsolver=True, semicoarsening=False, linerelaxation=True, cycle='F', tol=1e-05, tol_gradient=0.001, verb=3, maxit=17, nu_init=1, nu_pre=2,
                        nu_coarse=3, nu_post=4, clevel=5, plain=False),
    'gridding_opts': dict(properties=[0.3, 1.0, 100000.0], center=[10.0, -20.0, 30.0], cell_number=[8, 16, 32, 64, 128], min_width_pps=[5, 3, 4],
                          domain=dict(x=[-10000.0, 10000.0], y=None, z=[-4000.0, 500.0]), distance=dict(x=None, y=None, z=[-10000.0, 10000.0]),
                          stretching=dict(x=[1.0, 1.3], y=[1.0, 1.6], z=[1.05, 1.5]), min_width_limits=dict(x=[10.0, 100.0], y=None, z=[50.0, 400.0]),
                          center_on_edge=dict(x=False, y=False, z=True), mapping='Resistivity', vector='xy', frequency=1.5, seasurface=-200.0, max_buffer=100000.0,
                          lambda_factor=0.8, verb=1, lambda_from_center=True),
    'noise_opts': dict(add_noise=True, min_offset=500.0, max_offset=8000.0, mean_noise=0.1, ntype='white_noise'),
    'data': dict(sources=['TxED-02', 'TxMD-08', 'TxEW-14'], receivers=['RxEP-01', 'RxMP-10'], frequencies=['f-1', 'f-3'], remove_empty=False),
    'layered': dict(method='prism', radius=1000.0, factor=1.2, minor=0.8, merge=True, check_foci=False),
}
# one list / one switch for all three directions (second documented form of the "list of lists" options)
API_VALUES_SINGLE = dict(domain=[-10000.0, 10000.0], distance=[-5000.0, 5000.0], stretching=[1.0, 1.5], min_width_limits=[10.0, 100.0], center_on_edge=True)
UNDOCUMENTED_BUT_API = {'gridding_opts': ['center_on_edge']}       # recognised by the parser, an argument of the API, not listed in cli.rst
COMMA = (', ', ',', ' , ')
SEMI = ('; ', ';', ' ; ', ' ;')
COMMENT = ('', '   # list of lists, e.g.: -10, 10; None; None', ' # bool')


def render(v, comma, semi):
    """text of an API value in the documented format"""
    if isinstance(v, dict) and set(v) == set(XYZ):
        return semi.join(render(v[d], comma, semi) for d in XYZ)
    if isinstance(v, list):
        return comma.join(render(x, comma, semi) for x in v)
    if v is None or isinstance(v, (bool, str)):
        return str(v)
    return repr(v)


def plain(v):
    if v is None or isinstance(v, (bool, str, int, float)):
        return True
    if isinstance(v, (list, tuple)):
        return all(plain(x) for x in v)
    if isinstance(v, dict):
        return all(isinstance(k, str) and plain(x) for k, x in v.items())
    return False


def same_value(a, b):
    """structural equality of plain values; numbers by value (the CLI reads every number of a list as float), bools / None / strings exactly;
    None when one side is not a plain value (symbolic / opaque): the clause cannot say"""
    if not (plain(a) and plain(b)):
        return None
    if isinstance(a, bool) or isinstance(b, bool) or a is None or b is None or isinstance(a, str) or isinstance(b, str):
        return type(a) is type(b) and a == b
    if isinstance(a, (int, float)) and isinstance(b, (int, float)):
        return a == b
    if isinstance(a, (list, tuple)) and isinstance(b, (list, tuple)):
        return len(a) == len(b) and all(same_value(x, y) for x, y in zip(a, b))
    if isinstance(a, dict) and isinstance(b, dict):
        return set(a) == set(b) and all(same_value(a[k], b[k]) for k in a)
    return False


def destination(out, sec, key):
    """where the API value of [sec] key is handed over in the result of parse_config_file (cli.run passes out['simulation_options'] as keyword arguments to Simulation,
    out['noise_kwargs'] to compute(), out['data'] to Survey.select -- K6)"""
    simo = out['simulation_options']
    if sec == 'files':
        return out['files'], key
    if sec == 'simulation':
        return simo, key
    if sec in ('solver_opts', 'gridding_opts'):
        return simo.get(sec, {}), key
    if sec == 'noise_opts':
        return out['noise_kwargs'], key
    if sec == 'data':
        return out['data'], key
    lo = simo.get('layered_opts', {})
    return (lo.get('ellipse', {}) if key in ('radius', 'factor', 'minor', 'check_foci') else lo), key


def task_values():
    """K7: every documented option, written in the documented format (blanks around the separators or not, trailing `# comment` or not), arrives at its destination with
    the value the equivalent API call is given."""
    col = ob.Collector(PROP, 'cli.parser/values')
    col.default_replay = replay
    col.function('cli/parser.parse_config_file')
    col.trust(CFG_TRUST)
    doc = documented()
    bad = {s: [] for s in SECTIONS}        # (key, text, got, want)
    unsure = {s: [] for s in SECTIONS}
    nrun = 0

    def one(sec, vals, comma, semi, comment, only=None):
        """run the real parser on [sec] holding `vals` rendered with the given separators; compare what arrives"""
        nonlocal nrun
        text = {k: render(v, comma, semi) + comment for k, v in vals.items()}
        secs = {sec: dict(text)}
        if sec != 'files':
            secs['files'] = {'path': '/data'}
        res = run_parser(secs, values=True)
        nrun += 1
        for r in res:
            if r.outcome != 'return':
                bad[sec].append(('<all keys>', text, f'{r.outcome}: {r.value!r}', 'accepted'))
                continue
            out = r.value[0]
            for k, want in vals.items():
                if only is not None and k not in only:
                    continue
                if sec == 'files':
                    if k == 'path':
                        continue
                    want = vals['path'] + '/' + want
                d, dk = destination(out, sec, k)
                got = d.get(dk, '<absent>') if isinstance(d, dict) else '<no destination>'
                eq = same_value(got, want)
                if eq is None:
                    unsure[sec].append((k, text[k], repr(got)))
                elif not eq:
                    bad[sec].append((k, text[k], repr(got), repr(want)))

    for sec in SECTIONS:
        vals = API_VALUES[sec]
        for comma, semi, comment in itertools.product(COMMA, SEMI, COMMENT):
            one(sec, vals, comma, semi, comment)
    for comma, comment in itertools.product(COMMA, COMMENT):
        one('gridding_opts', API_VALUES_SINGLE, comma, '; ', comment)
    # the specification covers every documented key (a key added to the documentation without a value here leaves the clause undecided, not proved)
    for sec in SECTIONS:
        known = set(API_VALUES[sec]) | ({'cache'} if sec == 'files' else set())
        notcov = [k for k in doc.get(sec, []) if k not in known]
        extra = [k for k in API_VALUES[sec] if k not in doc.get(sec, []) and k not in UNDOCUMENTED_BUT_API.get(sec, [])]
        oid = f'K7_documented_option_written_in_the_documented_format_arrives_with_the_API_value/{sec}'
        if notcov or extra:
            col.undecided(oid, f'contract table API_VALUES does not line up with docs/manual/cli.rst: documented without value {notcov}, valued but undocumented {extra}')
        elif unsure[sec]:
            col.undecided(oid, f'the parser delivers something that is not a plain value: {unsure[sec][:3]}')
        else:
            d = col.lia(oid, [], z3.BoolVal(not bad[sec]), sample=(sec == 'gridding_opts'))
            if bad[sec]:
                k, text, got, want = bad[sec][0]
                d['reason'] = f'[{sec}] {k} = {text!r}: arrives as {got}, the API value is {want} ({len(bad[sec])} failing (key, rendering) pairs)'
                d['failing'] = [dict(key=b[0], text=b[1], got=b[2], want=b[3]) for b in bad[sec][:12]]
    # cache = X  <=>  load = X and save = X
    res = run_parser({'files': {'path': '/data', 'cache': 'cch.h5   # shortcut'}}, values=True)
    ok = len(res) == 1 and res[0].outcome == 'return' and res[0].value[0]['files'].get('load') == '/data/cch.h5' and res[0].value[0]['files'].get('save') == '/data/cch.h5'
    col.lia('K7_cache_is_load_and_save', [], z3.BoolVal(bool(ok)))
    # the comment character of the documented format is `#` only: a semi-colon (the list separator) never starts a comment, wherever the blanks are
    semis = []
    for comma, semi in itertools.product(COMMA, SEMI):
        v = API_VALUES['gridding_opts']['stretching']
        res = run_parser({'files': {'path': '/data'}, 'gridding_opts': {'stretching': render(v, comma, semi)}}, values=True)
        for r in res:
            got = r.value[0]['simulation_options'].get('gridding_opts', {}).get('stretching') if r.outcome == 'return' else r.outcome
            semis.append((semi, same_value(got, v) if r.outcome == 'return' else False, got))
    if any(x[1] is None for x in semis):
        col.undecided('K7_semicolon_separates_lists_with_or_without_blanks', 'the parser delivers something that is not a plain value')
    else:
        d = col.lia('K7_semicolon_separates_lists_with_or_without_blanks', [], z3.BoolVal(all(x[1] for x in semis)))
        f = [x for x in semis if not x[1]]
        if f:
            d['reason'] = f'lists separated by {f[0][0]!r}: stretching arrives as {f[0][2]!r}'
    col.lia('K7_renderings_explored', [], z3.BoolVal(nrun == len(SECTIONS) * len(COMMA) * len(SEMI) * len(COMMENT) + len(COMMA) * len(COMMENT)))
    # canaries: a perturbed API value / "everything after a blank and a semi-colon is a comment" must be refuted
    v = dict(API_VALUES['gridding_opts']['stretching'], z=[1.05, 1.6])
    res = run_parser({'files': {'path': '/data'}, 'gridding_opts': {'stretching': render(API_VALUES['gridding_opts']['stretching'], ', ', '; ')}}, values=True)
    got = [r.value[0]['simulation_options'].get('gridding_opts', {}).get('stretching') for r in res if r.outcome == 'return']
    col.canary_lia('canary/K7_perturbed_API_value', [], z3.BoolVal(bool(got) and all(same_value(g, v) is True for g in got)))
    res = run_parser({'files': {'path': '/data'}, 'solver_opts': {'tol': '1e-5   # float'}}, values=True)
    got = [r.value[0]['simulation_options'].get('solver_opts', {}).get('tol') for r in res if r.outcome == 'return']
    col.canary_lia('canary/K7_value_arrives_as_text', [], z3.BoolVal(bool(got) and all(g == '1e-5' for g in got)))
    return col.pack()


def task_concrete():
    from . import c18_concrete
    col = ob.Collector(PROP, 'concrete')
    r = ob.guarded(c18_concrete.check)
    col.concrete('cli_dry_and_real_runs_vs_api', r['reproduced'] is False, r,
                 bounded='one small survey/model; forward / misfit / gradient through emg3d.cli.main.main vs the API; [data] selection incl. remove_empty alone; gridding_opts with cell_number; --path override; unknown keys',
                 cases=r.get('cases', 0))
    col.function('cli/main.main')
    r = ob.guarded(c18_concrete.check_terminal)
    col.concrete('every_terminal_option_reaches_the_run_with_its_name_and_value', r['reproduced'] is False, r,
                 bounded='each documented terminal option alone (short and long form), one combination, three mutually exclusive pairs', cases=r.get('cases', 0))
    r = ob.guarded(c18_concrete.check_values)
    col.concrete('gridding_opts_in_the_documented_list_of_lists_format_give_the_API_grid', r['reproduced'] is False, r,
                 bounded='one small survey/model; dry runs through emg3d.cli.main.main with [gridding_opts] lists of lists rendered with 4 separator / comment styles (three lists) and '
                         '2 (one list for all directions) vs Simulation(gridding_opts=<dicts>): options handed over and computational grid', cases=r.get('cases', 0))
    r = ob.guarded(c18_concrete.check_cfg_model)
    col.concrete('configparser_model_of_the_deductive_part_agrees_with_configparser', r['reproduced'] is False, r,
                 bounded='lines built from up to 4 atoms (numbers, separators with and without blanks, comments), inline_comment_prefixes in {(), #, (#,;), ;}', cases=r.get('cases', 0))
    r = ob.guarded(c18_concrete.check_layered)
    col.concrete('layered_options_and_-l_directly_and_after_save_load_cache_vs_the_API_call', r['reproduced'] is False, r,
                 bounded='one small laterally varying model, one source, three receivers, two frequencies; two [layered] sections; dry runs through emg3d.cli.main.main: direct -l, --save without -l then '
                         '--load -l, --save -l / --cache without -l / --load -l, --save -l then --load -l (options held by the stored simulation vs the numbers written and vs the API simulation); '
                         'two real forward runs with -l (direct, after --save without -l / --load) vs the data of the API call', cases=r.get('cases', 0))
    return col.pack()


def tasks(tier):
    from . import c18_layered
    t = [('contracts.c18', n, {}) for n in ('task_keys', 'task_precedence', 'task_values', 'task_run', 'task_concrete')] + c18_layered.tasks(tier)
    # dependency closure: what --save / --cache store is Simulation.to_dict: the stored solver options carry the forward tolerance whatever the
    # run did before (Simulation contracts of C12, re-run here)
    t += [('contracts.c12', 'task_op', dict(op=o)) for o in ('to_dict', 'reload', 'clean_computed', 'model_update')]   # --load / --cache: from_dict; --clean: clean + model
    return t


LEVEL = ('The real configuration parser is executed by the control executor on an abstract ConfigParser: recognised key sets are observed from the parser itself, every recognised key is shown to reach its '
         'destination, an arbitrary other key (opaque sentinel) is rejected in every section, terminal values win over file values; the chain documented <= recognised and emitted <= accepted-by-API is checked '
         'against docs/manual/cli.rst and the API source; the hand-over in cli.run is checked on its call sites; API values rendered in the documented text format (all combinations of separator / comment styles) '
         'are shown to arrive unchanged at their destinations; the real Simulation constructor, to_dict / from_dict and the setter of Simulation.layered are executed in the sequences the CLI produces with '
         '--save / --load / --cache and -l, over every subset of the [layered] options: given options are kept, a simulation switched to layered holds the layered_opts of the equivalent API call.')
ASSUMPTIONS = ['configparser.ConfigParser / pathlib.Path / os.path behave as modelled (sections, items, has_option, get*, suffix handling)',
               'the parser inspects option NAMES only by comparison with string literals (so one opaque unknown key stands for all)',
               'equality of the computed results between CLI and API is only covered by the bounded concrete run']
