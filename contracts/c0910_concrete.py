"""Concrete cross-checks / replays for C09 and C10 on the real emg3d.fields / emg3d.electrodes."""
import itertools

import numpy as np


def mk_grid(seed, shape=(5, 6, 4), origin=(-10.0, 3.0, -40.0)):
    import emg3d
    rng = np.random.default_rng(seed)
    h = [rng.uniform(2.0, 9.0, n) for n in shape]
    return emg3d.TensorMesh(h, origin=origin), rng


def rand_field(grid, rng, cplx=True):
    import emg3d
    f = emg3d.Field(grid, frequency=1.3 if cplx else -1.3)
    f.field = rng.standard_normal(f.field.size) + (1j * rng.standard_normal(f.field.size) if cplx else 0)
    return f


def interior_point(grid, rng):
    return [rng.uniform(v[1], v[-2]) for v in (grid.nodes_x, grid.nodes_y, grid.nodes_z)]


def check_point_vector(seeds=(0,)):
    """receiver sampling (linear) == <point source vector, field>, for random positions / angles, complex and real fields;
    NaN policy; sum of the point vector == unit direction"""
    import emg3d
    from emg3d import fields, electrodes
    cases = 0
    for seed in seeds:
        grid, rng = mk_grid(seed)
        for cplx in (True, False):
            f = rand_field(grid, rng, cplx)
            for _ in range(25):
                cases += 1
                p = interior_point(grid, rng)
                az, el = rng.uniform(-180, 180), rng.uniform(-90, 90)
                if _ % 5 == 0:
                    az, el = [0.0, 90.0, 180.0, -90.0, 37.0][_ // 5], [0.0, 0.0, 90.0, -90.0, 0.0][_ // 5]
                coords = (p[0], p[1], p[2], az, el)
                r = fields.get_receiver(f, coords, method='linear')
                v = fields._point_vector(grid, coords)
                ip = np.sum(v.field * f.field)
                if not np.isfinite(r) or abs(r - ip) > 1e-10 * max(1.0, abs(ip)):
                    return dict(reproduced=True, cases=cases, clause='receiver sampling == inner product with the point-source vector', coords=coords,
                                sampled=str(r), inner_product=str(ip), how='contracts.c0910_concrete.check_point_vector')
                rot = electrodes.rotation(az, el)
                sums = np.array([v.fx.sum(), v.fy.sum(), v.fz.sum()])
                if np.abs(sums - rot).max() > 1e-12:
                    return dict(reproduced=True, cases=cases, clause='point source sums to its unit direction', coords=coords, sums=sums.tolist(), direction=rot.tolist())
                if min(v.fx.min() * np.sign(rot[0] or 1), v.fy.min() * np.sign(rot[1] or 1), v.fz.min() * np.sign(rot[2] or 1)) < -1e-15:
                    return dict(reproduced=True, cases=cases, clause='hat weights non-negative', coords=coords)
            # NaN policy: outermost cells and outside
            for q in ([grid.nodes_x[0] + 0.1, grid.nodes_y[2], grid.nodes_z[2]], [grid.nodes_x[-1] + 5, grid.nodes_y[2], grid.nodes_z[2]],
                      [grid.nodes_x[2], grid.nodes_y[-1] - 0.1, grid.nodes_z[2]], [grid.nodes_x[2], grid.nodes_y[2], grid.nodes_z[0] - 1]):
                cases += 1
                r = fields.get_receiver(f, (q[0], q[1], q[2], 10.0, 5.0), method='linear')
                if not np.isnan(r):
                    return dict(reproduced=True, cases=cases, clause='receiver in the outermost cells / outside yields NaN', position=q, got=str(r))
    return dict(reproduced=False, cases=cases)


def check_receiver_groups(seeds=(0,)):
    """several receivers sampled in ONE call of get_receiver (tuple of coordinate arrays, and list of Rx* instances): the response of every
    receiver of the group is the inner product of the field with the point-source vector of ITS OWN position and orientation -- the statement
    is about each point receiver, so the other receivers of the call must not matter.  The inner product is formed with the direction cosines
    computed here and the three unit point vectors along x, y, z (azimuth/elevation (0,0), (90,0), (0,90))."""
    import emg3d
    from emg3d import fields
    cases = 0
    groups = [('equal orientations', [30.0, 30.0, 30.0], [40.0, 40.0, 40.0]),
              ('Ex, Ey, Ez', [0.0, 90.0, 0.0], [0.0, 0.0, 90.0]),
              ('azimuths 45 and 135 (x-cosines cancel)', [45.0, 135.0], [0.0, 0.0]),
              ('opposite pair', [20.0, -160.0], [35.0, -35.0]),
              ('up and down plus oblique', [10.0, 10.0, 70.0], [90.0, -90.0, 0.0]),
              ('azimuth scan', list(np.arange(12) * 30.0 - 170.0), [0.0] * 12),
              ('elevation scan', [25.0] * 7, list(np.arange(7) * 30.0 - 90.0)),
              ('common azimuth of 22.5 degrees, whole-degree dips', [22.5] * 4, [0.0, 30.0, 60.0, -45.0])]
    for seed in seeds:
        grid, rng = mk_grid(seed)
        groups_ = groups + [('random', list(rng.uniform(-180, 180, 5)), list(rng.uniform(-90, 90, 5)))]
        for cplx in (True, False):
            f = rand_field(grid, rng, cplx)
            for name, az, el in groups_:
                az, el = np.array(az, dtype=float), np.array(el, dtype=float)
                n = az.size
                pts = np.array([interior_point(grid, rng) for _ in range(n)])
                want = []
                for j in range(n):
                    a, e = np.deg2rad(az[j]), np.deg2rad(el[j])
                    dc = (np.cos(a) * np.cos(e), np.sin(a) * np.cos(e), np.sin(e))
                    unit = [fields._point_vector(grid, (pts[j, 0], pts[j, 1], pts[j, 2], a_, e_)).field for a_, e_ in ((0.0, 0.0), (90.0, 0.0), (0.0, 90.0))]
                    want.append(sum(d * np.sum(u * f.field) for d, u in zip(dc, unit)))
                want = np.array(want)
                tup = (pts[:, 0], pts[:, 1], pts[:, 2], az, el)
                lst = [emg3d.RxElectricPoint((pts[j, 0], pts[j, 1], pts[j, 2], az[j], el[j])) for j in range(n)]
                forms = [('tuple of coordinate arrays', tup), ('list of Rx instances', lst)]
                if np.all(el == np.round(el)) and np.all(az == az[0]):
                    # the same receivers with the forms get_receiver documents for its angles: one common azimuth as a scalar (here not a whole
                    # number of degrees is possible), the elevations as an array of INTEGER dtype
                    forms.append(('tuple with scalar azimuth and integer-typed elevation array', (pts[:, 0], pts[:, 1], pts[:, 2], float(az[0]), el.astype(int))))
                for form, rec in forms:
                    cases += 1
                    got = np.ravel(np.asarray(fields.get_receiver(f, rec, method='linear')))
                    scale = max(1.0, np.abs(want).max())
                    if got.shape != want.shape or not np.all(np.isfinite(got)) or np.abs(got - want).max() > 1e-9 * scale:
                        j = int(np.argmax(np.where(np.isfinite(got), np.abs(got - want), np.inf))) if got.shape == want.shape else -1
                        return dict(reproduced=True, cases=cases, clause='every receiver of a group sampled in one call == inner product of the field with its own point-source vector',
                                    group=name, form=form, azimuths=az.tolist(), elevations=el.tolist(), positions=pts.tolist(), receiver=j,
                                    sampled=str(got[j]) if j >= 0 else str(got), inner_product=str(want[j]) if j >= 0 else str(want),
                                    how='contracts.c0910_concrete.check_receiver_groups')
    return dict(reproduced=False, cases=cases)


def check_magnetic(seeds=(0,)):
    """get_magnetic_field == discrete Faraday from grid widths and mu_r; repeated calls on the same grid (also after a
    permeable model) give the same result; magnetic receiver == adjoint source inner product"""
    import emg3d
    from emg3d import fields
    from scipy.constants import mu_0
    cases = 0
    for seed in seeds:
        grid, rng = mk_grid(seed)
        e = rand_field(grid, rng, True)
        shape = grid.shape_cells
        models = [emg3d.Model(grid, rng.uniform(0.5, 2, shape)), emg3d.Model(grid, rng.uniform(0.5, 2, shape), mu_r=rng.uniform(0.5, 3, shape)),
                  emg3d.Model(grid, rng.uniform(0.5, 2, shape))]
        vol0 = grid.cell_volumes.copy()
        results = []
        for m in models + models[::-1]:
            cases += 1
            hf = fields.get_magnetic_field(m, e)
            results.append(hf)
            # discrete Faraday law in the sign convention of emg3d:  H = curl E / (s mu0 mu_r), mu_r averaged (volume weighted) over the two cells of a face
            hx, hy, hz = grid.h
            ex, ey, ez = e.fx, e.fy, e.fz
            zeta = (hx[:, None, None] * hy[None, :, None] * hz[None, None, :]) / (1.0 if m.mu_r is None else m.mu_r) / e.smu0
            Cx = np.diff(ez, axis=1) / hy[None, :, None] - np.diff(ey, axis=2) / hz[None, None, :]
            want = Cx[1:-1] * (zeta[:-1] + zeta[1:]) / ((hx[:-1] + hx[1:])[:, None, None] * hy[None, :, None] * hz[None, None, :])
            got = hf.fx[1:-1]
            if np.abs(got - want).max() > 1e-10 * np.abs(want).max():
                return dict(reproduced=True, cases=cases, clause='magnetic field == volume-weighted discrete Faraday law', seed=seed,
                            rel=float(np.abs(got - want).max() / np.abs(want).max()),
                            how='contracts.c0910_concrete.check_magnetic (sequence of models on one grid)')
        if not np.array_equal(grid.cell_volumes, vol0):
            return dict(reproduced=True, cases=cases, clause='get_magnetic_field must not modify the grid (cached cell volumes changed)')
        for a, b in zip(results[:3], results[:2:-1]):
            if np.abs(a.field - b.field).max() > 0:
                return dict(reproduced=True, cases=cases, clause='same model and field give a different magnetic field after an intermediate call')
    return dict(reproduced=False, cases=cases)


def moment_vector(grid, field):
    """1/2 sum over all edges of  r_edge x (value_edge * unit vector of the edge),  r_edge the mid-point of the edge: for a closed current loop
    this is its area times its right-handed unit normal (the trilinear distribution of a straight segment preserves this first moment)"""
    nx, ny, nz = grid.nodes_x, grid.nodes_y, grid.nodes_z
    cx_, cy_, cz_ = grid.cell_centers_x, grid.cell_centers_y, grid.cell_centers_z
    m = np.zeros(3, dtype=complex)
    for comp, vecs, f in ((0, (cx_, ny, nz), field.fx), (1, (nx, cy_, nz), field.fy), (2, (nx, ny, cz_), field.fz)):
        r = np.stack(np.meshgrid(*vecs, indexing='ij'), axis=-1)
        s = np.zeros(r.shape, dtype=complex)
        s[..., comp] = np.asarray(f)
        m += 0.5 * np.cross(r, s).reshape(-1, 3).sum(axis=0)
    return m


def check_sources_from_coordinates(seed=0):
    """get_source_field with the source given by its COORDINATES (tuple / list / ndarray) and the keywords strength, length, electric:
    the injected moment is the caller's --
      (x, y, z, azimuth, elevation), electric:  per-component sums == length * direction * strength * (-s mu0)
      (x, y, z, azimuth, elevation), magnetic:  closed loop (sums 0) whose area vector == length * direction * strength * (-s mu0)
      two electrodes / wire:                    per-component sums == (last - first electrode) * strength * (-s mu0)
    with strength 1 A / length 1 m when not given; direction = (cos az cos el, sin az cos el, sin el) computed here."""
    from emg3d import fields
    cases = 0
    grid, rng = mk_grid(seed, shape=(6, 5, 4), origin=(-10.0, 3.0, -40.0))
    nodes = (grid.nodes_x, grid.nodes_y, grid.nodes_z)

    def sums(f):
        return np.array([f.fx.sum(), f.fy.sum(), f.fz.sum()])
    for k in range(8):
        c = [rng.uniform(v[1], v[-2]) for v in nodes]
        az, el = rng.uniform(-180, 180), rng.uniform(-90, 90)
        if k < 3:
            az, el = [(0.0, 0.0), (90.0, 0.0), (37.0, 90.0)][k]
        a, e = np.deg2rad(az), np.deg2rad(el)
        direction = np.array([np.cos(a) * np.cos(e), np.sin(a) * np.cos(e), np.sin(e)])
        coo = (c[0], c[1], c[2], az, el)
        for strength, freq in ((None, 1.0), (2.5, None), (2.5 - 1j, 0.7), (3.0, -2.0)):
            for length in (None, float(rng.uniform(1.5, 3.5))):
                for electric in (None, True, False):
                    for form in (tuple, list, np.array):
                        cases += 1
                        kw = {}
                        if strength is not None:
                            kw['strength'] = strength
                        if length is not None:
                            kw['length'] = length
                        if electric is not None:
                            kw['electric'] = electric
                        sf = fields.get_source_field(grid, form(coo), freq, **kw)
                        fac = (1.0 if strength is None else strength) * (1.0 if freq is None else -sf.smu0)
                        nominal = (1.0 if length is None else length) * direction
                        got = (moment_vector(grid, sf) if electric is False else sums(sf)) / fac
                        closed = np.abs(sums(sf) / fac).max() if electric is False else 0.0
                        if np.abs(got - nominal).max() > 1e-8 * max(1.0, np.abs(nominal).max()) or closed > 1e-8:
                            return dict(reproduced=True, cases=cases,
                                        clause=('magnetic dipole from coordinates: closed loop whose area vector == length * direction (times strength times -s mu0)'
                                                if electric is False else 'electric dipole from coordinates: sums == length * direction (times strength times -s mu0)'),
                                        source=list(coo), source_type=form.__name__, keywords={k_: str(v) for k_, v in kw.items()}, frequency=freq,
                                        moment_over_strength_and_s_mu0=[str(x) for x in got], nominal=nominal.tolist(), closure=float(closed),
                                        how='contracts.c0910_concrete.check_sources_from_coordinates')
        # two electrodes (flat and (2, 3) format) and a wire, given by coordinates
        p = np.array([[rng.uniform(v[0], v[-1]) for v in nodes] for _ in range(4)])
        for src, first, last in (((p[0, 0], p[1, 0], p[0, 1], p[1, 1], p[0, 2], p[1, 2]), p[0], p[1]), (p[:2], p[0], p[1]), (p[:2].tolist(), p[0], p[1]),
                                 (p, p[0], p[3]), (p[:3].tolist(), p[0], p[2])):
            for kw in ({}, dict(strength=1.5), dict(strength=0.5, length=7.0)):
                cases += 1
                sf = fields.get_source_field(grid, src, 1.3, **kw)
                got = sums(sf) / (kw.get('strength', 1.0) * -sf.smu0)
                if np.abs(got - (last - first)).max() > 1e-6 * max(1.0, np.abs(last - first).max()):
                    return dict(reproduced=True, cases=cases, clause='electrodes given by coordinates: sums == last - first electrode (times strength times -s mu0)',
                                source=np.asarray(src).tolist(), keywords=kw, sums=[str(x) for x in got], want=(last - first).tolist(),
                                how='contracts.c0910_concrete.check_sources_from_coordinates')
    return dict(reproduced=False, cases=cases)


def check_sources(tier='quick', seed=0):
    """dipole / wire / point sums, scaling by strength and -s mu0, touched cells; conversions; square loop"""
    import emg3d
    from emg3d import fields, electrodes
    from scipy.constants import mu_0
    cases = 0
    offs = [(0.0, 0.0, 0.0), (5e5, 6.5e6, -1000.0)]
    for off in offs:
        grid, rng = mk_grid(seed, shape=(6, 5, 4), origin=(off[0] - 10.0, off[1] + 3.0, off[2] - 40.0))
        nx, ny, nz = grid.nodes_x, grid.nodes_y, grid.nodes_z

        def rnd():
            return np.array([rng.uniform(nx[0], nx[-1]), rng.uniform(ny[0], ny[-1]), rng.uniform(nz[0], nz[-1])])
        wires = []
        for k in range(6 if tier == 'quick' else 30):
            npts = int(rng.integers(2, 9))
            wires.append(np.array([rnd() for _ in range(npts)]))
        # axis aligned, on nodes / edges / faces, short segments at large coordinates
        wires.append(np.array([[nx[1], ny[2], nz[1]], [nx[4], ny[2], nz[1]]]))
        wires.append(np.array([[nx[1], ny[1], nz[1]], [nx[1], ny[3], nz[3]], [nx[3], ny[3], nz[3]]]))
        wires.append(np.array([[nx[2] + 0.3, ny[2] + 0.2, nz[2]], [nx[2] + 0.8, ny[2] + 1.1, nz[2]], [nx[2] + 1.7, ny[2] + 1.9, nz[2] + 0.5], [nx[3], ny[3], nz[2] + 0.9]]))
        # wires that come back to a place they have been: a closed loop (last electrode == first), out and back and on
        wires.append(np.array([[nx[1] + 0.3, ny[1] + 0.2, nz[1] + 0.1], [nx[4] - 0.2, ny[1] + 0.2, nz[1] + 0.1], [nx[4] - 0.2, ny[3] + 0.4, nz[2] + 0.3], [nx[1] + 0.3, ny[1] + 0.2, nz[1] + 0.1]]))
        wires.append(np.array([[nx[1], ny[1], nz[1]], [nx[3], ny[2], nz[2]], [nx[4], ny[3], nz[1]], [nx[3], ny[2], nz[2]], [nx[2], ny[4], nz[3]]]))
        for w in wires:
            for strength, freq in ((1.0, 1.0), (2.5 - 1j, 0.7), (3.0, -2.0), (1.0, None)):
                cases += 1
                src = emg3d.TxElectricWire(w, strength=strength) if len(w) > 2 else emg3d.TxElectricDipole(w, strength=strength)
                if np.shape(src.points) != np.shape(w) or not np.array_equal(src.points, w):
                    return dict(reproduced=True, cases=cases, clause='the electrodes of the source are the electrodes given, all of them and in their order',
                                electrodes=w.tolist(), points=np.asarray(src.points).tolist(), how='contracts.c0910_concrete.check_sources')
                sf = fields.get_source_field(grid, src, freq)
                if len(w) > 2 and freq is None:
                    # superposition: the vector of a wire is the sum of the vectors of its segments
                    seg = sum(fields._dipole_vector(grid, np.array([a, b])).field for a, b in zip(w[:-1], w[1:]))
                    if np.abs(sf.field - strength * seg).max() > 1e-9 * max(1.0, np.abs(seg).max()):
                        return dict(reproduced=True, cases=cases, clause='source vector of a wire is the sum of the source vectors of its segments',
                                    electrodes=w.tolist(), max_abs_difference=float(np.abs(sf.field - strength * seg).max()), how='contracts.c0910_concrete.check_sources')
                fac = strength * (-sf.smu0 if freq is not None else 1.0)
                sums = np.array([sf.fx.sum(), sf.fy.sum(), sf.fz.sum()]) / fac
                want = w[-1] - w[0]
                if np.abs(sums - want).max() > 1e-6 * max(1.0, np.abs(want).max()):
                    return dict(reproduced=True, cases=cases, clause='source vector sums to last minus first electrode (times strength times -s mu0)',
                                electrodes=w.tolist(), sums=sums.real.tolist(), want=want.tolist(), strength=str(strength), frequency=freq,
                                how='contracts.c0910_concrete.check_sources')
                # only edges of cells touched by the wire carry a contribution (checked through the bounding box of each segment)
                touched = np.zeros(grid.shape_cells, dtype=bool)
                for p0, p1 in zip(w[:-1], w[1:]):
                    lo, hi = np.minimum(p0, p1), np.maximum(p0, p1)
                    ix = np.where((nx[1:] >= lo[0] - 1e-9) & (nx[:-1] <= hi[0] + 1e-9))[0]
                    iy = np.where((ny[1:] >= lo[1] - 1e-9) & (ny[:-1] <= hi[1] + 1e-9))[0]
                    iz = np.where((nz[1:] >= lo[2] - 1e-9) & (nz[:-1] <= hi[2] + 1e-9))[0]
                    touched[np.ix_(ix, iy, iz)] = True
                tx = np.zeros(sf.fx.shape, dtype=bool)
                for a, b in itertools.product((0, 1), repeat=2):
                    tx[:, a:tx.shape[1] - 1 + a, b:tx.shape[2] - 1 + b] |= touched
                if np.abs(sf.fx[~tx]).max(initial=0) > 0:
                    return dict(reproduced=True, cases=cases, clause='an x-edge of an untouched cell carries a source contribution', electrodes=w.tolist())
        # point sources: random positions, and every stratum of a direction (first node, first half cell, first cell centre, interior node,
        # interior, last cell centre, last half cell)
        def strata(nodes):
            cc = 0.5 * (nodes[1:] + nodes[:-1])
            return [nodes[0], 0.5 * (nodes[0] + cc[0]), cc[0], nodes[2], 0.3 * nodes[2] + 0.7 * nodes[3], cc[-1], 0.5 * (cc[-1] + nodes[-1])]
        pts = [rnd() for _ in range(8)]
        sx_, sy_, sz_ = strata(nx), strata(ny), strata(nz)
        for a in range(7):
            pts += [np.array([sx_[a], sy_[(a + 2) % 7], sz_[(a + 4) % 7]]), np.array([sx_[a], sy_[a], sz_[a]])]
        for kp, p in enumerate(pts):
            cases += 1
            az, el = rng.uniform(-180, 180), rng.uniform(-90, 90)
            if kp >= 8:
                az, el = [(0, 0), (90, 0), (0, 90), (35, 20)][kp % 4]
            vf = fields.get_source_field(grid, emg3d.TxElectricPoint((p[0], p[1], p[2], az, el)), None)
            # locality: a point source only touches edges of the cell that contains it and of its direct neighbours
            for c, arr in (('x', vf.fx), ('y', vf.fy), ('z', vf.fz)):
                nz_ = np.argwhere(arr != 0)
                for I in nz_:
                    for d_, (nodes_d, pd) in enumerate(((nx, p[0]), (ny, p[1]), (nz, p[2]))):
                        icell = int(np.clip(np.searchsorted(nodes_d, pd, side='right') - 1, 0, len(nodes_d) - 2))
                        if abs(int(I[d_]) - icell) > 2:
                            return dict(reproduced=True, cases=cases, clause='a point source touches only edges of its own and the neighbouring cells',
                                        position=p.tolist(), az=az, el=el, component=c, edge=[int(v) for v in I], value=float(arr[tuple(I)]),
                                        how='contracts.c0910_concrete.check_sources')
            sf = fields.get_source_field(grid, emg3d.TxElectricPoint((p[0], p[1], p[2], az, el), strength=2.0), 1.0)
            sums = np.array([sf.fx.sum(), sf.fy.sum(), sf.fz.sum()]) / (2.0 * -sf.smu0)
            if np.abs(sums - electrodes.rotation(az, el)).max() > 1e-10:
                return dict(reproduced=True, cases=cases, clause='point source sums to strength times unit direction', position=p.tolist(), az=az, el=el)
    # conversions
    rng = np.random.default_rng(seed + 5)
    for k in range(40):
        cases += 1
        c = rng.uniform(-100, 100, 3)
        az, el, ln = rng.uniform(-179.9, 180), rng.uniform(-89.9, 89.9), rng.uniform(0.5, 300)
        if k < 6:
            az, el = [0, 90, 180, -90, 45, 10][k], [0, 0, 0, 0, 90, -90][k]
        dip = electrodes.point_to_dipole((c[0], c[1], c[2], az, el), ln)
        a2, e2, l2 = electrodes.dipole_to_point(dip)
        dip2 = electrodes.point_to_dipole((c[0], c[1], c[2], a2, e2), l2)
        if np.abs(dip2 - dip).max() > 1e-9 * max(1.0, ln):
            return dict(reproduced=True, cases=cases, clause='dipole -> (azimuth, elevation, length) -> dipole returns the same electrodes', az=az, el=el, length=ln)
        if abs(l2 - ln) > 1e-9 * ln:
            return dict(reproduced=True, cases=cases, clause='dipole length preserved', az=az, el=el)
        area = rng.uniform(0.5, 50)
        loop = electrodes.point_to_square_loop((c[0], c[1], c[2], az, el), area)
        if loop.shape != (5, 3) or np.abs(loop[0] - loop[-1]).max() > 1e-12:
            return dict(reproduced=True, cases=cases, clause='square loop is closed (5 points, first == last)')
        hvec, vvec = loop[1] - loop[0], loop[2] - loop[1]
        nrm = np.cross(hvec, vvec)
        rot = electrodes.rotation(az, el)
        if abs(np.linalg.norm(nrm) - area) > 1e-9 * area or np.abs(nrm / np.linalg.norm(nrm) - rot).max() > 1e-9 or abs(hvec @ vvec) > 1e-9 * area:
            return dict(reproduced=True, cases=cases, clause='square loop: area, right-handed normal == dipole direction, right angles', az=az, el=el,
                        area=float(np.linalg.norm(nrm)), want_area=float(area))
        if np.abs((loop[:4] - c) @ rot).max() > 1e-9 * np.sqrt(area):
            return dict(reproduced=True, cases=cases, clause='square loop is planar, perpendicular to the dipole, centred on it')
    return dict(reproduced=False, cases=cases)


def check_source_get_field(seed=0):
    """Tx*.get_field(grid, frequency), the method through which simulations obtain source fields: along a sequence of calls on the SAME source
    object (Laplace, frequency-free, frequency domain, in any order) every field carries the nominal moment of the source times strength times
    -s mu0 (no factor without frequency) and equals get_source_field of a newly made source of the same description."""
    import emg3d
    from emg3d import fields
    cases = 0
    grid, rng = mk_grid(seed, shape=(6, 5, 4), origin=(-10.0, 3.0, -40.0))
    nx, ny, nz = grid.nodes_x, grid.nodes_y, grid.nodes_z

    def rnd():
        return np.array([rng.uniform(nx[1], nx[-2]), rng.uniform(ny[1], ny[-2]), rng.uniform(nz[1], nz[-2])])
    w2, w4 = np.array([rnd(), rnd()]), np.array([rnd() for _ in range(4)])
    c = rnd()
    makers = [('TxElectricDipole', lambda: emg3d.TxElectricDipole(w2, strength=3.5), w2[-1] - w2[0]),
              ('TxElectricWire', lambda: emg3d.TxElectricWire(w4, strength=0.25), w4[-1] - w4[0]),
              ('TxElectricPoint', lambda: emg3d.TxElectricPoint((c[0], c[1], c[2], 30.0, 20.0), strength=2.0), emg3d.electrodes.rotation(30.0, 20.0)),
              ('TxMagneticDipole', lambda: emg3d.TxMagneticDipole((c[0], c[1], c[2], 30.0, 20.0), strength=1.5), None),
              ('TxMagneticPoint', lambda: emg3d.TxMagneticPoint((c[0], c[1], c[2], 30.0, 20.0), strength=1.5), None)]
    for name, make, nominal in makers:
        src = make()
        for step, freq in enumerate([-2.5, -0.5, None, 1.0, None, -2.5, 7.0]):
            cases += 1
            got = src.get_field(grid, freq)
            ref = fields.get_source_field(grid, make(), freq)
            scale = np.abs(ref.field).max()
            if got.field.shape != ref.field.shape or got.field.dtype != ref.field.dtype or np.abs(got.field - ref.field).max() > 1e-12 * scale:
                return dict(reproduced=True, cases=cases, clause='Tx.get_field(grid, frequency) on a source used before differs from get_source_field of a new, equal source',
                            source=name, call_number=step + 1, frequency=freq, max_abs_difference=float(np.abs(got.field - ref.field).max()), scale=float(scale),
                            how='contracts.c0910_concrete.check_source_get_field: one source object, calls with frequencies -2.5, -0.5, None, 1.0, None, -2.5, 7.0')
            if nominal is not None:
                fac = src.strength * (-got.smu0 if freq is not None else 1.0)
                sums = np.array([got.fx.sum(), got.fy.sum(), got.fz.sum()]) / fac
                if np.abs(sums - nominal).max() > 1e-6 * max(1.0, np.abs(nominal).max()):
                    return dict(reproduced=True, cases=cases, clause='field of Tx.get_field does not carry the nominal moment times strength times -s mu0',
                                source=name, call_number=step + 1, frequency=freq, sums=np.real(sums).tolist(), nominal=np.asarray(nominal).tolist(),
                                how='contracts.c0910_concrete.check_source_get_field')
    return dict(reproduced=False, cases=cases)


def check_magnetic_transpose(seeds=(0,)):
    """magnetic point receiver (get_magnetic_field + linear get_receiver) == inner product of the electric field with the unit magnetic
    point-source vector of the same position and orientation, _point_vector_magnetic(grid, c, frequency), and with the source field of a
    TxMagneticPoint divided by strength * (-s mu0): frequency and Laplace domain, complex and real fields, several conductivity models"""
    import emg3d
    from emg3d import fields
    cases = 0
    for seed in seeds:
        grid, rng = mk_grid(seed)
        shape = grid.shape_cells
        nodes = (grid.nodes_x, grid.nodes_y, grid.nodes_z)
        for freq in (1.3, -2.0, 0.05, -0.4):
            e0 = rand_field(grid, rng, freq > 0)
            e = emg3d.Field(grid, e0.field if freq > 0 else np.ascontiguousarray(e0.field.real), frequency=freq)
            for model in (emg3d.Model(grid, 1.0), emg3d.Model(grid, rng.uniform(0.5, 2, shape)), emg3d.Model(grid, rng.uniform(0.01, 100, shape), mapping='Resistivity')):
                h = fields.get_magnetic_field(model, e)
                for k in range(4):
                    cases += 1
                    p = [rng.uniform(v[2], v[-3]) for v in nodes]
                    az, el = [(0.0, 0.0), (90.0, 0.0), (0.0, 90.0), (float(rng.uniform(-180, 180)), float(rng.uniform(-90, 90)))][k]
                    c = (p[0], p[1], p[2], az, el)
                    r = complex(fields.get_receiver(h, c, method='linear'))
                    v = fields._point_vector_magnetic(grid, c, freq)
                    ip = complex(np.sum(e.field * v.field))
                    sf = fields.get_source_field(grid, emg3d.TxMagneticPoint(c, strength=2.5), freq)
                    ip2 = complex(np.sum(e.field * sf.field) / (2.5 * -sf.smu0))
                    scale = max(abs(r), np.abs(e.field).max() * np.abs(v.field).max())
                    if abs(r - ip) > 1e-9 * scale or abs(r - ip2) > 1e-9 * scale:
                        return dict(reproduced=True, cases=cases, clause='magnetic receiver (discrete Faraday + linear interpolation) == inner product of the field with the unit magnetic point-source vector',
                                    frequency=freq, position=p, azimuth=az, elevation=el, sampled=str(r), inner_product_with_point_vector=str(ip),
                                    inner_product_with_source_field_over_strength_and_minus_smu0=str(ip2), seed=seed,
                                    how='contracts.c0910_concrete.check_magnetic_transpose')
    return dict(reproduced=False, cases=cases)
