"""C07 -- every datum is the response of ITS OWN receiver (Simulation._get_responses under contract).

The misfit is a sum over the data slots (source, receiver i, frequency); Simulation._get_rfield back-propagates the residual of slot i from
receiver i (its type, its coordinates_abs(source): c07.task_rfield).  The gradient is therefore the derivative of the reported misfit only if the
datum the forward pass stores in slot i is the response of receiver i itself.

S1  Simulation._get_responses(source, frequency, efield=None) returns one value per receiver of the survey, in survey order; the value in slot i is
      - the field sampled for receiver i's OWN type: the electric field `efield` (the given one; if none is given the one stored for this
        source and frequency -- what _dict_get('efield', source, frequency) hands out) for an electric receiver, the magnetic field
        fields.get_magnetic_field(self.get_model(source, frequency), that electric field) for a magnetic receiver,
      - at receiver i's OWN position and orientation receiver.coordinates_abs(this source) (what Survey._rec_types_coord returns for it: R1),
      - with the simulation's receiver_interpolation,
    for electric and magnetic receivers listed in ANY order (all 16 type patterns of four receivers -- all-electric and all-magnetic included --
    and one of five receivers; a type-by-type ordering of the result is a non-involutive permutation of the slots for several of them).
    Value level: the response is an uninterpreted function, named by the field it is sampled from and the interpolation method, of the five
    coordinates (the contract of fields.get_receiver for a tuple of coordinate arrays, C09: entry j is the response for the j-th coordinates).
S2  it stores nothing into the survey data and leaves the stored fields as they are.

Small 1-D numpy arrays of concrete length are modelled exactly by the extension value Arr1 (assumed numpy contracts, listed in the evidence);
the survey, its receivers and sources are those of c07_pos (Arr2 model), Survey._irec_types / _rec_types_coord / coordinates_abs are executed
from the source, not summarised.
"""
import ast
import itertools

import z3

from pyvc import cx, ob, prelude
from .cxutil import clause, coverage, UNRECOGNISED
from .c0910 import bind_call, NoBinding
from . import c07_pos
from .c07_pos import Arr2, _scalar, _vals, _real, canary_if_recognised

PROP = 'C07'


def replay(d):
    from . import c07_concrete
    return ob.guarded(c07_concrete.replay_slots, 0, 'given' if '/given_efield/' in d.get('id', '') else 'stored')


# ------------------------------------------------------------------ small dense 1-D arrays (assumed numpy contracts)
NUMPY_MODEL_1D = ('numpy on small 1-D arrays of concrete length (contracts/c07_resp.Arr1): np.zeros / np.empty (n) and np.zeros_like / np.empty_like of such an array, '
                  'a[i], a[int-array] / a[bool-mask] (copy), a[i] = v, a[int-array] = v and a[bool-mask] = v (v a scalar or one value per selected element, in order; '
                  'anything else raises ValueError), element-wise + - * / with scalars and equally long arrays, len / iteration / .size / .shape / .copy() / .flatten() / .ravel(), '
                  'np.concatenate / np.hstack / np.r_ of 1-D arrays = their elements one after the other')
DATA_MODEL = ('xarray: dataarray.loc[source, :, frequency] of a (source, receiver, frequency) cube is the vector of its entries for that source and frequency, one per '
              'receiver in survey order, as a view (a store through it is a store into the cube)')


class Arr1(cx.Ext):
    def __init__(self, elts, origin='fresh', share=False, frozen=False):
        self.elts = elts if share else list(elts)
        self.origin = origin
        self.frozen = frozen

    def _sel(self, key):
        n = len(self.elts)
        if isinstance(key, tuple) and not isinstance(key, cx.Vec):
            if len(key) != 1:
                raise cx.Unsupported('index form of a 1-D array')
            key = key[0]
        if isinstance(key, Arr1):
            key = list(key.elts)
        if isinstance(key, bool):
            raise cx.Unsupported('boolean scalar index')
        if isinstance(key, int):
            if not -n <= key < n:
                raise cx._Raise(cx.ExcVal('IndexError'))
            return [key % n], True
        if isinstance(key, slice):
            if any(x is not None and not isinstance(x, int) for x in (key.start, key.stop, key.step)):
                raise cx.Unsupported('symbolic slice bound')
            return list(range(n))[key], False
        if isinstance(key, (list, tuple)):
            ks = list(key)
            if ks and all(isinstance(k, bool) for k in ks):
                if len(ks) != n:
                    raise cx._Raise(cx.ExcVal('IndexError', ('boolean index did not match',)))
                return [i for i, b in enumerate(ks) if b], False
            if all(isinstance(k, int) and not isinstance(k, bool) for k in ks):
                if any(not -n <= k < n for k in ks):
                    raise cx._Raise(cx.ExcVal('IndexError'))
                return [k % n for k in ks], False
        raise cx.Unsupported(f'index {key!r} of a small 1-D array')

    def cx_getitem(self, it, key):
        idx, single = self._sel(key)
        if single:
            return self.elts[idx[0]]
        return Arr1([self.elts[i] for i in idx], frozen=isinstance(key, slice))     # (a slice is a view: stores through it are outside the model)

    def cx_setitem(self, it, key, value):
        if self.frozen or isinstance(key, slice):        # (a bare slice reaches here without its bounds)
            return NotImplemented
        idx, single = self._sel(key)
        if _scalar(value):
            vals = [value] * len(idx)
        elif isinstance(value, (Arr1, cx.Vec, list, tuple)) and not isinstance(value, Arr2):
            v = list(value.elts) if isinstance(value, Arr1) else list(value)
            if not all(_scalar(x) for x in v):
                return NotImplemented
            if single and len(v) != 1:
                raise cx._Raise(cx.ExcVal('ValueError', ('setting an array element with a sequence',)))
            if len(v) == len(idx):
                vals = v
            elif len(v) == 1:
                vals = v * len(idx)
            else:
                raise cx._Raise(cx.ExcVal('ValueError', ('shape mismatch: value array cannot be broadcast to the indexing result',)))
        else:
            return NotImplemented
        for i, x in zip(idx, vals):
            self.elts[i] = x
        return None

    def cx_iter(self, it):
        return list(self.elts)

    def cx_getattr(self, it, attr):
        if attr == 'size':
            return len(self.elts)
        if attr == 'shape':
            return (len(self.elts),)
        if attr == 'ndim':
            return 1
        if attr in ('data', 'values'):
            return self
        if attr == 'dtype':
            return cx.Opaque('dtype')
        if attr in ('copy', 'flatten', 'ravel'):
            return cx.LibFn('arr1.' + attr, bound=self)
        return NotImplemented

    def _elementwise(self, it, op, other, reflected):
        if not isinstance(op, (ast.Add, ast.Sub, ast.Mult, ast.Div)):
            return NotImplemented
        if _scalar(other):
            o = [other] * len(self.elts)
        elif isinstance(other, (Arr1, cx.Vec)):
            o = list(other.elts) if isinstance(other, Arr1) else list(other)
            if len(o) == 1:
                o = o * len(self.elts)
            if len(o) != len(self.elts) or not all(_scalar(x) for x in o):
                return NotImplemented
        else:
            return NotImplemented
        f = (lambda a, b: it.binop(op, b, a)) if reflected else (lambda a, b: it.binop(op, a, b))
        return [f(x, y) for x, y in zip(self.elts, o)]

    def cx_binop(self, it, op, other, reflected):
        r = self._elementwise(it, op, other, reflected)
        return r if r is NotImplemented else Arr1(r)

    def cx_inplace(self, it, op, other):
        if self.frozen:
            raise cx.Unsupported('in-place operation on a view of a small array')
        r = self._elementwise(it, op, other, False)
        if r is NotImplemented:
            raise cx.Unsupported('in-place operation on a small 1-D array')
        self.elts[:] = r
        return None


class DataCube(cx.Ext):
    """xarray.DataArray with dimensions (source, receiver, frequency): one shared element list per (source, frequency)"""

    def __init__(self, name, sources, nrec, freqs):
        self.name, self.nrec = name, nrec
        self.rows = {(s, f): [z3.Real(f'data.{name}[{s},{i},{f}]') for i in range(nrec)] for s in sources for f in freqs}
        self.initial = {k: list(v) for k, v in self.rows.items()}

    def cx_getattr(self, it, attr):
        if attr == 'loc':
            return _Loc(self)
        if attr == 'shape':
            return (len({s for s, _ in self.rows}), self.nrec, len({f for _, f in self.rows}))
        if attr == 'dtype':
            return cx.Opaque('dtype')
        return NotImplemented


class _Loc(cx.Ext):
    def __init__(self, cube):
        self.cube = cube

    def _row(self, key):
        if not (isinstance(key, tuple) and len(key) == 3 and isinstance(key[1], slice) and key[1] == slice(None, None, None)
                and isinstance(key[0], str) and isinstance(key[2], str)):
            raise cx.Unsupported(f'.loc[{key!r}] of a data cube')
        if (key[0], key[2]) not in self.cube.rows:
            raise cx._Raise(cx.ExcVal('KeyError', (key,)))
        return self.cube.rows[key[0], key[2]]

    def cx_getitem(self, it, key):
        return Arr1(self._row(key), origin='survey-data:' + self.cube.name, share=True)

    def cx_setitem(self, it, key, value):
        return Arr1(self._row(key), origin='survey-data:' + self.cube.name, share=True).cx_setitem(it, list(range(self.cube.nrec)), value)


def numpy_overrides(trust):
    """dependency contracts for the 1-D model on top of those of c07_pos (2-D model); everything else falls through to pyvc.prelude"""
    base = c07_pos.numpy_overrides(trust)
    T = prelude.TABLE

    def fall(name):
        def h(it, f, args, kw, node):
            if name in base:
                return base[name](it, f, args, kw, node)
            if name in T:
                return T[name](it, f, args, kw, node)
            it.ctx.event('libcall', name=name, args=args, kwargs=kw)
            return cx.Opaque(name + '()')
        return h

    def length(shp):
        if isinstance(shp, tuple) and len(shp) == 1:
            shp = shp[0]
        return shp if isinstance(shp, int) and not isinstance(shp, bool) and 0 < shp <= 16 else None

    def alloc(it, f, args, kw, node):
        n = length(args[0] if args else kw.get('shape'))
        if n is not None and f.name in ('np.zeros', 'np.empty'):
            trust(NUMPY_MODEL_1D)
            return Arr1([0.0 if f.name == 'np.zeros' else it.ctx.fresh_real('uninitialised') for _ in range(n)])
        return fall(f.name)(it, f, args, kw, node)

    def alloc_like(it, f, args, kw, node):
        v = args[0] if args else None
        if isinstance(v, (Arr1, cx.Vec)) and all(_scalar(x) for x in (v.elts if isinstance(v, Arr1) else v)):
            trust(NUMPY_MODEL_1D)
            n = len(v.elts) if isinstance(v, Arr1) else len(v)
            return Arr1([0.0 if f.name == 'np.zeros_like' else it.ctx.fresh_real('uninitialised') for _ in range(n)])
        if isinstance(v, cx.Ext):
            raise cx.Unsupported(f'{f.name} of an extension value')
        return fall(f.name)(it, f, args, kw, node)

    def parts_of(seq):
        if not isinstance(seq, (list, tuple)) or isinstance(seq, cx.Vec) or not seq:
            return None
        out = []
        for p in seq:
            if isinstance(p, Arr1):
                out.extend(p.elts)
            elif isinstance(p, cx.Vec) and all(_scalar(x) for x in p):
                out.extend(p)
            else:
                return None
        return out

    def concatenate(it, f, args, kw, node):
        out = parts_of(args[0]) if args else None
        if out is not None and len(args) == 1 and (not kw or (set(kw) == {'axis'} and kw['axis'] in (0, -1))):
            trust(NUMPY_MODEL_1D)
            return Arr1(out)
        if args and isinstance(args[0], (list, tuple)) and any(isinstance(p, cx.Ext) for p in args[0]):
            raise cx.Unsupported(f'{f.name} form')
        return fall(f.name)(it, f, args, kw, node)

    def r_(it, parts):
        out = parts_of([cx.Vec([p]) if _scalar(p) else p for p in parts])
        if out is None:
            raise cx.Unsupported('np.r_ form')
        trust(NUMPY_MODEL_1D)
        return Arr1(out)

    def len_(it, f, args, kw, node):
        if args and isinstance(args[0], Arr1):
            return len(args[0].elts)
        if args and isinstance(args[0], Arr2):
            return len(args[0].rows)
        return fall(f.name)(it, f, args, kw, node)

    def copy_(it, f, args, kw, node):
        v = f.bound if f.bound is not None else (args[0] if args else None)
        if isinstance(v, Arr1):
            trust(NUMPY_MODEL_1D)
            return Arr1(v.elts)
        return fall(f.name)(it, f, args, kw, node)

    def ravel(it, f, args, kw, node):
        if isinstance(f.bound, Arr1) and not args and not kw:
            trust(NUMPY_MODEL_1D)
            return f.bound            # (of a 1-D array: a view of all of it -- the array itself)
        raise cx.Unsupported('ravel form')

    def array(it, f, args, kw, node):
        v = args[0] if args else None
        if isinstance(v, Arr1):
            trust(NUMPY_MODEL_1D)
            return Arr1(v.elts) if f.name == 'np.array' and kw.get('copy') is not False else v
        return fall(f.name)(it, f, args, kw, node)

    ov = dict(base)
    ov.update({'np.zeros': alloc, 'np.empty': alloc, 'np.zeros_like': alloc_like, 'np.empty_like': alloc_like,
               'np.concatenate': concatenate, 'np.hstack': concatenate, 'np.r_': r_, 'builtins.len': len_,
               'arr1.copy': copy_, 'arr1.flatten': copy_, 'arr1.ravel': ravel, 'np.copy': copy_, 'np.array': array, 'np.asarray': array})
    return ov


# ------------------------------------------------------------------ scenario
SRC, FREQ = 'Tx-dip', 'f-2'               # the pair the responses are asked for (neither the first source nor the first frequency)
FREQS = ('f-1', 'f-2')
METHOD = 'linear'                          # the property's configuration; fields.get_receiver defaults to 'cubic'
RELATIVE = (False, True, True, False, True)
PATTERNS = [''.join(p) for p in itertools.product('EM', repeat=4)] + ['MEEME']


def receivers_of(pattern):
    out, n = [], {'E': 0, 'M': 0}
    for k, t in enumerate(pattern):
        n[t] += 1
        out.append((f'Rx{t}P-{n[t]}', 'RxElectricPoint' if t == 'E' else 'RxMagneticPoint', RELATIVE[k]))
    return out


def sample_fn(field_tag, method):
    """the response of a point receiver is a function of its five coordinates -- one function per field and interpolation method"""
    RS = z3.RealSort()
    return z3.Function(f'response[{field_tag}|{method}]', RS, RS, RS, RS, RS, RS)


def field_obj(tag):
    return cx.Obj('Field', dict(__tag__=tag, __strict__=True), mod='fields')


def tag_of(v):
    return v.fields.get('__tag__') if isinstance(v, cx.Obj) else None


def mk_simulation(pattern):
    recs = {n: c07_pos.mk_receiver(n, c, r) for n, c, r in receivers_of(pattern)}
    srcs = {n: c07_pos.mk_source(n, c, k) for n, c, k in c07_pos.SRC}
    cubes = {k: DataCube(k, list(srcs), len(recs), FREQS) for k in ('synthetic', 'observed')}
    data = cx.Obj('Dataset', dict(cubes, __items__=dict(cubes), __strict__=True), mod=None)
    sv = cx.Obj('Survey', dict(sources=srcs, receivers=recs, _data=data, _frequencies={f: z3.Real(f'frequency.{f}') for f in FREQS}, __strict__=True), mod='surveys')
    stored = {s: {f: field_obj(f'E-stored({s},{f})') for f in FREQS} for s in srcs}
    # the property's configuration: the computational grid is the model grid (gridding='same'; the grid of the pair asked for has not been handed out yet)
    grid = cx.Obj('TensorMesh', dict(__tag__='model.grid', __strict__=True), mod=None)
    model = cx.Obj('Model', dict(__tag__='model', grid=grid, __strict__=True), mod='models')
    grids = {s: {f: (None if (s, f) == (SRC, FREQ) else grid) for f in FREQS} for s in srcs}
    sim = cx.Obj('Simulation', dict(survey=sv, model=model, receiver_interpolation=METHOD, file_dir=None, gridding='same', _dict_efield=stored, _dict_grid=grids, __strict__=True,
                                    __unmodelled__=('_dict_efield_info', '_dict_bfield', '_dict_bfield_info', 'solver_opts', 'verb', 'name',
                                                    'info', 'max_workers', 'layered', 'tqdm_opts', '_srcfreq', '_gradient', '_misfit')),
                 mod='simulations')
    return sim, sv, srcs, recs, cubes, stored


def summaries(trust):
    def get_receiver(it, args, kw, node):
        """fields.get_receiver(field, receiver, method) for a tuple of coordinates (C09): one response per receiver, entry j is the response of `field`
        at the j-th coordinates with `method`"""
        try:
            b = bind_call('fields.get_receiver', args, kw)
        except NoBinding as e:
            raise cx._Raise(cx.ExcVal('TypeError', (str(e),)))
        tag, rec, method = tag_of(b['field']), b['receiver'], b['method']
        if tag is None or not isinstance(method, str):
            raise cx.Unsupported('get_receiver of an unknown field / with an unknown method')
        if isinstance(rec, cx.Obj):
            rec = it.getattr(rec, 'coordinates')          # (an Rx* instance: its coordinates, whatever its type or `relative` flag)
        rec = list(rec.elts) if isinstance(rec, Arr1) else rec
        if not (isinstance(rec, (tuple, list)) and len(rec) == 5):
            raise cx.Unsupported('receiver argument of get_receiver is not a tuple of five coordinates')
        cols, n = [], None
        for c in rec:
            c = list(c.elts) if isinstance(c, Arr1) else c
            if isinstance(c, (list, tuple)) and all(_scalar(x) for x in c):
                if n is not None and len(c) != n:
                    raise cx.Unsupported('coordinate arrays of different lengths')
                n = len(c)
                cols.append(list(c))
            elif _scalar(c):
                cols.append(c)
            else:
                raise cx.Unsupported('coordinates of get_receiver are neither scalars nor small arrays')
        m = 1 if n is None else n
        cols = [c if isinstance(c, list) else [c] * m for c in cols]
        trust('fields.get_receiver(field, (x, y, z, azimuth, elevation), method) (contract C09): one response per receiver; the response for the j-th coordinates is a '
              'function of the field, the method and those five numbers only')
        S = sample_fn(tag, method)
        return Arr1([S(*[_real(cols[k][j]) for k in range(5)]) for j in range(m)])

    def get_magnetic_field(it, args, kw, node):
        try:
            b = bind_call('fields.get_magnetic_field', args, kw)
        except NoBinding as e:
            raise cx._Raise(cx.ExcVal('TypeError', (str(e),)))
        mt, et = tag_of(b['model']), tag_of(b['efield'])
        if mt is None or et is None:
            raise cx.Unsupported('get_magnetic_field of an unknown model / field')
        trust('fields.get_magnetic_field(model, efield) (contract C09): a field determined by the model and the electric field it is given; writes nothing of its inputs')
        return field_obj(f'H({mt};{et})')

    return {'fields.get_receiver': get_receiver, 'fields.get_magnetic_field': get_magnetic_field}


def elements(v, n):
    """the n scalar entries of a returned vector, or None"""
    if isinstance(v, Arr1):
        v = v.elts
    return _vals(v, n) if isinstance(v, (list, tuple)) else None


def task_get_responses():
    col = ob.Collector(PROP, 'simulations.Simulation._get_responses')
    col.default_replay = replay
    for q in ('simulations.Simulation._get_responses', 'simulations.Simulation._dict_get', 'simulations.Simulation._load', 'simulations.Simulation.get_model',
              'simulations.Simulation.get_grid', 'models.Model.interpolate_to_grid', 'fields.Field.get_receiver', 'surveys.Survey._irec_types',
              'surveys.Survey._rec_types_coord'):
        col.function(q)
    col.trust(DATA_MODEL)

    def run_mode(mode, pattern):
        def run(ctx):
            ctx.opts['getattr_hook'] = c07_pos.getattr_hook
            ctx.opts.setdefault('prelude', {}).update(numpy_overrides(col.trust))
            ctx.summaries.update(summaries(col.trust))
            sim, sv, srcs, recs, cubes, stored = mk_simulation(pattern)
            given = field_obj('E-given') if mode == 'given' else None
            it_ = cx.Interp(ctx, 'simulations')
            st = dict(pattern=pattern, mode=mode, sim=sim, cubes=cubes, stored=stored, stored0={s: dict(d) for s, d in stored.items()}, want={})
            try:
                st['got'] = it_.call(it_.getattr(sim, '_get_responses'), [SRC, FREQ] + ([given] if given is not None else []), {})
                # reference evaluations (after the call): where receiver i is / which model the magnetic field belongs to
                ie = cx.Interp(ctx, 'electrodes')
                for rn in recs:
                    st['want'][rn] = ie.call(ie.getattr(recs[rn], 'coordinates_abs'), [srcs[SRC]], {})
                st['model'] = it_.call(it_.getattr(sim, 'get_model'), [SRC, FREQ], {})
            except cx._Raise as e:
                return 'raise', e.exc, st
            return 'return', st['got'], st
        return cx.explore(run)

    for mode in ('stored', 'given'):
        res = []
        for p in PATTERNS:
            res += run_mode(mode, p)
        for p in ('EMEM', 'MMMM'):
            coverage(col, f'{mode}_efield/explored_paths_cover_all_electrode_positions/{p}', [r for r in res if r.state['pattern'] == p])

        def mk_post(wrong=None, mode=mode):
            def post(r):
                st = r.state
                recs = receivers_of(st['pattern'])
                if r.outcome != 'return':
                    return None                     # (clause no_exception_on_a_well_formed_simulation)
                got = elements(r.value, len(recs))
                if got is None:
                    return UNRECOGNISED('the result is not a vector with one number per receiver of the survey')
                mt = tag_of(st['model'])
                if mt is None:
                    return UNRECOGNISED('get_model does not hand out a model')
                et = 'E-given' if mode == 'given' else f'E-stored({SRC},{FREQ})'
                order = list(range(len(recs)))
                if wrong == 'rotated':
                    order = order[1:] + order[:1]
                goals = []
                for slot, i in enumerate(order):
                    rn, cls_, _ = recs[i]
                    want = _vals(st['want'][rn], 5)
                    if want is None:
                        return UNRECOGNISED('coordinates_abs of a point receiver is not (x, y, z, azimuth, elevation)')
                    electric = 'Electric' in cls_ or wrong == 'all_electric'
                    S = sample_fn(et if electric else f'H({mt};{et})', 'cubic' if wrong == 'default_method' else METHOD)
                    goals.append(_real(got[slot]) == S(*[_real(x) for x in want]))
                return z3.And(*goals)
            return post
        clause(col, f'{mode}_efield/no_exception_on_a_well_formed_simulation', res,
               lambda r: True if r.outcome == 'return' else UNRECOGNISED(f'_get_responses raised {r.value!r} (receivers {r.state["pattern"]}); the model cannot tell whether the real '
                                                                          'objects would'))
        d = clause(col, f'{mode}_efield/slot_i_holds_the_response_of_receiver_i__field_of_its_own_type__its_own_coordinates_abs__the_simulations_interpolation', res, mk_post(),
                   sample=True)
        def frame(r):
            if r.outcome != 'return':
                return None
            st = r.state
            goals = [_real(a) == b for c in st['cubes'].values() for k, row in c.rows.items() for a, b in zip(row, c.initial[k])]
            same = all(st['stored'][s].get(f) is st['stored0'][s][f] for s in st['stored0'] for f in st['stored0'][s]) and \
                all(len(st['stored'][s]) == len(st['stored0'][s]) for s in st['stored0']) and st['sim'].fields.get('_dict_efield') is st['stored']
            return z3.And(z3.BoolVal(same), *goals)
        clause(col, f'{mode}_efield/survey_data_and_stored_fields_are_left_as_they_were', res, frame)

        if d['status'] != 'proved' or any(r.outcome != 'return' for r in res):
            continue          # the canaries show that the PROVED clause is not vacuous; a refuted / undecided clause needs none (and a wrong clause may hold for broken code)
        canary_if_recognised(col, f'canary/{mode}_efield/slot_i_holds_the_response_of_the_next_receiver', res, mk_post('rotated'))
        canary_if_recognised(col, f'canary/{mode}_efield/magnetic_receivers_sampled_from_the_electric_field', res, mk_post('all_electric'))
        canary_if_recognised(col, f'canary/{mode}_efield/sampled_with_the_default_interpolation', res, mk_post('default_method'))
    return col.pack()
